"""Behaviour-preserving twins of a source tree, used to check that a verdict
does not depend on layout, comments or the names of local variables.

 unparse twin   every module re-printed with ast.unparse (comments gone, layout
                and line numbers changed)
 rename twin    every true local variable of every function renamed (scoped by
                symtable); parameters, globals, attributes and free variables
                keep their names
Both twins of the pinned tree pass the repository's own test suite
(tools/twin_rename.py --verify-tests).
"""
import ast
import pathlib
import shutil
import symtable

SUFFIX = '_rn'


class Renamer(ast.NodeTransformer):

  def __init__(self, table):
    self.stack = []      # list of (symtable, {old: new})
    self.table = table
    self.count = 0

  def _child(self, name, lineno, kind):
    cur = self.stack[-1][0] if self.stack else self.table
    for c in cur.get_children():
      if c.get_name() == name and c.get_lineno() == lineno:
        return c
    for c in cur.get_children():
      if c.get_name() == name:
        return c
    return None

  def _lookup(self, name):
    for tab, ren in reversed(self.stack):
      if isinstance(ren, set):       # comprehension scope: only its targets shadow
        if name in ren:
          return None
        continue
      try:
        s = tab.lookup(name)
      except KeyError:
        continue
      if s.is_free():
        continue
      if name in ren:
        return ren[name]
      if s.is_local() or s.is_parameter() or s.is_global() or s.is_imported():
        return None
    return None

  def _enter(self, tab, is_function):
    ren = {}
    if tab is not None and is_function:
      uses_dyn = any(n in ('locals', 'eval', 'exec', 'vars')
                     for n in tab.get_identifiers())
      has_class = any(c.get_type() == 'class' for c in tab.get_children())
      if not uses_dyn and not has_class:
        for s in tab.get_symbols():
          if s.is_local() and not s.is_parameter() and not s.is_imported() and \
              not s.is_global() and not s.is_nonlocal() and not s.is_namespace() \
              and s.is_assigned() and not s.get_name().startswith('__'):
            ren[s.get_name()] = s.get_name() + SUFFIX
    self.stack.append((tab, ren))

  def visit_FunctionDef(self, node):
    node.decorator_list = [self.visit(d) for d in node.decorator_list]
    node.args.defaults = [self.visit(d) for d in node.args.defaults]
    node.args.kw_defaults = [self.visit(d) if d is not None else None
                             for d in node.args.kw_defaults]
    tab = self._child(node.name, node.lineno, 'function')
    if tab is None:
      return node
    self._enter(tab, True)
    node.body = [self.visit(s) for s in node.body]
    self.stack.pop()
    return node

  def visit_Lambda(self, node):
    node.args.defaults = [self.visit(d) for d in node.args.defaults]
    tab = self._child('lambda', node.lineno, 'function')
    if tab is None:
      return node
    self._enter(tab, False)
    node.body = self.visit(node.body)
    self.stack.pop()
    return node

  def visit_ClassDef(self, node):
    tab = self._child(node.name, node.lineno, 'class')
    if tab is None:
      return node
    self._enter(tab, False)
    node.body = [self.visit(s) for s in node.body]
    self.stack.pop()
    return node

  def _comp(self, node, name):
    tab = self._child(name, node.lineno, 'function')
    # the first iterable is evaluated in the enclosing scope
    first = node.generators[0]
    first.iter = self.visit(first.iter)
    targets = set()
    for g in node.generators:
      for x in ast.walk(g.target):
        if isinstance(x, ast.Name):
          targets.add(x.id)
    self.stack.append((tab, targets))
    for i, g in enumerate(node.generators):
      g.target = self.visit(g.target)
      if i > 0:
        g.iter = self.visit(g.iter)
      g.ifs = [self.visit(x) for x in g.ifs]
    if isinstance(node, ast.DictComp):
      node.key = self.visit(node.key)
      node.value = self.visit(node.value)
    else:
      node.elt = self.visit(node.elt)
    self.stack.pop()
    return node

  def visit_ListComp(self, node):
    return self._comp(node, 'listcomp')

  def visit_SetComp(self, node):
    return self._comp(node, 'setcomp')

  def visit_DictComp(self, node):
    return self._comp(node, 'dictcomp')

  def visit_GeneratorExp(self, node):
    return self._comp(node, 'genexpr')

  def visit_Name(self, node):
    new = self._lookup(node.id)
    if new:
      node.id = new
      self.count += 1
    return node

  def visit_ExceptHandler(self, node):
    if node.name:
      new = self._lookup(node.name)
      if new:
        node.name = new
    self.generic_visit(node)
    return node


def rename_source(src, filename='<m>'):
  tree = ast.parse(src)
  table = symtable.symtable(src, filename, 'exec')
  r = Renamer(table)
  r.stack.append((table, {}))
  tree = r.visit(tree)
  return ast.unparse(tree) + '\n', r.count




def make_unparse_twin(src_pkg, dst_root):
  dst = pathlib.Path(dst_root) / pathlib.Path(src_pkg).name
  shutil.copytree(src_pkg, dst)
  for p in dst.rglob('*.py'):
    p.write_text(ast.unparse(ast.parse(p.read_text())) + '\n')
  return dst


def make_rename_twin(src_pkg, dst_root):
  dst = pathlib.Path(dst_root) / pathlib.Path(src_pkg).name
  shutil.copytree(src_pkg, dst)
  total = 0
  for p in dst.rglob('*.py'):
    new, n = rename_source(p.read_text(), str(p))
    p.write_text(new)
    total += n
  return dst, total


def _reorder_class(cls_node):
  """Reverses the order of the plain (undecorated) methods of a class among
  the positions they occupy; everything else stays where it is."""
  used = set()
  for st in cls_node.body:
    if not isinstance(st, (ast.FunctionDef, ast.AsyncFunctionDef)):
      for n in ast.walk(st):
        if isinstance(n, ast.Name):
          used.add(n.id)
    else:
      for d in st.decorator_list:
        for n in ast.walk(d):
          if isinstance(n, ast.Name):
            used.add(n.id)
      for dflt in st.args.defaults + [x for x in st.args.kw_defaults if x is not None]:
        for n in ast.walk(dflt):
          if isinstance(n, ast.Name):
            used.add(n.id)
  names = [st.name for st in cls_node.body if isinstance(st, ast.FunctionDef)]
  idx = [i for i, st in enumerate(cls_node.body)
         if isinstance(st, ast.FunctionDef) and not st.decorator_list and
         st.name not in used and names.count(st.name) == 1]
  meths = [cls_node.body[i] for i in idx]
  for i, m in zip(idx, reversed(meths)):
    cls_node.body[i] = m
  return len(idx)


def make_reorder_twin(src_pkg, dst_root):
  """Twin with the plain methods of every class in reverse order."""
  dst = pathlib.Path(dst_root) / pathlib.Path(src_pkg).name
  shutil.copytree(src_pkg, dst)
  total = 0
  for p in dst.rglob('*.py'):
    tree = ast.parse(p.read_text())
    for n in ast.walk(tree):
      if isinstance(n, ast.ClassDef):
        total += _reorder_class(n)
    p.write_text(ast.unparse(tree) + '\n')
  return dst, total
