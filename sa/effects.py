"""E5: callback-event automata of the small operator functions.

A tiny abstract interpreter (sequences, if, while, for-in, break/continue,
return, local closures, and/or/not, conditional expressions, repo-local calls
inlined, try/except around callback calls).  Values are symbols; calling a
parameter emits an event; branching on a symbol forks on its truth value and
records it.  The result is an NFA over events; two functions are compared by
DFA language equivalence, so any refactoring with the same event language
passes.  The returned value is part of the language.
"""
import ast
import itertools

from sa import core

# exception universe used inside try blocks (name -> set of ancestors incl. self)
EXC = {
    'KeyError': {'KeyError', 'LookupError', 'Exception'},
    'IndexError': {'IndexError', 'LookupError', 'Exception'},
    'AttributeError': {'AttributeError', 'Exception'},
    'NameError': {'NameError', 'Exception'},
    'UnboundLocalError': {'UnboundLocalError', 'NameError', 'Exception'},
    'TypeError': {'TypeError', 'Exception'},
    'ValueError': {'ValueError', 'Exception'},
}


class NFA:

  def __init__(self):
    self.n = 0
    self.edges = []

  def new(self):
    self.n += 1
    return self.n - 1

  def add(self, a, l, b):
    self.edges.append((a, l, b))


class Unsupported(core.AnalysisError):
  pass


def fmt(v):
  if isinstance(v, str):
    return v
  k = v[0]
  if k == 'param':
    return v[1]
  if k == 'const':
    return repr(v[1])
  if k == 'callres':
    return v[1] + '()'
  if k == 'item':
    return 'item(' + v[1] + ')'
  if k == 'not':
    return 'not ' + fmt(v[1])
  if k == 'bool':
    return 'bool(' + fmt(v[1]) + ')'
  if k == 'is':
    return fmt(v[1]) + ' is ' + fmt(v[2])
  if k == 'closure':
    return '<closure %s>' % v[1].name
  if k == 'func':
    return '<func %s>' % v[1]
  if k == 'global':
    return v[1]
  if k == 'attr':
    return fmt(v[1]) + '.' + v[2]
  if k == 'isinstance':
    return 'isinstance(%s,%s)' % (fmt(v[1]), fmt(v[2]))
  if k == 'tuple':
    return '(' + ','.join(fmt(x) for x in v[1]) + ')'
  if k == 'star':
    return '*' + fmt(v[1])
  if k == 'extres':
    return v[1] + '(' + ','.join(v[2]) + ')'
  if k == 'cmp':
    return '%s %s %s' % (fmt(v[2]), v[1], fmt(v[3]))
  if k == 'new':
    return v[1] + '(' + ','.join(v[2]) + ')'
  return repr(v)


class Interp:
  """exec_* take an entry state and env; yield (exit_state, kind, value, env)
  with kind in next/break/continue/return/raise."""

  def __init__(self, nfa, funcs, classes=(), depth=0, raising_lookups=True):
    self.nfa = nfa
    self.funcs = funcs
    self.classes = set(classes)
    self.depth = depth
    self.in_try = 0
    self.raising_lookups = raising_lookups

  # ---- expressions -> list of (state, value) ; raises collected in self.raised
  def eval(self, e, st, env):
    n = self.nfa
    if isinstance(e, ast.Constant):
      return [(st, ('const', e.value))]
    if isinstance(e, ast.Name):
      if e.id in env:
        return [(st, env[e.id])]
      if e.id in self.funcs:
        return [(st, ('func', e.id))]
      return [(st, ('global', e.id))]
    if isinstance(e, ast.Attribute):
      return [(s, ('attr', v, e.attr)) for s, v in self.eval(e.value, st, env)]
    if isinstance(e, ast.UnaryOp) and isinstance(e.op, ast.Not):
      return [(s, ('not', v)) for s, v in self.eval(e.operand, st, env)]
    if isinstance(e, ast.BoolOp):
      res = []
      cur = self.eval(e.values[0], st, env)
      for nxt in e.values[1:]:
        newcur = []
        for s, v in cur:
          for s2, t in self.branch(s, v):
            short = (not t) if isinstance(e.op, ast.And) else t
            if short:
              res.append((s2, v))
            else:
              newcur.extend(self.eval(nxt, s2, env))
        cur = newcur
      return res + cur
    if isinstance(e, ast.IfExp):
      out = []
      for s, v in self.eval(e.test, st, env):
        for s2, t in self.branch(s, v):
          out.extend(self.eval(e.body if t else e.orelse, s2, env))
      return out
    if isinstance(e, ast.Compare) and len(e.ops) == 1:
      out = []
      for s, l in self.eval(e.left, st, env):
        for s2, r in self.eval(e.comparators[0], s, env):
          if isinstance(e.ops[0], (ast.Is, ast.IsNot)):
            v = ('is', l, r)
            if isinstance(e.ops[0], ast.IsNot):
              v = ('not', v)
          else:
            v = ('cmp', type(e.ops[0]).__name__, l, r)
          out.append((s2, v))
      return out
    if isinstance(e, ast.Call):
      outs = []
      for s, f in self.eval(e.func, st, env):
        argstates = [(s, [])]
        for a in e.args:
          new = []
          for s1, vals in argstates:
            inner = a.value if isinstance(a, ast.Starred) else a
            for s2, v in self.eval(inner, s1, env):
              new.append((s2, vals + [('star', v) if isinstance(a, ast.Starred)
                                      else v]))
          argstates = new
        for s1, vals in argstates:
          outs.extend(self.call(f, vals, s1, e, env))
      return outs
    if isinstance(e, ast.Tuple):
      states = [(st, [])]
      for el in e.elts:
        states = [(s2, vals + [v]) for s, vals in states
                  for s2, v in self.eval(el, s, env)]
      return [(s, ('tuple', tuple(vals))) for s, vals in states]
    raise Unsupported('expression %s' % core.norm(e))

  def call(self, f, args, st, node, env):
    n = self.nfa
    if f[0] == 'global' and f[1] == 'bool' and len(args) == 1:
      return [(st, ('bool', args[0]))]
    if f[0] == 'global' and f[1] == 'isinstance':
      return [(st, ('isinstance', args[0], args[1]))]
    if f[0] == 'global' and f[1] in self.classes:
      return [(st, ('new', f[1], tuple(fmt(a) for a in args)))]
    if f[0] in ('param', 'callres', 'item'):
      dst = n.new()
      lab = 'call ' + fmt(f) + '(' + ','.join(fmt(a) for a in args) + ')'
      n.add(st, lab, dst)
      outs = [(dst, ('callres', fmt(f)))]
      if self.in_try:
        for ex in sorted(EXC):
          r = n.new()
          n.add(st, lab + ' !' + ex, r)
          self.raised.append((r, ('exc', ex)))
      return outs
    if f[0] == 'attr':
      base = f[1]
      # registry.lookup(x): registries are empty for ordinary values
      if f[2] == 'lookup' and base[0] == 'global' and self.raising_lookups:
        self.raised.append((st, ('exc', 'LookupError')))
        return []
      dst = n.new()
      lab = 'call ' + fmt(f) + '(' + ','.join(fmt(a) for a in args) + ')'
      n.add(st, lab, dst)
      return [(dst, ('callres', fmt(f)))]
    if f[0] in ('closure', 'func'):
      if f[0] == 'closure':
        fd, cenv = f[1], dict(f[2])
      else:
        fd, cenv = self.funcs[f[1]], {}
      if self.depth > 6:
        raise Unsupported('inlining too deep')
      params = [a.arg for a in fd.args.args]
      env2 = dict(cenv)
      vals = list(args)
      if fd.args.vararg:
        k = len(params)
        env2[fd.args.vararg.arg] = ('tuple', tuple(vals[k:]))
        vals = vals[:k]
      for p, v in zip(params, vals):
        env2[p] = v
      sub = Interp(n, self.funcs, self.classes, self.depth + 1,
                   self.raising_lookups)
      sub.raised = self.raised
      sub.in_try = self.in_try
      outs = sub.block(fd.body, st, env2)
      res = []
      for s, k, v, _e in outs:
        if k == 'return':
          res.append((s, v))
        elif k == 'next':
          res.append((s, ('const', None)))
        elif k == 'raise':
          self.raised.append((s, v))
      return res
    if f[0] == 'global':
      dst = n.new()
      n.add(st, 'ext ' + f[1] + '(' + ','.join(fmt(a) for a in args) + ')', dst)
      return [(dst, ('extres', f[1], tuple(map(fmt, args))))]
    raise Unsupported('call of %s' % (f,))

  def branch(self, st, v):
    n = self.nfa
    if v[0] == 'const':
      return [(st, bool(v[1]))]
    if v[0] == 'not':
      return [(s, not t) for s, t in self.branch(st, v[1])]
    if v[0] == 'bool':
      return self.branch(st, v[1])
    a = n.new()
    b = n.new()
    n.add(st, fmt(v) + ':T', a)
    n.add(st, fmt(v) + ':F', b)
    return [(a, True), (b, False)]

  # ---- statements
  def block(self, stmts, st, env):
    cur = [(st, env)]
    exits = []
    for s in stmts:
      new = []
      for stt, e in cur:
        for (s2, k, v, e2) in self.stmt(s, stt, e):
          if k == 'next':
            new.append((s2, e2 if e2 is not None else e))
          else:
            exits.append((s2, k, v, e2 if e2 is not None else e))
      cur = new
    return exits + [(s, 'next', None, e) for s, e in cur]

  def _with_raised(self, fn):
    """Run fn() collecting raises produced inside; returns (result, raised)."""
    saved = getattr(self, 'raised', [])
    self.raised = []
    try:
      res = fn()
      mine = self.raised
    finally:
      self.raised = saved
    return res, mine

  def stmt(self, s, st, env):
    n = self.nfa
    if isinstance(s, ast.Expr):
      if isinstance(s.value, ast.Constant):
        return [(st, 'next', None, env)]
      return self._lift(lambda: self.eval(s.value, st, env),
                        lambda s2, v: (s2, 'next', None, env))
    if isinstance(s, ast.Assign) and len(s.targets) == 1 and isinstance(
        s.targets[0], ast.Name):
      nm = s.targets[0].id

      def mk(s2, v):
        e2 = dict(env)
        e2[nm] = v
        return (s2, 'next', None, e2)

      return self._lift(lambda: self.eval(s.value, st, env), mk)
    if isinstance(s, (ast.Delete, ast.Pass, ast.Global, ast.Nonlocal)):
      return [(st, 'next', None, env)]
    if isinstance(s, ast.FunctionDef):
      e2 = dict(env)
      e2[s.name] = ('closure', s, _Frozen(env))
      return [(st, 'next', None, e2)]
    if isinstance(s, ast.Return):
      if s.value is None:
        return [(st, 'return', ('const', None), env)]
      return self._lift(lambda: self.eval(s.value, st, env),
                        lambda s2, v: (s2, 'return', v, env))
    if isinstance(s, ast.Raise):
      if s.exc is None:
        return [(st, 'raise', ('exc', '<reraise>'), env)]
      nm = core.norm(s.exc.func) if isinstance(s.exc, ast.Call) else core.norm(s.exc)
      return [(st, 'raise', ('exc', nm), env)]
    if isinstance(s, ast.Break):
      return [(st, 'break', None, env)]
    if isinstance(s, ast.Continue):
      return [(st, 'continue', None, env)]
    if isinstance(s, ast.If):
      out = []
      pairs, raised = self._with_raised(lambda: self.eval(s.test, st, env))
      for r, v in raised:
        out.append((r, 'raise', v, env))
      for s2, v in pairs:
        for s3, t in self.branch(s2, v):
          for (x, k, val, e2) in self.block(s.body if t else s.orelse, s3, env):
            out.append((x, k, val, e2))
      return out
    if isinstance(s, ast.While):
      head = n.new()
      n.add(st, None, head)
      out = []
      pairs, raised = self._with_raised(lambda: self.eval(s.test, head, env))
      for r, v in raised:
        out.append((r, 'raise', v, env))
      for s2, v in pairs:
        for s3, t in self.branch(s2, v):
          if not t:
            out.append((s3, 'next', None, env))
            continue
          for (x, k, val, e2) in self.block(s.body, s3, env):
            if k in ('next', 'continue'):
              n.add(x, None, head)
            elif k == 'break':
              out.append((x, 'next', None, env))
            else:
              out.append((x, k, val, env))
      return out
    if isinstance(s, ast.For):
      out = []
      pairs, raised = self._with_raised(lambda: self.eval(s.iter, st, env))
      for r, v in raised:
        out.append((r, 'raise', v, env))
      for s0, it in pairs:
        head = n.new()
        n.add(s0, None, head)
        item = n.new()
        stop = n.new()
        n.add(head, 'next ' + fmt(it) + ':item', item)
        n.add(head, 'next ' + fmt(it) + ':stop', stop)
        out.append((stop, 'next', None, env))
        e2 = dict(env)
        if isinstance(s.target, ast.Name):
          e2[s.target.id] = ('item', fmt(it))
        for (x, k, val, _e3) in self.block(s.body, item, e2):
          if k in ('next', 'continue'):
            n.add(x, None, head)
          elif k == 'break':
            out.append((x, 'next', None, env))
          else:
            out.append((x, k, val, env))
      return out
    if isinstance(s, ast.Try):
      out = []
      self.in_try += 1
      saved = getattr(self, 'raised', [])
      self.raised = []
      try:
        body = self.block(s.body, st, env)
        mine = self.raised
      finally:
        self.raised = saved
        self.in_try -= 1
      mine_env = []
      for (x, k, v, e2) in body:
        if k == 'raise':
          mine_env.append((x, v, e2))
        else:
          out.append((x, k, v, e2))
      for r, v in mine:
        mine_env.append((r, v, env))
      for r, v, e2 in mine_env:
        exname = v[1]
        anc = EXC.get(exname, {exname, 'Exception'})
        caught = False
        for h in s.handlers:
          if h.type is None:
            names = ['BaseException']
          elif isinstance(h.type, ast.Tuple):
            names = [core.norm(x) for x in h.type.elts]
          else:
            names = [core.norm(h.type)]
          if any(nm in anc or nm == 'BaseException' for nm in names):
            caught = True
            for (x, k, val, e3) in self.block(h.body, r, e2):
              out.append((x, k, val, e3))
            break
        if not caught:
          out.append((r, 'raise', v, e2))
      return out
    raise Unsupported('statement %s' % core.norm(s)[:60])

  def _lift(self, ev, mk):
    pairs, raised = self._with_raised(ev)
    out = [mk(s2, v) for s2, v in pairs]
    for r, v in raised:
      if self.in_try or True:
        out.append((r, 'raise', v, None))
        if hasattr(self, 'raised'):
          pass
    return out


class _Frozen(dict):

  def __hash__(self):
    return id(self)


def automaton(fd, funcs, classes=(), fixed=None):
  n = NFA()
  start = n.new()
  final = n.new()
  it = Interp(n, funcs, classes)
  it.raised = []
  env = {a.arg: ('param', a.arg) for a in fd.args.args + fd.args.kwonlyargs}
  if fd.args.vararg:
    env[fd.args.vararg.arg] = ('param', '*' + fd.args.vararg.arg)
  env.update(fixed or {})
  for (s, k, v, _e) in it.block(fd.body, start, env):
    if k == 'next':
      n.add(s, 'ret None', final)
    elif k == 'return':
      n.add(s, 'ret ' + fmt(v), final)
    elif k == 'raise':
      n.add(s, 'raise ' + v[1], final)
  for s, v in it.raised:
    n.add(s, 'raise ' + v[1], final)
  return n, start, final


def _eclose(n, S):
  S = set(S)
  stack = list(S)
  while stack:
    x = stack.pop()
    for a, l, b in n.edges:
      if a == x and l is None and b not in S:
        S.add(b)
        stack.append(b)
  return frozenset(S)


def dfa(n, start, final):
  s0 = _eclose(n, [start])
  trans = {}
  seen = {s0}
  todo = [s0]
  while todo:
    S = todo.pop()
    m = {}
    for a, l, b in n.edges:
      if a in S and l is not None:
        m.setdefault(l, set()).add(b)
    for l, T in m.items():
      T = _eclose(n, T)
      trans[(S, l)] = T
      if T not in seen:
        seen.add(T)
        todo.append(T)
  return s0, trans, {S for S in seen if final in S}, len(seen)


def equivalent(A, B):
  (a0, ta, fa, _), (b0, tb, fb, _) = A, B
  seen = {(a0, b0)}
  todo = [(a0, b0, ())]
  while todo:
    x, y, path = todo.pop()
    if (x in fa) != (y in fb):
      return False, list(path) + ['<one side may stop here, the other not>']
    la = {l for (s, l) in ta if s == x}
    lb = {l for (s, l) in tb if s == y}
    if la != lb:
      return False, list(path) + ['<next events differ: impl only %s / reference '
                                  'only %s>' % (sorted(la - lb), sorted(lb - la))]
    for l in la:
      p = (ta[(x, l)], tb[(y, l)])
      if p not in seen:
        seen.add(p)
        todo.append(p + (path + (l,),))
  return True, None


def callback_arities(fd, funcs):
  """param name -> set of positional argument counts it is called with."""
  n, start, final = automaton(fd, funcs)
  out = {}
  params = {a.arg for a in fd.args.args}
  for a, l, b in n.edges:
    if l and l.startswith('call '):
      body = l[5:].split(' !')[0]
      name = body.split('(')[0]
      if name in params:
        inner = body[len(name) + 1:-1]
        cnt = 0 if not inner else _count_args(inner)
        out.setdefault(name, set()).add(cnt)
  return out


def _count_args(s):
  depth = 0
  cnt = 1
  for ch in s:
    if ch in '([':
      depth += 1
    elif ch in ')]':
      depth -= 1
    elif ch == ',' and depth == 0:
      cnt += 1
  return cnt
