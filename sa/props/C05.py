"""C05 — the control-flow graph contains every control path that can execute.

 CFG-ASDL      field-type discipline of the graph builder's handlers
 CFG-STMT      AstToCfg has a handler for every statement kind in scope (a kind
               without handler gets no node: its reads/writes vanish)
 CFG-PAIR      on every path of every AstToCfg method, each enter_* / begin_* /
               _enter_lexical_scope is closed by the matching exit with the same
               key, properly nested
 CFG-TRY       a try's lexical scope is closed before its finally body is built
               (jumps inside `finally` are not guarded by their own finally) and
               stays open while its handlers are built (jumps in handlers run the
               finally)
 CFG-JUMP      return/break/raise reach add_exit_node, continue add_continue_node,
               with guards collected up to the right enclosing kind; raise is also
               wired to *every* enclosing handler and recorded as error
 CFG-MIRROR    next / prev / forward_edges are written together, unconditionally,
               only by the connecting primitive; statement-level edges derive
               from forward_edges and ownership only
 CFG-LEAVES    the leaf set is never shrunk in place (finally subgraphs keep a
               reference to it); jump nodes reset it by rebinding
"""
import ast

from sa import asdl
from sa import core
from sa import formula
from sa import fieldtypes
from sa import pat
from sa import pycfg
from sa import tpl

CFG = 'malt/pyct/cfg.py'

OUT_OF_SCOPE = {
    'AsyncFunctionDef': 'async', 'AsyncFor': 'async', 'AsyncWith': 'async',
    'Match': 'match statements are outside the documented scope',
    'TryStar': 'except* is outside the documented scope',
    'TypeAlias': 'type statements have no control flow and bind nothing the '
                 'analyses track',
}
PAIRS = {
    'begin_statement': 'end_statement',
    '_enter_lexical_scope': '_exit_lexical_scope',
    'enter_section': 'exit_section',
    'enter_loop_section': 'exit_loop_section',
    'enter_cond_section': 'exit_cond_section',
    'enter_finally_section': 'exit_finally_section',
}
CLOSERS = {v: k for k, v in PAIRS.items()}


def asdl_rule(model, rep, rule, rels):
  an = fieldtypes.Analyzer(model)
  classes = [c for c in model.visitor_classes() if c.module.rel in rels]
  for c in classes:
    before = len(an.findings)
    an.run_class(c)
  by_handler = {}
  for f in an.findings:
    by_handler.setdefault((f.fi.site, f.rule, f.construct), f)
  flagged = set()
  for (site, r, construct), f in by_handler.items():
    flagged.add(site)
    rep.violation(rule, '%s:%s:%s' % (site, r, construct), f.msg,
                  {'asdl_rule': r}, line=f.line,
                  witness='any program containing a %s node makes this handler '
                  'crash or mishandle it' % f.fi.name[6:])
  for c in classes:
    for name, fi in c.methods.items():
      if name.startswith('visit_') and name[6:] in asdl.FIELDS and \
          fi.site not in flagged:
        rep.hold(rule, '%s:field-types' % fi.site, nontrivial=True)
  for rel in rels:
    m = model.module(rel)
    for n in fieldtypes.dead_class_refs(m):
      rep.violation(rule, '%s:dead-class(ast.%s)' % (rel, n.attr),
                    'reference to ast.%s, a class this interpreter never '
                    'instantiates' % n.attr, line=n.lineno)
  rep.unit('handlers typed', an.n_methods)
  return an


def check(model, rep, tier):
  rep.not_decided = ('that the leaf / finally-subgraph bookkeeping of '
                     'GraphBuilder yields every executable path for every '
                     'nesting (an algorithmic property)')
  rep.touch(CFG)
  rep.rule('CFG-ASDL', 'ASDL field types respected by every handler', floor=20)
  rep.rule('CFG-STMT', 'handler for every in-scope statement kind', floor=20)
  rep.rule('CFG-PAIR', 'enter/exit pairing on all paths', floor=7)
  rep.rule('CFG-TRY', 'try scope vs handlers / finally', floor=2)
  rep.rule('CFG-SCOPE', 'statement lists visited inside / outside the lexical '
           'scope window of their statement', floor=3)
  rep.rule('CFG-KEYED', 'builder state of nestable sections is keyed by the '
           'section', floor=4)
  rep.rule('CFG-JUMP', 'jump statements use the jump API with the right stops', floor=7)
  rep.rule('CFG-WIRE', 'jump nodes are recorded and wired through their guards', floor=5)
  rep.rule('CFG-MIRROR', 'edge mirroring', floor=4)
  rep.rule('CFG-LEAVES', 'leaf set discipline', floor=2)

  asdl_rule(model, rep, 'CFG-ASDL', [CFG])

  cls = model.cls(CFG, 'AstToCfg')
  # ---------------------------------------------------------------- CFG-STMT
  for k in asdl.STMT_KINDS:
    site = '%s:AstToCfg:stmt(%s)' % (CFG, k)
    if k in OUT_OF_SCOPE:
      rep.hold('CFG-STMT', site, {'out_of_scope': OUT_OF_SCOPE[k]}, nontrivial=False)
      continue
    rep.check(cls.find('visit_' + k) is not None, 'CFG-STMT', site,
              'no handler for %s statements: they fall to generic_visit, get no '
              'CFG node, and every analysis silently ignores their reads and '
              'writes' % k, witness='a function containing a %s statement' % k)
  for k in ('Lambda', 'ExceptHandler'):
    rep.check(cls.find('visit_' + k) is not None, 'CFG-STMT',
              '%s:AstToCfg:stmt(%s)' % (CFG, k), 'no handler for %s' % k)

  # ---------------------------------------------------------------- CFG-PAIR
  n_methods = 0
  for name, fi in cls.methods.items():
    calls = [c for c in ast.walk(fi.node) if isinstance(c, ast.Call) and
             isinstance(c.func, ast.Attribute) and
             (c.func.attr in PAIRS or c.func.attr in CLOSERS)]
    if not calls or name in PAIRS or name in CLOSERS:
      continue
    n_methods += 1
    g = pycfg.CFG(fi.node)
    problems = []
    for path in g.paths(limit=400, ends={g.exit}, max_visits=2):
      open_ = {}     # family -> stack of keys (each family is its own stack)
      for (ni, lab) in path:
        for c in sorted(pycfg.calls_at(g, ni), key=lambda c: (c.lineno, c.col_offset)):
          if not isinstance(c.func, ast.Attribute):
            continue
          nm = c.func.attr
          if nm in PAIRS and c.args:
            open_.setdefault(nm, []).append(core.norm(c.args[0]))
          elif nm in CLOSERS and c.args:
            st = open_.get(CLOSERS[nm], [])
            key = core.norm(c.args[0])
            if not st or st[-1] != key:
              problems.append('%s(%s) at line %d closes %s' % (
                  nm, key, c.lineno, st[-1] if st else 'nothing'))
            else:
              st.pop()
      left = {k: v for k, v in open_.items() if v}
      if left:
        problems.append('path ends with open %s' % (left,))
    problems = sorted(set(problems))[:4]
    rep.check(not problems, 'CFG-PAIR', '%s:pairing' % fi.site,
              'section / statement / scope bookkeeping is not balanced on some '
              'path: %s' % '; '.join(problems), {'problems': problems},
              line=fi.node.lineno,
              witness='statements after this construct are attributed to the '
              'wrong enclosing statement or loop')
  rep.unit('methods with bookkeeping', n_methods)

  # section keys: a handler may key a section by its own node or by a key that
  # is not a statement (another handler keys sections by *its* node)
  for name, fi in cls.methods.items():
    prm = fi.params()[0] if fi.params() else None
    for c in ast.walk(fi.node):
      if isinstance(c, ast.Call) and isinstance(c.func, ast.Attribute) and \
          c.func.attr in ('enter_cond_section', 'enter_section',
                          'enter_loop_section', 'enter_finally_section') and c.args:
        key = c.args[0]
        kx = tpl.expand(fi, key, c, depth=3)
        ok = core.norm(kx) == prm or isinstance(kx, (ast.Tuple, ast.Constant)) or \
            core.norm(kx) == '%s.handlers[0]' % prm
        rep.check(ok, 'CFG-PAIR', '%s:section-key(%s)' % (fi.site, c.func.attr),
                  'a section is keyed by a statement node other than the '
                  'handler\'s own (%s): the handler of that statement keys its '
                  'own section by the same node and the builder asserts' %
                  core.norm(kx), {'key': core.norm(kx)}, line=c.lineno,
                  witness='try: ... else: if c: ...  (AssertionError in '
                  'enter_cond_section)', nontrivial=core.norm(kx) != prm)

  # ---------------------------------------------------------------- CFG-TRY
  vt = cls.methods.get('visit_Try')
  if vt is None:
    raise core.AnalysisError('AstToCfg.visit_Try not found')
  g = pycfg.CFG(vt.node)

  def node_calling(pred):
    return [i for i in range(len(g.nodes)) if any(
        isinstance(c.func, ast.Attribute) and pred(c) for c in pycfg.calls_at(g, i))]

  ex = node_calling(lambda c: c.func.attr == '_exit_lexical_scope')
  fin = node_calling(lambda c: c.func.attr == 'enter_finally_section')
  hand = [i for i, (k, a) in enumerate(g.nodes) if k == 'test' and
          core.norm(a) == 'node.handlers' and isinstance(a, ast.Attribute)]
  hloops = [n for n in ast.walk(vt.node) if isinstance(n, ast.For) and
            core.norm(n.iter) == 'node.handlers']
  ok = len(ex) == 1 and len(fin) == 1
  if ok:
    dom = g.dominators(skip_labels=('exc',))
    ok = ex[0] in dom[fin[0]]
  rep.check(ok, 'CFG-TRY', '%s:scope-closed-before-finally-body' % vt.site,
            'the try statement must have left the lexical scope stack before '
            'its finally body is visited; otherwise a jump placed inside the '
            '`finally:` block is guarded by that same finally and wired back '
            'into it', line=vt.node.lineno,
            witness='break / continue / return inside a finally block')
  ok2 = len(ex) == 1 and len(hloops) == 1
  if ok2:
    hl = g.node_of(hloops[0].iter)
    ok2 = ex[0] in g.reachable(hl) and hl not in g.reachable(ex[0])
  rep.check(ok2, 'CFG-TRY', '%s:scope-open-during-handlers' % vt.site,
            'the try statement leaves the lexical scope stack before its '
            'handlers are visited: a return / break / continue inside an '
            'except clause is not routed through the finally block',
            line=vt.node.lineno,
            witness='try: raise E() / except E: return 1 / finally: x = 2 -- '
            'the executed step `return 1` -> `x = 2` is not an edge')

  # statements of one block run one after the other: the loop that visits a
  # statement list (body / orelse / finalbody) of any handler only visits;
  # alternatives (the handlers of a try) each open a branch of their own
  n_seq = 0
  for hname, h in sorted(cls.methods.items()):
    if not hname.startswith('visit_') or not h.params():
      continue
    p0 = h.params()[0]
    for lp in ast.walk(h.node):
      if not (isinstance(lp, ast.For) and isinstance(lp.iter, ast.Attribute) and
              core.norm(lp.iter.value) == p0):
        continue
      fld = lp.iter.attr
      calls = [core.norm(c.func) for st in lp.body for c in ast.walk(st)
               if isinstance(c, ast.Call)]
      visits = any(c == 'self.visit' for c in calls)
      if not visits:
        continue
      branch = [c for c in calls if c.startswith('self.builder.') and c.split('.')[-1] in (
          'new_cond_branch', 'enter_cond_section', 'exit_cond_section',
          'enter_section', 'exit_section')]
      if fld in ('body', 'orelse', 'finalbody'):
        n_seq += 1
        rep.check(not branch, 'CFG-TRY', '%s:%s:block-sequential(%s)' % (CFG, hname, fld),
                  'the statements of a block execute in sequence: the loop over '
                  '%s.%s must only visit them; opening a branch per statement '
                  'makes them alternatives and drops the edge from each to the '
                  'next' % (p0, fld), {'builder_calls_in_loop': branch}, line=lp.lineno,
                  witness='try/except/else with two statements in the else block')
      elif fld == 'handlers':
        n_seq += 1
        rep.check('self.builder.new_cond_branch' in calls, 'CFG-TRY',
                  '%s:%s:handlers-are-alternatives' % (CFG, hname),
                  'each except handler starts at the leaves of the try body: a '
                  'new branch per handler', {'builder_calls_in_loop': branch},
                  line=lp.lineno)
  rep.unit('statement-list loops in CFG handlers', n_seq)

  # ---------------------------------------------------------------- CFG-SCOPE
  # which statement lists are visited while the statement is on the lexical
  # scope stack (the stack decides which loop a break/continue leaves and which
  # finally blocks a jump runs through)
  def stmt_loops(h, field):
    p0 = h.params()[0]
    return [n for n in ast.walk(h.node) if isinstance(n, ast.For) and
            core.norm(n.iter) == '%s.%s' % (p0, field)]

  def before(gg, a, b):
    return b in gg.reachable(a) and a not in gg.reachable(b)

  for hname, inside, outside, why, wit in (
      ('visit_While', ['body'], ['orelse'],
       'a break/continue in the else clause of a loop belongs to the enclosing '
       'loop: the loop must have left the lexical scope stack before its orelse '
       'is visited, and still be on it while its body is visited',
       'for a in x:\n  for b in y: ...\n  else: break   # leaves the outer loop'),
      ('visit_For', ['body'], ['orelse'], None, None),
      ('visit_Try', ['body', 'orelse'], ['finalbody'],
       'jumps in the body and in the else clause of a try run through its '
       'finally block: both must be visited while the try is on the lexical '
       'scope stack; the finally body itself after it has left',
       'try: ... / else: return 1 / finally: x = 2')):
    h = cls.methods.get(hname)
    if h is None:
      raise core.AnalysisError('AstToCfg.%s not found' % hname)
    if why is None:
      why, wit = prev
    prev = (why, wit)
    gg = pycfg.CFG(h.node)
    ent = [i for i in range(len(gg.nodes)) if any(
        isinstance(c.func, ast.Attribute) and c.func.attr == '_enter_lexical_scope'
        for c in pycfg.calls_at(gg, i))]
    exi = [i for i in range(len(gg.nodes)) if any(
        isinstance(c.func, ast.Attribute) and c.func.attr == '_exit_lexical_scope'
        for c in pycfg.calls_at(gg, i))]
    ok = len(ent) == 1 and len(exi) == 1
    facts = {}
    if ok:
      for f in inside:
        ls = [gg.node_of(l.iter) for l in stmt_loops(h, f)]
        facts[f] = 'inside'
        if not ls or not all(before(gg, ent[0], l) and before(gg, l, exi[0]) for l in ls):
          ok = False
          facts[f] = 'NOT inside the scope window'
      for f in outside:
        ls = [gg.node_of(l.iter) for l in stmt_loops(h, f)]
        facts[f] = 'after the scope is left'
        if not ls or not all(before(gg, exi[0], l) for l in ls):
          ok = False
          facts[f] = 'NOT after the scope exit'
    rep.check(ok, 'CFG-SCOPE', '%s:scope-window' % h.site, why, facts,
              line=h.node.lineno, witness=wit)

  # ---------------------------------------------------------------- CFG-KEYED
  # sections nest (a try inside a finally body, a loop inside a branch): state a
  # section method keeps between enter and exit must live in a table keyed by
  # the section; the only shared scalar is the cursor `leaves`
  CURSOR = {'leaves': 'the builder cursor (nodes the next node attaches to); '
            'sections save and restore it through keyed tables'}
  gb = model.cls(CFG, 'GraphBuilder')
  for mname, mfi in sorted(gb.methods.items()):
    ps = mfi.params()
    if not ps or mname.startswith('_') or mname in ('reset', 'build'):
      continue
    key = ps[0]
    uses_key = False
    scalar = []
    for n in core.walk_no_nested(mfi.node):
      if isinstance(n, ast.Subscript) and isinstance(n.slice, ast.Name) and \
          n.slice.id == key and core.norm(n.value).startswith('self.'):
        uses_key = True
      if isinstance(n, ast.Call) and isinstance(n.func, ast.Attribute) and \
          n.func.attr in ('add', 'remove', 'discard') and n.args and \
          isinstance(n.args[0], ast.Name) and n.args[0].id == key:
        uses_key = True
      tg = []
      if isinstance(n, ast.Assign):
        tg = n.targets
      elif isinstance(n, ast.AugAssign):
        tg = [n.target]
      for t in tg:
        if isinstance(t, ast.Attribute) and isinstance(t.value, ast.Name) and \
            t.value.id == 'self':
          scalar.append(t.attr)
    if not uses_key:
      continue
    bad = sorted(set(a for a in scalar if a not in CURSOR))
    rep.check(not bad, 'CFG-KEYED', '%s:per-section-state' % mfi.site,
              'a section method stores per-section state in a plain attribute: '
              'a nested section of the same kind overwrites it before the outer '
              'section reads it back', {'scalar_attributes_written': bad,
                                        'cursor': sorted(set(scalar) & set(CURSOR))},
              line=mfi.node.lineno,
              witness='try: ... finally: (try: return 1 finally: pass) -- the '
              'statement after the outer try loses its predecessor')

  # ---------------------------------------------------------------- CFG-WIRE
  # jump nodes are recorded, then wired through their guards, by the builder
  class _Body:          # a loop body as a function-like object for pycfg
    def __init__(self, body):
      self.body = body

  def every_path(stmts, pred):
    """pred(call_or_stmt) happens at least once on every path through stmts
    (continue / break end the iteration)."""
    bg = pycfg.CFG(_Body(stmts))
    w = {}
    for i, (k, a) in enumerate(bg.nodes):
      if a is None:
        continue
      if any(pred(x) for e in bg.exprs_of(i) for x in ast.walk(e)):
        w[i] = 1
    rng = bg.count_range(w)
    return rng is not None and rng[0] >= 1

  gbm = gb.methods
  # W1: every explicit raise is recorded for every handler that guards it
  crn = gbm.get('connect_raise_node')
  if crn is None:
    raise core.AnalysisError('GraphBuilder.connect_raise_node not found')
  npar = crn.params()[0]
  loops = [l for l in core.walk_no_nested(crn.node) if isinstance(l, ast.For)]
  ok = len(loops) == 1

  def stores_node(x):
    if isinstance(x, ast.Call) and isinstance(x.func, ast.Attribute) and \
        x.func.attr in ('append', 'add') and len(x.args) == 1 and \
        core.norm(x.args[0]) == npar and 'self.raises' in core.norm(x.func.value):
      return True
    if isinstance(x, ast.Assign) and any('self.raises[' in core.norm(t) for t in x.targets) \
        and isinstance(x.value, (ast.List, ast.Set, ast.Tuple)) and any(
            core.norm(e) == npar for e in x.value.elts):
      return True
    return False
  if ok:
    ok = every_path(loops[0].body, stores_node)
  rep.check(ok, 'CFG-WIRE', '%s:every-raise-recorded' % crn.site,
            'each explicit raise must be added to the raise list of every handler '
            'section that guards it (also when the list already exists): the '
            'handler entry is wired to all of them',
            line=crn.node.lineno,
            witness='try: if a: raise E(1) / if b: raise E(2) / except E: ... -- the '
            'second raise has no edge to the handler')

  # W2: a jump leaves through the *ends of its guards*
  for mname, coll in (('exit_section', 'exits'), ('exit_loop_section', 'continues')):
    mfi = gbm.get(mname)
    if mfi is None:
      raise core.AnalysisError('GraphBuilder.%s not found' % mname)
    lps = [l for l in core.walk_no_nested(mfi.node) if isinstance(l, ast.For) and
           tpl.xnorm(mfi, l.iter, l.iter).startswith('self.%s[' % coll) and isinstance(
               l.target, ast.Name)]
    ok = len(lps) == 1
    facts = {}
    if ok:
      lp = lps[0]
      j = lp.target.id
      calls = [c for c in ast.walk(lp) if isinstance(c, ast.Call) and core.norm(c.func) ==
               'self._connect_jump_to_finally_sections' and len(c.args) == 1 and
               core.norm(c.args[0]) == j]
      ok = len(calls) == 1
      if ok:
        # the result is what flows on: into leaves, or as source of _connect_nodes
        res_names = {t.id for a in ast.walk(lp) if isinstance(a, ast.Assign) and
                     a.value is calls[0] for t in a.targets if isinstance(t, ast.Name)}

        def is_res(e):
          return e is calls[0] or (isinstance(e, ast.Name) and e.id in res_names)
        used = False
        for x in ast.walk(lp):
          if isinstance(x, ast.AugAssign) and core.norm(x.target) == 'self.leaves' and is_res(x.value):
            used = True
          if isinstance(x, ast.Call) and core.norm(x.func) == 'self._connect_nodes' and \
              x.args and is_res(x.args[0]):
            used = True
          if isinstance(x, ast.Call) and core.norm(x.func) in (
              'self.leaves.update', 'self.leaves.add') and x.args and is_res(x.args[0]):
            used = True
        raw = [core.norm(x)[:50] for x in ast.walk(lp) if isinstance(x, ast.Call) and
               core.norm(x.func) == 'self._connect_nodes' and x.args and
               core.norm(x.args[0]) == j]
        raw += [core.norm(x)[:50] for x in ast.walk(lp) if isinstance(x, ast.AugAssign) and
                core.norm(x.target) == 'self.leaves' and j in core.norm(x.value) and
                not is_res(x.value)]
        facts = {'guard_ends_used': used, 'jump_wired_directly': raw}
        ok = used and not raw
    rep.check(ok, 'CFG-WIRE', '%s:jumps-leave-through-guard-ends' % mfi.site,
              'a jump protected by finally blocks continues from the *ends of the '
              'last guard* (the value returned by _connect_jump_to_finally_sections), '
              'never from the jump node itself', facts, line=mfi.node.lineno,
              witness='for ..: try: continue / finally: x = 1 -- the edge finally-end '
              '-> loop header')

  # W3: every guard of a jump is traversed, and guard subgraphs live until reset
  cj = gbm.get('_connect_jump_to_finally_sections')
  if cj is None:
    raise core.AnalysisError('GraphBuilder._connect_jump_to_finally_sections not found')
  lps = [l for l in core.walk_no_nested(cj.node) if isinstance(l, ast.For) and
         'self.finally_sections[' in core.norm(l.iter)]
  ok = len(lps) == 1
  if ok:
    ok = every_path(lps[0].body, lambda x: isinstance(x, ast.Call) and core.norm(
        x.func) == 'self._connect_nodes') and not any(
            isinstance(x, (ast.Continue, ast.Break)) for x in ast.walk(lps[0]))
  rep.check(ok, 'CFG-WIRE', '%s:every-guard-traversed' % cj.site,
            'the jump must be connected through every finally section that '
            'guards it, unconditionally', line=cj.node.lineno,
            witness='a break and a return guarded by the same finally block')
  removers = []
  for mname, mfi in gbm.items():
    if mname in ('reset', '__init__'):
      continue
    for x in core.walk_no_nested(mfi.node):
      if isinstance(x, ast.Delete) and any('self.finally_section_subgraphs' in core.norm(t)
                                           for t in x.targets):
        removers.append('%s: %s' % (mname, core.norm(x)))
      if isinstance(x, ast.Call) and isinstance(x.func, ast.Attribute) and x.func.attr in (
          'pop', 'clear', 'popitem') and 'self.finally_section_subgraphs' in core.norm(x.func.value):
        removers.append('%s: %s' % (mname, core.norm(x)[:60]))
  rep.check(not removers, 'CFG-WIRE', '%s:GraphBuilder:guard-subgraphs-kept' % CFG,
            'the subgraph of a finally section must stay available until the graph '
            'is built: jumps with different targets (a break and a return) that '
            'share a guard are wired at different times', {'removed_by': removers},
            witness='for ..: try: (if a: break) (if b: return x) / finally: f()')

  # ---------------------------------------------------------------- CFG-JUMP
  def handler_call(hname):
    h = cls.methods.get(hname)
    if h is None:
      return None, None
    cs = [c for c in ast.walk(h.node) if isinstance(c, ast.Call) and
          isinstance(c.func, ast.Attribute) and c.func.attr in (
              '_process_exit_statement', '_process_continue_statement')]
    return h, cs

  def kinds_of(e):
    out = set()
    for n in ast.walk(e):
      if isinstance(n, ast.Attribute) and isinstance(n.value, ast.Name) and \
          n.value.id == 'ast':
        out.add(n.attr)
    return out

  for hname, api, stops, via_except in (
      ('visit_Return', '_process_exit_statement', {'FunctionDef'}, False),
      ('visit_Break', '_process_exit_statement', {'While', 'For'}, False),
      ('visit_Raise', '_process_exit_statement', {'FunctionDef'}, True),
      ('visit_Continue', '_process_continue_statement', {'While', 'For'}, False)):
    h, cs = handler_call(hname)
    ok = h is not None and len(cs) == 1 and cs[0].func.attr == api
    facts = {}
    if ok:
      c = cs[0]
      stop = set()
      for a in c.args[1:]:
        stop |= kinds_of(tpl.expand(h, a, c))       # through a local that names it
      facts = {'stops_at': sorted(stop)}
      # (whether a raise also reaches the handlers is decided by exit-node-wiring)
      ok = stop == stops and core.norm(c.args[0]) == h.params()[0]
    rep.check(ok, 'CFG-JUMP', '%s:%s' % (CFG, hname),
              '%s must go through %s with the enclosing %s as the section it '
              'leaves' % (hname[6:], api, '/'.join(sorted(stops))), facts,
              line=h.node.lineno if h else None,
              witness='%s nested in try/finally inside a loop' % hname[6:].lower())
  vr = cls.methods.get('visit_Raise')
  rep.check(vr is not None and 'self.builder.errors.add(node)' in core.norm(vr.node),
            'CFG-JUMP', '%s:visit_Raise:error-node' % CFG,
            'raise nodes must be recorded as error exits', line=vr.node.lineno
            if vr else None)
  vl = cls.methods.get('visit_Lambda')
  if vl is None:
    raise core.AnalysisError('AstToCfg.visit_Lambda not found')
  lp = vl.params()[0]
  ok = any(
      isinstance(c, ast.Call) and core.norm(c.func) == 'self._process_exit_statement'
      and core.norm(c.args[0]) == lp + '.body' and kinds_of(c.args[1]) == {'Lambda'}
      for c in ast.walk(vl.view(keep=('_process_exit_statement',))))
  rep.check(ok, 'CFG-JUMP', '%s:lambda-body-is-exit' % CFG,
            'a lambda body is the exit of its own graph (visit_Lambda, private '
            'helpers expanded)', line=vl.node.lineno)
  pes = cls.methods.get('_process_exit_statement')
  if pes is None:
    raise core.AnalysisError('AstToCfg._process_exit_statement not found')
  # the wiring of each exit handler, with _process_exit_statement expanded into
  # it (whether the raise-specific part sits in the helper behind a flag or in
  # visit_Raise itself is immaterial)
  wiring_bad = []
  for hname, raises in (('visit_Return', False), ('visit_Break', False),
                        ('visit_Raise', True)):
    h = cls.methods.get(hname)
    if h is None:
      wiring_bad.append(hname + ': missing')
      continue
    hv = core.FuncInfo(h.module, h.view(only=('_process_exit_statement',)), cls=h.cls)
    hp = h.params()[0]
    fins = [a_ for a_ in ast.walk(hv.node) if isinstance(a_, ast.Assign) and isinstance(
        a_.value, ast.Call) and core.norm(a_.value.func) ==
            'self._get_enclosing_finally_scopes' and isinstance(a_.targets[0], ast.Tuple)
            and len(a_.targets[0].elts) == 2]
    adds = [a_ for a_ in ast.walk(hv.node) if isinstance(a_, ast.Call) and core.norm(
        a_.func) == 'self.builder.add_exit_node']
    okh = len(fins) == 1 and len(adds) == 1 and len(adds[0].args) == 3
    if okh:
      t_, g_ = [core.norm(x) for x in fins[0].targets[0].elts]
      okh = tpl.xnorm(hv, adds[0].args[0], adds[0]) == hp and \
          core.norm(adds[0].args[1]) == t_ and core.norm(adds[0].args[2]) == g_
    exc = [a_ for a_ in ast.walk(hv.node) if isinstance(a_, ast.Call) and core.norm(
        a_.func) == 'self._get_enclosing_except_scopes']
    con = [a_ for a_ in ast.walk(hv.node) if isinstance(a_, ast.Call) and core.norm(
        a_.func) == 'self.builder.connect_raise_node']
    if okh and raises:
      okh = len(exc) == 1 and len(con) == 1 and len(con[0].args) == 2
      if okh:
        # the node connected is the one add_exit_node returned; the guards are
        # the enclosing handlers searched with the same stop kinds
        node_asg = [a_ for a_ in ast.walk(hv.node) if isinstance(a_, ast.Assign)
                    and a_.value is adds[0]]
        okh = bool(node_asg) and core.norm(con[0].args[0]) == core.norm(
            node_asg[0].targets[0]) and tpl.xnorm(hv, con[0].args[1], con[0]) == \
            tpl.xnorm(hv, exc[0], exc[0]) and kinds_of(
                tpl.expand(hv, exc[0].args[0], exc[0])) == kinds_of(
                    tpl.expand(hv, fins[0].value.args[0], fins[0]))
    elif okh:
      okh = not con
    if not okh:
      wiring_bad.append(hname)
  rep.check(not wiring_bad, 'CFG-JUMP', '%s:exit-node-wiring' % pes.site,
            'exit statements must be added with the enclosing finally guards; '
            'raises additionally with the enclosing handlers',
            {'handlers_not_wired': wiring_bad}, line=pes.node.lineno)
  def scan(f, depth=0):
    """Summary of a function that scans a sequence once: source text, guards of
    the early exits, guards of the collecting appends -- all phrased on one
    element variable `N`.  A scan over the (unfiltered) result of another scan
    of this class is composed with it: the two-step form (walk, then filter) and
    the one-loop form have the same summary."""
    loops = [n for n in ast.walk(f.node) if isinstance(n, (ast.For, ast.ListComp,
                                                           ast.GeneratorExp))]
    if len(loops) != 1:
      return None
    lp = loops[0]
    if isinstance(lp, ast.For):
      tgt, src, body = lp.target, lp.iter, lp
    else:
      if len(lp.generators) != 1:
        return None
      tgt, src, body = lp.generators[0].target, lp.generators[0].iter, None
    if not isinstance(tgt, ast.Name):
      return None
    lv = tgt.id

    class Ren(ast.NodeTransformer):
      def __init__(self, m):
        self.m = m

      def visit_Name(self, n):
        return ast.Name(id=self.m.get(n.id, n.id), ctx=n.ctx)

    def txt(e, m):
      return core.norm(Ren(m).visit(ast.parse(core.norm(e), mode='eval').body))
    ren = {lv: 'N'}
    exits, collects = [], []
    if body is not None:
      for x in ast.walk(lp):
        if isinstance(x, (ast.Break, ast.Return, ast.Continue)):
          gd = None
          for i in ast.walk(lp):
            if isinstance(i, ast.If) and any(y is x for b in i.body for y in ast.walk(b)):
              gd = txt(i.test, ren)
          exits.append(gd)
        if isinstance(x, ast.Call) and isinstance(x.func, ast.Attribute) and \
            x.func.attr in ('append', 'extend') and isinstance(x.func.value, ast.Name):
          gd = None
          for i in ast.walk(lp):
            if isinstance(i, ast.If) and any(y is x for b in i.body for y in ast.walk(b)):
              gd = txt(i.test, ren)
          collects.append((gd, x.func.attr, txt(x.args[0], ren) if x.args else None))
        if isinstance(x, ast.AugAssign) and isinstance(x.op, ast.Add) and isinstance(
            x.target, ast.Name):
          # L += items  is  L.extend(items)
          gd = None
          for i in ast.walk(lp):
            if isinstance(i, ast.If) and any(y is x for b in i.body for y in ast.walk(b)):
              gd = txt(i.test, ren)
          collects.append((gd, 'extend', txt(x.value, ren)))
    else:
      g = lp.generators[0]
      gd = None
      if g.ifs:
        t = g.ifs[0] if len(g.ifs) == 1 else ast.BoolOp(op=ast.And(), values=list(g.ifs))
        gd = txt(t, ren)
      collects.append((gd, 'append', txt(lp.elt, ren)))
    out = {'src': core.norm(src), 'exits': exits, 'collects': collects}
    # the source is the result of another scan of this class
    if isinstance(src, ast.Name) and depth < 2:
      for a in ast.walk(f.node):
        if isinstance(a, ast.Assign) and isinstance(a.value, ast.Call) and \
            isinstance(a.value.func, ast.Attribute) and core.norm(
                a.value.func.value) == 'self' and a.value.func.attr in cls.methods and any(
                    isinstance(t_, ast.Name) and t_.id == src.id
                    for t0 in a.targets for t_ in ast.walk(t0)):
          h = cls.methods[a.value.func.attr]
          inner = scan(h, depth + 1)
          if inner is None or inner['collects'] != [(None, 'append', 'N')]:
            return None
          # parameters of the inner scan -> arguments at the call
          m = dict(zip(h.params(), [core.norm(x) for x in a.value.args]))
          sub = lambda t: None if t is None else txt(ast.parse(t, mode='eval').body, m)
          out['src'] = sub(inner['src'])
          out['exits'] = [sub(e_) for e_ in inner['exits']] + exits
          out['via'] = h.name
    return out

  for fname, early in (('_get_enclosing_finally_scopes', 'return'),
                       ('_get_enclosing_except_scopes', 'break')):
    f = cls.methods.get(fname)
    sm = scan(f)
    ok = sm is not None and sm['src'] == 'reversed(self.lexical_scopes)'
    facts = {}
    if ok:
      stop_p = f.params()[0]
      facts = {'early_exits': sm['exits'], 'via': sm.get('via')}
      ok = sm['exits'] == ['isinstance(N, %s)' % stop_p]
      # collection is unconditional apart from the Try test
      cg = [c[0] for c in sm['collects']]
      facts['collect_guards'] = cg
      want = {'_get_enclosing_finally_scopes': ['isinstance(N, ast.Try) and N.finalbody'],
              '_get_enclosing_except_scopes': ['isinstance(N, ast.Try) and N.handlers']}[fname]
      ok = ok and cg == want
    rep.check(ok, 'CFG-JUMP', '%s:collects-all-enclosing' % f.site,
              'guards must be collected from *every* enclosing try up to the '
              'statement the jump leaves; the walk may stop only there', facts,
              line=f.node.lineno,
              witness='nested tries: raise KeyboardInterrupt() under an inner '
              '`except Exception` and an outer bare except')

  mirror_rule(model, rep, 'CFG-MIRROR')
  gb = model.cls(CFG, 'GraphBuilder')

  # ---------------------------------------------------------------- CFG-LEAVES
  shr = []
  for name, fi in gb.methods.items():
    for n in ast.walk(fi.node):
      if isinstance(n, ast.Call) and isinstance(n.func, ast.Attribute) and \
          core.norm(n.func.value) == 'self.leaves' and n.func.attr in (
              'clear', 'remove', 'discard', 'pop', 'difference_update',
              'intersection_update', 'symmetric_difference_update'):
        shr.append('%s: %s' % (name, core.norm(n)))
      if isinstance(n, ast.AugAssign) and core.norm(n.target) == 'self.leaves' and \
          not isinstance(n.op, ast.BitOr):
        shr.append('%s: %s' % (name, core.norm(n)))
  rep.check(not shr, 'CFG-LEAVES', '%s:GraphBuilder:never-shrunk-in-place' % CFG,
            'self.leaves is shrunk in place; exit_finally_section keeps a '
            'reference to that very set as the end of the finally subgraph, so '
            'jumps wired later lose the edges out of the finally body',
            {'sites': shr},
            witness='loop body ending in try/finally whose try has a break '
            'under an if')
  # both kinds of jump node (exit, continue), with the private helper they may
  # share expanded into them
  for ename in ('add_exit_node', 'add_continue_node'):
    e = gb.methods.get(ename)
    if e is None:
      raise core.AnalysisError('GraphBuilder.%s not found' % ename)
    ev_ = e.view(only=('_add_jump_node',))
    eps = e.params()
    ast_p, guards_p = eps[0], eps[-1]
    n1, b1 = pat.first(ev_, '_N_ = self._add_new_node(%s)' % ast_p)
    ok = b1 is not None and pat.has(ev_, 'self.leaves = set()') and pat.has(
        ev_, 'self.finally_sections[_N_] = %s' % guards_p, b1)
    rep.check(ok, 'CFG-LEAVES', '%s:jump-empties-leaves' % e.site,
              'a jump node must empty the leaf set (nothing follows it lexically) '
              'and remember its finally guards', line=e.node.lineno)


def mirror_rule(model, rep, rule):
  # ---------------------------------------------------------------- CFG-MIRROR
  gb = model.cls(CFG, 'GraphBuilder')
  cn = gb.methods.get('_connect_nodes')
  if cn is None:
    raise core.AnalysisError('GraphBuilder._connect_nodes not found')
  blocks = []
  ps = cn.params()
  if len(ps) < 2:
    raise core.AnalysisError('GraphBuilder._connect_nodes: parameters changed')
  dst = ps[-1]

  def find_block(stmts):
    # the block that adds `dst` to some source's successor set: X.next.add(dst)
    for s in stmts:
      b = pat.match('_X_.next.add(%s)' % dst, s)
      if b is not None and b.get('_X_', '').isidentifier():
        blocks.append((b['_X_'], [core.norm(t) for t in stmts]))
    for s in stmts:
      for f in ('body', 'orelse', 'finalbody'):
        b = getattr(s, f, None)
        if isinstance(b, list):
          find_block(b)

  find_block(cn.node.body)
  ok = len(blocks) == 1
  if ok:
    src, texts = blocks[0]
    ok = '%s.prev.add(%s)' % (dst, src) in texts and \
        'self.forward_edges.add((%s, %s))' % (src, dst) in texts
    blocks = [texts]
  rep.check(ok, rule, '%s:three-updates-together' % cn.site,
            'next, prev and forward_edges must be updated together for every '
            'edge: statement-level successor sets are computed from '
            'forward_edges, so an edge missing there disappears from '
            'stmt_next/stmt_prev while the node graph still has it',
            {'block': blocks[0] if blocks else None}, line=cn.node.lineno,
            witness='an if/else ending a loop body: live-out of the if misses '
            'the loop header')
  # the primitive reads its arguments: the sets of nodes it is given are the
  # builder's own (leaves, exits of a finally section) and are used again
  aliases = set(ps)
  changed = True
  while changed:
    changed = False
    for a_ in ast.walk(cn.node):
      if isinstance(a_, ast.Assign) and len(a_.targets) == 1 and isinstance(
          a_.targets[0], ast.Name) and a_.targets[0].id not in aliases:
        arms = [a_.value]
        while any(isinstance(x, (ast.IfExp, ast.BoolOp)) for x in arms):
          arms = [y for x in arms for y in (
              (x.body, x.orelse) if isinstance(x, ast.IfExp) else
              (x.values if isinstance(x, ast.BoolOp) else (x,)))]
        if any(isinstance(x, ast.Name) and x.id in aliases for x in arms):
          aliases.add(a_.targets[0].id)
          changed = True
  consumed = [core.norm(c_) for c_ in ast.walk(cn.node) if isinstance(c_, ast.Call) and
              isinstance(c_.func, ast.Attribute) and isinstance(c_.func.value, ast.Name) and
              c_.func.value.id in aliases and c_.func.attr in (
                  'pop', 'remove', 'discard', 'clear', 'add', 'update', 'difference_update',
                  'intersection_update', 'popleft', 'append', 'extend')]
  consumed += [core.norm(a_) for a_ in ast.walk(cn.node) if isinstance(a_, ast.AugAssign)
               and isinstance(a_.target, ast.Name) and a_.target.id in aliases]
  rep.check(not consumed, rule, '%s:arguments-not-consumed' % cn.site,
            'the edge primitive changes a collection it was handed (or an alias of '
            'it): the leaves / the exits of a finally section are connected more '
            'than once and must survive', {'mutations': consumed}, line=cn.node.lineno,
            witness='try/finally as last statement of a loop body with a break inside')
  writers = []
  for m in model.modules.values():
    for fi in m.all_functions():
      for n in core.walk_no_nested(fi.node):
        t = None
        if isinstance(n, ast.Call) and isinstance(n.func, ast.Attribute) and \
            n.func.attr in ('add', 'update', 'remove', 'discard', 'clear') and \
            isinstance(n.func.value, ast.Attribute) and \
            n.func.value.attr in ('next', 'prev', 'forward_edges'):
          t = core.norm(n.func.value)
        if isinstance(n, ast.Assign):
          for tg in n.targets:
            if isinstance(tg, ast.Attribute) and tg.attr in (
                'next', 'prev', 'forward_edges') and m.rel == CFG:
              t = core.norm(tg)
        if t and m.rel == CFG:
          writers.append((fi.qualname, t))
  allowed = {'GraphBuilder._connect_nodes', 'Node.__init__', 'Node.freeze',
             'GraphBuilder.reset'}
  bad = sorted({w for w in writers if w[0] not in allowed})
  rep.check(not bad, rule, '%s:only-the-primitive-writes-edges' % CFG,
            'edges are written outside _connect_nodes / freeze',
            {'writers': bad})
  bld = gb.methods.get('build')
  ok = False
  for lp in [n for n in ast.walk(bld.node) if isinstance(n, ast.For) and
             core.norm(n.iter) == 'self.forward_edges' and isinstance(n.target, ast.Tuple)
             and len(n.target.elts) == 2]:
    a, b = [core.norm(e) for e in lp.target.elts]
    okx = oky = False
    for l in ast.walk(lp):
      if not (isinstance(l, ast.For) and l is not lp and isinstance(l.target, ast.Name)):
        continue
      it = tpl.xnorm(bld, l.iter, l.iter)      # locals that name the operands resolved
      if it == 'self.owners[%s] - self.owners[%s]' % (a, b) and pat.has(
          l, '_NX_[%s].add(%s)' % (l.target.id, b)):
        okx = True
      if it == 'self.owners[%s] - self.owners[%s]' % (b, a) and pat.has(
          l, '_PV_[%s].add(%s)' % (l.target.id, a)):
        oky = True
    ok = ok or (okx and oky)
  rep.check(ok, rule, '%s:statement-edges-from-forward-edges' % bld.site,
            'stmt_next / stmt_prev must be exactly the forward edges that leave '
            '/ enter a statement\'s owned nodes', line=bld.node.lineno)
  # every statement that owns a node has an entry in both tables, also when no
  # edge touches its nodes: the entries are created in a pass over *all* nodes
  # (or all owner sets), not over the edges
  def table_of(kwname):
    for c in ast.walk(bld.node):
      if isinstance(c, ast.Call) and core.dotted(c.func) == 'Graph':
        for k in c.keywords:
          if k.arg == kwname:
            v = tpl.expand(bld, k.value, c, depth=1)
            if isinstance(v, ast.DictComp) and len(v.generators) == 1:
              it = v.generators[0].iter
              if isinstance(it, ast.Call) and isinstance(it.func, ast.Attribute) and \
                  it.func.attr == 'items':
                return core.norm(it.func.value)
              return core.norm(it)
            return core.norm(k.value)
    return None
  tables = [table_of('stmt_prev'), table_of('stmt_next')]
  seeded = {t: False for t in tables if t}
  for lp in [n for n in ast.walk(bld.node) if isinstance(n, ast.For)]:
    it = core.norm(lp.iter)
    if it not in ('self.node_index.values()', 'self.owners.values()', 'self.owners',
                  'self.owners.items()', 'self.node_index.items()'):
      continue
    if any(isinstance(x, (ast.Break, ast.Continue, ast.Return)) for x in ast.walk(lp)):
      continue
    for l in ast.walk(lp):
      if not (isinstance(l, ast.For) and l is not lp and isinstance(l.target, ast.Name)):
        continue
      sv = l.target.id
      fake_l = ast.fix_missing_locations(ast.FunctionDef(
          name='_per_statement', args=ast.arguments(
              posonlyargs=[], args=[], kwonlyargs=[], kw_defaults=[], defaults=[]),
          body=l.body, decorator_list=[], lineno=l.lineno, col_offset=0))
      for t in seeded:
        if pat.has(l, '%s.setdefault(%s, _V_)' % (t, sv)):
          seeded[t] = True
        for st in ast.walk(l):
          # an entry is created unless one exists already (both tables have the
          # same keys, so either may be asked)
          if isinstance(st, ast.Assign) and core.norm(st.targets[0]) == '%s[%s]' % (t, sv):
            pc = formula.path_condition(fake_l, st)
            if all(pol == 'T' and core.norm(tst) in [
                '%s not in %s' % (sv, t2) for t2 in seeded] for pol, tst in pc):
              seeded[t] = True
  for t in list(seeded):
    # ... or the table creates entries on access
    for a_ in ast.walk(bld.node):
      if isinstance(a_, ast.Assign) and core.norm(a_.targets[0]) == t and isinstance(
          a_.value, ast.Call) and core.dotted(a_.value.func) in (
              'collections.defaultdict', 'defaultdict'):
        seeded[t] = None      # entries appear only when touched: not for isolated statements
  rep.check(len(seeded) == 2 and all(v is True for v in seeded.values()), rule,
            '%s:entry-for-every-owning-statement' % bld.site,
            'stmt_prev / stmt_next must have an (empty) entry for every statement '
            'that owns a node, whether or not an edge touches it: consumers index '
            'the tables by statement', {'tables': tables, 'seeded': {
                k: str(v) for k, v in seeded.items()}}, line=bld.node.lineno,
            witness='try: return t[k] / except KeyError: return None -- the handler '
            'has no predecessor edge')
  fz = model.func(CFG, 'Node.freeze')
  ok = 'self.next = frozenset(self.next)' in core.norm(fz.node)
  rep.check(ok, rule, '%s:freeze-keeps-all' % fz.site,
            'freezing must keep every successor', line=fz.node.lineno)

