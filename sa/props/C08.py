"""C08 — scope (activity) analysis matches Python's binding rules (mechanism).

 BIND-EXH    every binding construct of the grammar has a handler that records
             the binding in the right Scope sets on every path
 CTX-TABLE   _track_symbol: Store -> modified+bound (+read under AugAssign),
             Load -> read, Del -> deleted+bound+read, anything else raises
 PARAMS      all five parameter kinds visited inside the function scope; both
             default lists visited in the defining scope, before the
             annotations-only pass
 FINALIZE    non-isolated scopes export read/modified/bound minus isolated
             names plus globals/nonlocals; isolated ones export exactly their
             free names (read minus locally bound, nonlocal-declared included);
             free_vars uses the same formula; copy_from / merge_from agree
 SC-ASDL     field types in activity.py and qual_names.py
 ACT-TRAV    every handler of ActivityAnalyzer / QnResolver visits every field
             that can hold a symbol on every path
 ACT-ORDER   comprehension iterable visited before its target is registered
"""
import ast

from sa import asdl
from sa import core
from sa import tpl
from sa import pat
from sa import pycfg
from sa import rules_qn
from sa import rules_trav
from sa import setalg
from sa.formula import atom, implies, equivalent, TRUE
from sa.props import C05 as _c05

ACT = 'malt/pyct/static_analysis/activity.py'
QN = 'malt/pyct/qual_names.py'

# (handler, sets that must receive the name on every path where it applies)
BINDERS = [
    ('visit_FunctionDef', ['modified', 'bound'], 'def name'),
    ('visit_ClassDef', ['modified', 'bound'], 'class name'),
    ('visit_alias', ['modified', 'bound'], 'import ... [as name]'),
    ('visit_Global', ['globals'], 'global declaration'),
    ('visit_Nonlocal', ['nonlocals', 'bound'], 'nonlocal declaration'),
]
SYMBOL_NODES = ['Name', 'Attribute', 'Subscript']


def _adds(fn, setname):
  out = []
  for c in ast.walk(fn):
    if isinstance(c, ast.Call) and core.norm(c.func) == 'self.scope.%s.add' % setname:
      out.append(c)
  return out


TRAV_EXCEPTIONS = {
    ('FunctionDef', 'type_params'): 'PEP 695 type parameters: outside the '
    'supported subset (no converter or analysis handles them)',
}


def analysis_traversal(model, rep, rule='ACT-TRAV', order_rule='ACT-ORDER'):
  rules_trav.analysis_trav(model, rep, rule, ACT, 'ActivityAnalyzer', TRAV_EXCEPTIONS)
  rules_trav.analysis_trav(model, rep, rule, QN, 'QnResolver', TRAV_EXCEPTIONS)
  rules_trav.visit_order(
      model, rep, order_rule, ACT, 'ActivityAnalyzer', 'visit_comprehension',
      'iter', 'target',
      'the iterable of a comprehension clause is evaluated in the enclosing '
      'scope: it must be visited before the clause target is registered, or a '
      'read of an outer variable of the same name (`[.. for x in x]`) is dropped')


SCOPE_SETS = ('read', 'modified', 'bound', 'deleted', 'globals', 'nonlocals', 'annotations',
              'params', 'isolated_names')


def scope_grows(model, rep, rule):
  """What one statement recorded in a scope must not be taken back by a later
  one: hiding a name from the *parent* is done by finalize (isolated_names are
  subtracted on the way up), never by removing it from a set -- a removal also
  drops what other statements of the block had recorded under that name."""
  m = model.module(ACT)
  shrink_calls = ('discard', 'remove', 'pop', 'clear', 'difference_update',
                  'intersection_update', 'symmetric_difference_update')
  bad = []
  n = 0
  for fi in m.all_functions():
    for x in core.walk_no_nested(fi.node):
      recv = None
      if isinstance(x, ast.Call) and isinstance(x.func, ast.Attribute) and \
          x.func.attr in shrink_calls:
        recv = x.func.value
      elif isinstance(x, ast.AugAssign) and isinstance(x.op, (ast.Sub, ast.BitAnd,
                                                               ast.BitXor)):
        recv = x.target
      elif isinstance(x, ast.Delete):
        for t in x.targets:
          if isinstance(t, ast.Subscript):
            recv = t.value
      if recv is None:
        continue
      rt = tpl.xnorm(fi, recv, x)
      if any(rt.endswith('.' + a) for a in SCOPE_SETS) and ('scope' in rt or
                                                             rt.startswith('self.')):
        n += 1
        bad.append('%s: %s' % (fi.qualname, core.norm(x)[:80]))
  rep.check(not bad, rule, '%s:no-removal-from-scope-sets' % ACT,
            'a symbol set of a scope is shrunk in place: names other statements '
            'of the same block recorded are lost with it (they never reach the '
            'enclosing scopes: liveness, reserved names and state selection read '
            'them there)', {'removals': bad},
            witness='n = 0 ... try: ... except E as n: ... -- the earlier uses of n '
            'disappear from the loop\'s scope')


def check(model, rep, tier):
  rep.not_decided = ('exact equality with symtable on every program; dynamic '
                     'per-statement read/write sets; comprehension targets and '
                     'except-clause names (set aside by the property)')
  rep.touch(ACT, QN)
  rep.rule('BIND-EXH', 'binding constructs recorded', floor=9)
  rep.rule('CTX-TABLE', 'context table of _track_symbol', floor=4)
  rep.rule('PARAMS', 'parameter kinds and defaults', floor=3)
  rep.rule('FINALIZE', 'upward propagation formulas', floor=8)
  rep.rule('SCOPE-GROWS', 'the symbol sets of a scope only ever grow', floor=1)
  rep.rule('SC-ASDL', 'field types', floor=30)
  rep.rule('ACT-TRAV', 'every handler of the activity analysis and of the '
           'qualified-name resolver visits every field that can hold a symbol, '
           'on every path', floor=25)
  rep.rule('ACT-ORDER', 'visit order the scoping rules rely on', floor=1)
  rep.rule('QN-FRESH', 'qualified names are recomputed on every resolve', floor=4)
  rules_qn.fresh(model, rep, 'QN-FRESH')
  rep.rule('ACT-FRAME', 'manually entered state frames are left on every path', floor=1)

  cls = model.cls(ACT, 'ActivityAnalyzer')

  # ---------------------------------------------------------------- ACT-TRAV
  analysis_traversal(model, rep)

  rules_trav.state_pairing(model, rep, 'ACT-FRAME', [ACT, QN])
  # the comprehension frame is what makes stores inside a comprehension targets:
  # it must be scoped to the comprehension (a with statement, or a balanced pair)
  pc = cls.methods.get('_process_comprehension')
  ok = pc is not None and (any(
      isinstance(w, ast.With) and any('self.state[_Comprehension]' == core.norm(
          i.context_expr) for i in w.items) for w in ast.walk(pc.node)) or any(
              isinstance(c, ast.Call) and isinstance(c.func, ast.Attribute) and
              c.func.attr == 'enter' for c in ast.walk(pc.node)))
  rep.check(ok, 'ACT-FRAME', '%s:ActivityAnalyzer:comprehension-frame' % ACT,
            'comprehensions must open a _Comprehension frame for their duration',
            line=pc.node.lineno if pc else None)

  # ---------------------------------------------------------------- BIND-EXH
  # completeness of the table: every identifier-typed binding field of the
  # grammar (in scope) appears in it
  binding_fields = {('FunctionDef', 'name'), ('ClassDef', 'name'),
                    ('alias', 'name'), ('alias', 'asname'), ('arg', 'arg'),
                    ('Global', 'names'), ('Nonlocal', 'names'),
                    ('ExceptHandler', 'name')}
  grammar = set()
  for k in asdl.FIELDS:
    for f, t, q in asdl.fields(k):
      if t == 'identifier' and k not in (
          'Attribute', 'Name', 'keyword', 'ImportFrom', 'AsyncFunctionDef',
          'MatchStar', 'MatchAs', 'MatchMapping', 'MatchClass', 'TypeVar',
          'ParamSpec', 'TypeVarTuple'):
        grammar.add((k, f))
  rep.check(grammar == binding_fields, 'BIND-EXH', '%s:binding-fields-of-grammar' % ACT,
            'the grammar has identifier fields that bind names which the rule '
            'table does not know (new syntax?)',
            {'grammar_only': sorted(grammar - binding_fields),
             'table_only': sorted(binding_fields - grammar)})
  for hname, sets, what in BINDERS:
    h = cls.methods.get(hname)
    site = '%s:ActivityAnalyzer:%s' % (ACT, hname)
    if h is None:
      rep.violation('BIND-EXH', site, 'no handler records the %s' % what,
                    witness='a function containing a %s' % what)
      continue
    g = pycfg.CFG(h.node)
    missing = []
    for sn in sets:
      adds = _adds(h.node, sn)
      w = {i: 1 for i in range(len(g.nodes)) if any(
          c in adds for c in pycfg.calls_at(g, i))}
      rng = g.count_range(w, skip_labels=('exc',))
      # inside a `for name in node.names` loop the add happens per name
      in_loop = any(isinstance(l, ast.For) and any(c in adds for c in ast.walk(l))
                    and not any(isinstance(x, (ast.If, ast.Break, ast.Continue))
                                for x in ast.walk(l)) for l in ast.walk(h.node))
      if hname in ('visit_Global', 'visit_Nonlocal'):
        # one declaration lists several names: each must be recorded, i.e. the
        # add sits in the loop over node.names and adds (a QN of) the loop variable
        hp = h.params()[0]
        per_name = False
        for l in ast.walk(h.node):
          if isinstance(l, ast.For) and core.norm(l.iter) == hp + '.names' and \
              isinstance(l.target, ast.Name) and not any(
                  isinstance(x, (ast.If, ast.Break, ast.Continue)) for x in ast.walk(l)):
            for c in adds:
              if any(c is x for b in l.body for x in ast.walk(b)) and c.args:
                arg = c.args[0]
                txt = core.norm(arg)
                if isinstance(arg, ast.Name):
                  # qn = qual_names.QN(name) assigned in the same loop body
                  for a in ast.walk(l):
                    if isinstance(a, ast.Assign) and core.norm(a.targets[0]) == txt:
                      txt = core.norm(a.value)
                if l.target.id in [n.id for n in ast.walk(ast.parse(txt, mode='eval'))
                                   if isinstance(n, ast.Name)]:
                  per_name = True
        if not per_name:
          missing.append(sn)
      elif not ((rng and rng[0] >= 1) or in_loop):
        missing.append(sn)
    rep.check(not missing, 'BIND-EXH', site,
              'the %s is not recorded in %s on every path' % (what, missing),
              {'required_sets': sets}, line=h.node.lineno,
              witness='a %s whose name is later used by generated code' % what)
  from sa import formula as _fm
  va, vc = rules_trav.visit_arg_conditions(model)
  A, Q = _fm.atom('ANNOT'), _fm.atom('HASQN')
  want = ~A & Q
  okb = vc['bound'] is not None and vc['n_bound'] == 1 and _fm.implies(want, vc['bound'])[0]
  okp = vc['param'] is not None and _fm.implies(want, vc['param'])[0]
  rep.check(okb and okp, 'BIND-EXH',
            '%s:ActivityAnalyzer:visit_arg' % ACT,
            'in the declaration pass a parameter must be recorded as bound and '
            'marked as parameter on every path',
            {'bound_under': str(vc['bound']), 'marked_under': str(vc['param'])},
            line=va.node.lineno, witness='def f(k): ...')
  leak = vc['bound'] is None or _fm.satisfiable(vc['bound'] & A) or (
      vc['param'] is not None and _fm.satisfiable(vc['param'] & A))
  rep.check(not leak, 'BIND-EXH', '%s:ActivityAnalyzer:visit_arg:not-in-defining-scope' % ACT,
            'the annotations pass runs in the scope that *defines* the function: '
            'recording the parameter there makes a nested function\'s '
            'parameter names bound names of the enclosing function, hiding its '
            'own uses of those names', line=va.node.lineno,
            witness='def outer(c, y): def f(): def g(y): return y; return g(1) + y')
  for kind in SYMBOL_NODES:
    h = cls.methods.get('visit_' + kind)
    ok = h is not None
    if ok:
      g = pycfg.CFG(h.node)
      w = {i: 1 for i in range(len(g.nodes)) if any(
          core.norm(c.func) == 'self._track_symbol' for c in pycfg.calls_at(g, i))}
      rng = g.count_range(w, skip_labels=('exc',))
      ok = rng is not None and rng[0] >= 1
    rep.check(ok, 'BIND-EXH', '%s:ActivityAnalyzer:visit_%s' % (ACT, kind),
              'every %s node must go through _track_symbol on every path' % kind,
              line=h.node.lineno if h else None,
              witness='%s as assignment / del / for / with target' % kind)
  for kind in ('Starred', 'Tuple', 'List', 'NamedExpr'):
    rep.check(cls.methods.get('visit_' + kind) is None, 'BIND-EXH',
              '%s:ActivityAnalyzer:visit_%s:generic' % (ACT, kind),
              'unpacking targets must be traversed (generic_visit) so that '
              'their element names are tracked', nontrivial=False)

  # ---------------------------------------------------------------- CTX-TABLE
  ts = cls.methods.get('_track_symbol')
  if ts is None:
    raise core.AnalysisError('_track_symbol not found')
  chain = [n for n in ts.node.body if isinstance(n, ast.If) and
           'isinstance(node.ctx' in core.norm(n.test)]
  if len(chain) != 1:
    raise core.AnalysisError('_track_symbol: ctx dispatch not found')
  branches = {}
  cur = chain[0]
  tail = None
  while True:
    t = core.norm(cur.test)
    k = t.split('ast.')[-1].rstrip(')')
    branches[k] = cur.body
    if len(cur.orelse) == 1 and isinstance(cur.orelse[0], ast.If) and \
        'isinstance(node.ctx' in core.norm(cur.orelse[0].test):
      cur = cur.orelse[0]
    else:
      tail = cur.orelse
      break

  qv, qb = pat.first(ts.node, '_Q_ = anno.getanno(%s, anno.Basic.QN)' % ts.params()[0])
  qn = qb['_Q_'] if qb else 'qn'

  # where each `self.scope.<set>.add(qn)` happens, as a formula over the context
  # kind, the AugAssign flag and "inside a comprehension"
  from sa import formula as _fm2
  p_ts = ts.params()[0]

  def ctx_atom(e):
    t = core.norm(e)
    if t.startswith('isinstance(%s.ctx, ast.' % p_ts):
      return 'CTX_' + t.split('ast.')[-1].rstrip(')')
    if t == 'self._in_aug_assign':
      return 'AUG'
    if '_Comprehension' in t and '.level' in t and isinstance(e, ast.Compare) and \
        len(e.ops) == 1 and isinstance(e.comparators[0], ast.Constant) and \
        e.comparators[0].value == 0:
      # `level > 0` reaches here as `level <= 0` (formula.py canonicalises)
      return ~_fm2.atom('COMP') if isinstance(e.ops[0], ast.LtE) else None
    return None
  reach = _fm2.condition_formula(ts.node, chain[0].test, ctx_atom)
  adds_by_set = {}
  for c in ast.walk(ts.node):
    if isinstance(c, ast.Call) and isinstance(c.func, ast.Attribute) and \
        c.func.attr == 'add' and core.norm(c.func.value).startswith('self.scope.') and \
        c.args and core.norm(c.args[0]) == qn:
      adds_by_set.setdefault(core.norm(c.func.value).split('.')[2], []).append(
          _fm2.condition_formula(ts.node, c, ctx_atom))

  def sets_in(kind):
    only = _fm2.atom('CTX_' + kind)
    for o in ('Store', 'Load', 'Del'):
      if o != kind:
        only = only & ~_fm2.atom('CTX_' + o)
    base = reach & only & ~_fm2.atom('COMP')
    uncond, aug = set(), set()
    for sname, conds in adds_by_set.items():
      anyc = _fm2.FALSE
      for cf in conds:
        anyc = anyc | cf
      if _fm2.implies(base & ~_fm2.atom('AUG'), anyc)[0] and _fm2.satisfiable(base):
        uncond.add(sname)
      elif _fm2.implies(base & _fm2.atom('AUG'), anyc)[0] and not _fm2.satisfiable(
          base & ~_fm2.atom('AUG') & anyc):
        aug.add(sname)
    return uncond, aug

  want = {'Store': ({'modified', 'bound'}, {'read'}),
          'Load': ({'read'}, set()),
          'Del': ({'deleted', 'bound', 'read'}, set())}
  for k, (w_un, w_aug) in want.items():
    un, aug = sets_in(k)
    rep.check(w_un <= un and w_aug <= aug and not (un - w_un - {'annotations'}),
              'CTX-TABLE', '%s:%s' % (ts.site, k),
              'a symbol in %s context must be recorded in %s%s (found %s / under '
              'AugAssign %s)' % (k, sorted(w_un), (' and, under AugAssign, ' + str(
                  sorted(w_aug))) if w_aug else '', sorted(un), sorted(aug)),
              {'unconditional': sorted(un), 'under_augassign': sorted(aug)},
              line=ts.node.lineno,
              witness={'Store': 'x += 1 reads x', 'Del': 'del x binds x',
                       'Load': 'y = x'}[k])
  raises_ = [x for x in core.walk_no_nested(ts.node) if isinstance(x, ast.Raise)]
  rf = _fm2.FALSE
  for x in raises_:
    rf = rf | _fm2.condition_formula(ts.node, x, ctx_atom)
  none_ = ~_fm2.atom('CTX_Store') & ~_fm2.atom('CTX_Load') & ~_fm2.atom('CTX_Del')
  rep.check(bool(raises_) and _fm2.implies(none_ & reach, rf)[0] and
            _fm2.implies(rf, none_)[0], 'CTX-TABLE',
            '%s:unknown-context-raises' % ts.site,
            'an unknown expression context must raise', line=ts.node.lineno)
  # a name is comprehension-local when *any* enclosing comprehension binds it:
  # the test walks the whole stack of comprehension frames, not only the top
  tsv = ts.view()
  tsfi = core.FuncInfo(ts.module, tsv, cls=ts.cls)
  # (in _track_symbol itself, or in a predicate method it calls)
  where = [tsfi] + [cls.methods[c_.func.attr] for c_ in ast.walk(tsv)
                    if isinstance(c_, ast.Call) and isinstance(c_.func, ast.Attribute) and
                    core.norm(c_.func.value) == 'self' and c_.func.attr in cls.methods and
                    c_.func.attr != ts.name]
  lv_ok = False
  for fi_ in where:
    # (iteration variable, region in which it is tested): a for statement, or a
    # generator of a comprehension (`any(qn in l.targets for l in ...)`)
    loops_ = []
    for lp_ in ast.walk(fi_.node):
      if isinstance(lp_, ast.For):
        loops_.append((lp_.target, lp_.iter, lp_))
      elif isinstance(lp_, (ast.GeneratorExp, ast.ListComp, ast.SetComp)):
        for gen_ in lp_.generators:
          loops_.append((gen_.target, gen_.iter, lp_))
    for tgt_, it_, region_ in loops_:
      if isinstance(tgt_, ast.Name) and tpl.xnorm(
          fi_, it_, it_) == 'self.state[_Comprehension]':
        tv_ = tgt_.id
        for x in ast.walk(region_):
          if isinstance(x, ast.Compare) and len(x.ops) == 1 and isinstance(
              x.ops[0], ast.In) and isinstance(x.left, ast.Name) and tv_ + '.targets' in (
                  core.norm(x.comparators[0]), tpl.xnorm(fi_, x.comparators[0], x)):
            lv_ok = True
  rep.check(lv_ok, 'CTX-TABLE', '%s:every-comprehension-level' % ts.site,
            'whether a name is bound by a comprehension is decided over every '
            'enclosing comprehension frame: a nested comprehension reads the targets '
            'of the outer ones', line=ts.node.lineno,
            witness='[[x * y for y in ys] for x in xs]: x is not free in the function')
  vaug = cls.methods.get('visit_AugAssign')
  src = [core.norm(s) for s in vaug.node.body]
  ok = 'self._in_aug_assign = True' in src and 'self._in_aug_assign = False' in src
  if ok:
    i1, i2 = src.index('self._in_aug_assign = True'), src.index(
        'self._in_aug_assign = False')
    ok = src[i1 + 1] == 'node.target = self.visit(node.target)' and i2 == i1 + 2 and \
        'node.value = self.visit(node.value)' in src[i2:]
  rep.check(ok, 'CTX-TABLE', '%s:augassign-flag' % vaug.site,
            'only the target of an augmented assignment is visited with the '
            '"also read" flag set', line=vaug.node.lineno)

  # a bare annotation declares, it does not assign
  vann = cls.methods.get('visit_AnnAssign')
  ok = vann is not None
  if ok:
    g = pycfg.CFG(vann.node)
    tv = [i for i in range(len(g.nodes)) if any(
        core.norm(c.func) == 'self.visit' and core.norm(c.args[0]).endswith('.target')
        for c in pycfg.calls_at(g, i))]
    ok = True
    for i in tv:
      mand = [(core.norm(g.nodes[t][1]), l) for t, l in g.mandatory_edges(i)]
      if not any(t.endswith('.value is not None') and l == 'T' for t, l in mand):
        ok = False
  rep.check(ok, 'CTX-TABLE', '%s:ActivityAnalyzer:visit_AnnAssign:declaration-is-not-assignment' % ACT,
            'the target of an annotated assignment is tracked as a store even '
            'when there is no value (`n: int`): the declaration then counts as a '
            'modification and kills n in liveness / reaching definitions',
            line=vann.node.lineno if vann else None,
            witness='n = 7; if c: n = 1; n: int; return n  (1 original, 7 converted)')

  # ---------------------------------------------------------------- PARAMS
  vd = cls.methods.get('_visit_arg_declarations')
  src = core.norm(vd.node)
  kinds = ['posonlyargs', 'args', 'vararg', 'kwonlyargs', 'kwarg']

  def args_expr(fi_):
    """the expression denoting the ast.arguments object inside fi_: `<param>.args`
    when the body reads that, the first parameter itself otherwise"""
    p0 = fi_.params()[0]
    txt = core.norm(fi_.node)
    if (p0 + '.args.') in txt:
      return p0 + '.args'
    return p0
  ax = args_expr(vd)
  miss = [k for k in kinds if ('%s.%s = ' % (ax, k)) not in src]
  rep.check(not miss, 'PARAMS', '%s:five-kinds' % vd.site,
            'parameter kinds %s are not visited: those parameters are not '
            'recorded as bound' % miss, line=vd.node.lineno,
            witness='def f(a, /, b, *c, d, **e)')
  vaa = cls.methods.get('_visit_arg_annotations')
  g = pycfg.CFG(vaa.node)
  flag = [i for i, (k, a) in enumerate(g.nodes) if isinstance(a, ast.Assign) and
          core.norm(a) == 'self._track_annotations_only = True']
  axa = args_expr(vaa)
  dflt = [i for i, (k, a) in enumerate(g.nodes) if isinstance(a, ast.Assign) and
          core.norm(a.targets[0]) in (axa + '.defaults', axa + '.kw_defaults')]
  ok = len(flag) == 1 and len(dflt) == 2
  if ok:
    dom = g.dominators(skip_labels=('exc',))
    ok = all(d in dom[flag[0]] for d in dflt)
  rep.check(ok, 'PARAMS', '%s:defaults-before-annotations-only' % vaa.site,
            'default expressions (positional and keyword-only) are read in the '
            'defining scope: they must be visited before the annotations-only '
            'mode is switched on, or their reads are dropped',
            line=vaa.node.lineno, witness='def apply(x=1, *, k=scale): ...')
  for hname in ('visit_FunctionDef', 'visit_Lambda'):
    h = cls.methods[hname]
    # calls in program order (whether their value is kept is immaterial: the
    # helpers work on the node in place)
    hp_ = h.params()[0]
    seq = [core.norm(c) for c in core.preorder(h.node) if isinstance(c, ast.Call)]
    try:
      i_ann = [i for i, b in enumerate(seq) if b in (
          'self._visit_arg_annotations(%s)' % hp_,
          'self._visit_arg_annotations(%s.args)' % hp_)][0]
      i_iso = [i for i, b in enumerate(seq) if b.startswith('self._enter_scope(True')][0]
      i_decl = [i for i, b in enumerate(seq) if b in (
          'self._visit_arg_declarations(%s)' % hp_,
          'self._visit_arg_declarations(%s.args)' % hp_)][0]
      ok = i_ann < i_iso < i_decl
    except (ValueError, IndexError):
      ok = False
    rep.check(ok, 'PARAMS', '%s:%s:scopes' % (ACT, hname),
              'annotations and defaults belong to the defining scope, the '
              'parameter declarations to the function\'s own (isolated) scope',
              line=h.node.lineno)

  # what a lambda passes on to the calling statement: the free names of the
  # lambda's own (isolated) scope -- everything the parameters, the body and
  # the scopes nested in them read, minus everything they bind.  The handler's
  # scope stack is followed symbolically (enter pushes, exit pops and returns).
  hl = cls.methods['visit_Lambda']
  stack, env, tags, kinds_ = ['outer'], {}, {}, {'outer': None}
  export = []

  def _scope_of(e):
    t_ = core.norm(e)
    if t_ == 'self.scope':
      return stack[-1]
    if isinstance(e, ast.Name):
      return env.get(e.id)
    if isinstance(e, ast.Call) and core.dotted(e.func) == 'anno.getanno' and len(e.args) >= 2:
      return tags.get((core.norm(e.args[0]), core.norm(e.args[1])))
    return None

  def _call(c_):
    f_ = core.norm(c_.func)
    if f_ == 'self._enter_scope':
      sid = 's%d' % len(kinds_)
      a0 = c_.args[0] if c_.args else next(
          (k.value for k in c_.keywords if k.arg == 'isolated'), None)
      kinds_[sid] = a0.value if isinstance(a0, ast.Constant) else None
      stack.append(sid)
      return None
    if f_ in ('self._exit_and_record_scope', 'self._exit_scope'):
      if len(stack) < 2:
        raise core.AnalysisError('visit_Lambda: scope stack underflow')
      sid = stack.pop()
      if f_.endswith('record_scope') and c_.args:
        tg = c_.args[1] if len(c_.args) > 1 else next(
            (k.value for k in c_.keywords if k.arg == 'tag'), None)
        tags[(core.norm(c_.args[0]), core.norm(tg) if tg is not None
              else 'anno.Static.SCOPE')] = sid
      return sid
    return None

  def _diff(e):
    """(scope of the read set, scope of the bound set) of `A.read - B.bound`"""
    if isinstance(e, ast.Name) and e.id in env and isinstance(env[e.id], tuple):
      return env[e.id]
    if isinstance(e, ast.BinOp) and isinstance(e.op, ast.Sub) and isinstance(
        e.left, ast.Attribute) and isinstance(e.right, ast.Attribute) and \
        e.left.attr == 'read' and e.right.attr == 'bound':
      return (_scope_of(e.left.value), _scope_of(e.right.value))
    if isinstance(e, ast.Call) and isinstance(e.func, ast.Attribute) and \
        e.func.attr == 'difference' and len(e.args) == 1 and isinstance(
            e.func.value, ast.Attribute) and e.func.value.attr == 'read' and \
        isinstance(e.args[0], ast.Attribute) and e.args[0].attr == 'bound':
      return (_scope_of(e.func.value.value), _scope_of(e.args[0].value))
    return None

  def _walk(stmts):
    for st in stmts:
      if isinstance(st, (ast.With, ast.If)):
        if isinstance(st, ast.If) and any(
            isinstance(c_, ast.Call) and core.norm(c_.func) in (
                'self._enter_scope', 'self._exit_and_record_scope', 'self._exit_scope')
            for c_ in ast.walk(st)):
          raise core.AnalysisError('visit_Lambda: scopes entered or left conditionally')
        if isinstance(st, ast.With):
          _walk(st.body)
        continue
      val = getattr(st, 'value', None)
      res = None
      calls_ = [c_ for c_ in core.preorder(st) if isinstance(c_, ast.Call)]
      for c_ in calls_:
        r_ = _call(c_)
        if c_ is val:
          res = r_
      if isinstance(st, ast.Assign) and len(st.targets) == 1 and isinstance(
          st.targets[0], ast.Name):
        if res is None and val is not None:
          res = _scope_of(val) or _diff(val)
        env[st.targets[0].id] = res
      # the export: <outer>.read.update(D) / <outer>.read |= D
      if isinstance(st, ast.Expr) and isinstance(val, ast.Call) and isinstance(
          val.func, ast.Attribute) and val.func.attr == 'update' and isinstance(
              val.func.value, ast.Attribute) and val.func.value.attr == 'read' and val.args:
        export.append((_scope_of(val.func.value.value), _diff(val.args[0]), st))
      if isinstance(st, ast.AugAssign) and isinstance(st.op, ast.BitOr) and isinstance(
          st.target, ast.Attribute) and st.target.attr == 'read':
        export.append((_scope_of(st.target.value), _diff(st.value), st))
  _walk(hl.node.body)
  iso_ = [k for k, v in kinds_.items() if v is True]
  ok = len(export) == 1 and len(iso_) == 1 and stack == ['outer'] and \
      export[0][0] == 'outer' and export[0][1] == (iso_[0], iso_[0])
  rep.check(ok, 'PARAMS', '%s:lambda-exports-its-free-names' % hl.site,
            'a lambda is assumed to be called where it is defined: the calling '
            'statement reads the free names of the lambda\'s own isolated scope '
            '(read minus bound of that one scope, after it was closed) -- not of '
            'the body scope or the parameter scope alone, which miss the names a '
            'nested scope binds or reads',
            {'export': [(a, b) for a, b, _ in export], 'isolated': iso_},
            line=hl.node.lineno,
            witness='lambda: [i for i in xs]  /  lambda: (lambda k: k + y)')

  # a class body runs when the class statement does: the free names of the
  # body's (isolated) scope must be exported into the scope that is recorded on
  # the class statement, i.e. that scope is still open when the body's scope is
  # closed.  Same symbolic stack as for the lambda handler.
  hc = cls.methods['visit_ClassDef']
  cpn = hc.params()[0]
  cstack, ckinds, cparent_at_exit, crecorded = [], {}, {}, {}

  def _cwalk(stmts):
    for st in stmts:
      if isinstance(st, ast.With):
        _cwalk(st.body)
        continue
      if isinstance(st, (ast.If, ast.For, ast.While, ast.Try)):
        if any(isinstance(c_, ast.Call) and core.norm(c_.func) in (
            'self._enter_scope', 'self._exit_and_record_scope', 'self._exit_scope')
               for c_ in ast.walk(st)):
          raise core.AnalysisError('visit_ClassDef: scopes entered or left conditionally')
        continue
      for c_ in core.preorder(st):
        if not isinstance(c_, ast.Call):
          continue
        f_ = core.norm(c_.func)
        if f_ == 'self._enter_scope':
          sid = len(ckinds)
          a0 = c_.args[0] if c_.args else None
          ckinds[sid] = a0.value if isinstance(a0, ast.Constant) else None
          cstack.append(sid)
        elif f_ in ('self._exit_and_record_scope', 'self._exit_scope'):
          if not cstack:
            raise core.AnalysisError('visit_ClassDef: scope stack underflow')
          sid = cstack.pop()
          cparent_at_exit[sid] = cstack[-1] if cstack else None
          if f_.endswith('record_scope') and c_.args and len(c_.args) == 1 and \
              not c_.keywords:
            crecorded[sid] = core.norm(c_.args[0])
  _cwalk(hc.node.body)
  stmt_sc = [sid for sid, n_ in crecorded.items() if n_ == cpn]
  iso_sc = [sid for sid, k_ in ckinds.items() if k_ is True]
  okcb = len(stmt_sc) == 1 and len(iso_sc) == 1 and \
      cparent_at_exit.get(iso_sc[0]) == stmt_sc[0]
  rep.check(okcb, 'PARAMS', '%s:class-body-reads-belong-to-the-class-statement' % hc.site,
            'the class body is executed by the class statement: the names it reads '
            'from the enclosing function must be reads of that statement (its scope '
            'must still be open when the body\'s isolated scope is closed), or they '
            'are not live at the statement',
            {'statement_scope': stmt_sc, 'body_scope': iso_sc,
             'body_scope_closed_into': cparent_at_exit.get(iso_sc[0]) if iso_sc else None},
            line=hc.node.lineno,
            witness='if c: v = 1 / else: v = 2 / class A: attr = v  -- UnboundLocalError')

  # a statement's scope annotation is written once: a second record under the
  # same tag on the same node replaces the statement's scope by another one
  n_rec = 0
  for mname_, m_ in sorted(cls.methods.items()):
    groups = {}
    for c_ in core.walk_no_nested(m_.node):
      if isinstance(c_, ast.Call) and core.norm(c_.func) == 'self._exit_and_record_scope' \
          and c_.args:
        tag_ = c_.args[1] if len(c_.args) > 1 else next(
            (k.value for k in c_.keywords if k.arg == 'tag'), None)
        key_ = (core.norm(c_.args[0]), core.norm(tag_) if tag_ is not None
                else 'anno.Static.SCOPE')
        groups.setdefault(key_, []).append(c_)
    for key_, cs_ in groups.items():
      n_rec += 1
      if len(cs_) < 2:
        rep.hold('FINALIZE', '%s:records-once(%s, %s)' % ((m_.site,) + key_))
        continue
      g_ = pycfg.CFG(m_.node)
      w_ = {i: sum(1 for c in pycfg.calls_at(g_, i) if c in cs_) for i in range(len(g_.nodes))}
      w_ = {i: v for i, v in w_.items() if v}
      rng_ = g_.count_range(w_, skip_labels=('exc',))
      rep.check(rng_ is not None and rng_[1] <= 1, 'FINALIZE',
                '%s:records-once(%s, %s)' % ((m_.site,) + key_),
                'the scope of a statement is recorded twice under the same tag on '
                'one path: the second record (another scope) replaces the first',
                {'records_per_path': rng_}, line=m_.node.lineno,
                witness='class Point: dims = 2 -- the class statement then reports '
                'dims as modified instead of Point')
  # ---------------------------------------------------------------- SCOPE-GROWS
  scope_grows(model, rep, 'SCOPE-GROWS')

  # ---------------------------------------------------------------- FINALIZE
  sc = model.cls(ACT, 'Scope')
  fin = sc.methods.get('finalize')

  def at(e):
    t = core.norm(e)
    m = {'self.read': 'READ', 'self.modified': 'MODIFIED', 'self.bound': 'BOUND',
         'self.isolated_names': 'ISOLATED_NAMES', 'self.globals': 'GLOBALS',
         'self.nonlocals': 'NONLOCALS', 'self.annotations': 'ANNOTATIONS',
         'self.deleted': 'DELETED'}
    if t in m:
      return m[t]
    if t.startswith('self.parent.') and t.count('.') == 2:
      return 'P.' + t.split('.')[2]
    return None

  ev = setalg.Ev(model, fin, at)
  rets, env = ev.run({})
  def after(name):
    v = env.get('@self.parent.' + name)
    return v.f if isinstance(v, setalg.SetV) else atom('P.' + name)
  conds = set()
  for name in ('read', 'modified', 'bound', 'globals', 'nonlocals'):
    conds |= {a for a in after(name).atoms if a.startswith('OPAQUE[')}
  iso = [a for a in conds if 'isolated' in a]
  par = [a for a in conds if 'parent is not None' in a]
  if not iso or not par:
    raise core.AnalysisError('finalize: isolation / parent tests not found')
  # atom text is the test as written: `not self.isolated`
  non_isolated = atom(iso[0]) if iso[0].startswith('OPAQUE[not ') else ~atom(iso[0])
  has_parent = atom(par[0])
  R, M, B, I, G, N = map(atom, ['READ', 'MODIFIED', 'BOUND', 'ISOLATED_NAMES',
                               'GLOBALS', 'NONLOCALS'])
  for name, premise, cond, why, wit in (
      ('block:read', R & ~I, non_isolated, 'reads of a block are reads of the '
       'enclosing scope', 'if c: y = x'),
      ('block:modified', M & ~I, non_isolated, 'writes of a block', 'if c: x = 1'),
      ('block:bound', B & ~I, non_isolated, 'bindings of a block', 'if c: x = 1'),
      ('block:globals', G, non_isolated, 'global declarations', 'if c: global g'),
      ('block:nonlocals', N, non_isolated, 'nonlocal declarations',
       'if c: nonlocal x'),
      ('function:free-read', R & ~B, ~non_isolated, 'free reads of a nested '
       'function are reads of the enclosing scope', 'def g(): return x'),
      ('function:nonlocal-declared', R & B & N, ~non_isolated, 'a name a nested '
       'function declares nonlocal is used in the enclosing scope',
       'three nested defs, the innermost declares nonlocal x bound two levels up'),
  ):
    tgt = name.split(':')[1].split('-')[0]
    tgt = {'free': 'read', 'nonlocal': 'read'}.get(tgt, tgt)
    o, cex = implies(premise & cond & has_parent, after(tgt))
    rep.check(o, 'FINALIZE', '%s:%s' % (fin.site, name),
              'Scope.finalize does not propagate to the parent: %s' % why,
              {'counterexample': cex}, line=fin.node.lineno, witness=wit)
  o, cex = implies(after('modified') & ~non_isolated & has_parent, atom('P.modified'))
  rep.check(o, 'FINALIZE', '%s:function:writes-isolated' % fin.site,
            'writes inside a nested function must not count as writes of the '
            'enclosing scope', {'counterexample': cex}, line=fin.node.lineno)
  for setname in ('bound', 'globals', 'nonlocals'):
    o, cex = implies(after(setname) & ~non_isolated & has_parent, atom('P.' + setname))
    rep.check(o, 'FINALIZE', '%s:function:%s-isolated' % (fin.site, setname),
              'what a nested function binds or declares global / nonlocal is its '
              'own business: it must not enter the %s set of the enclosing '
              'scope (the enclosing function\'s own local of that name would be '
              'treated as declared there)' % setname, {'counterexample': cex},
              line=fin.node.lineno,
              witness='def outer(): v = 0; def inner(): nonlocal v; v += 1 -- v is '
              'a plain local of outer')
  fv = sc.methods.get('free_vars')
  al = setalg.single_assignment_aliases(fv.node)

  def at_fv(e):
    t = setalg.alias_text(e, al)
    return {'self.enclosing_scope.read': 'READ', 'self.enclosing_scope.bound': 'BOUND',
            'self.enclosing_scope.nonlocals': 'NONLOCALS'}.get(t)

  ev2 = setalg.Ev(model, fv, at_fv)
  v = ev2.merge_returns(ev2.run({})[0])
  ok = isinstance(v, setalg.SetV)
  cex = None
  if ok:
    ok, cex = equivalent(v.f, R & ~(B & ~N))
  rep.check(ok, 'FINALIZE', '%s:free_vars' % fv.site,
            'free variables = read minus locally bound, names declared nonlocal '
            'included', {'formula': str(v.f) if isinstance(v, setalg.SetV) else None,
                         'counterexample': cex}, line=fv.node.lineno,
            witness='def inc(): nonlocal x; x += 1')
  cf = sc.methods.get('copy_from')
  mf = sc.methods.get('merge_from')

  def attrs_written(fn):
    out = set()
    for n in ast.walk(fn.node):
      if isinstance(n, ast.Assign) and isinstance(n.targets[0], ast.Attribute) and \
          core.norm(n.targets[0].value) == 'self':
        out.add(n.targets[0].attr)
      if isinstance(n, ast.Call) and isinstance(n.func, ast.Attribute) and \
          n.func.attr == 'update' and isinstance(n.func.value, ast.Attribute) and \
          core.norm(n.func.value.value) == 'self':
        out.add(n.func.value.attr)
    return out

  a, b = attrs_written(cf), attrs_written(mf)
  rep.check(a == b and {'read', 'modified', 'bound', 'deleted'} <= a, 'FINALIZE',
            '%s:copy_from=merge_from' % sc.site,
            'parallel blocks are processed by resetting the scope with copy_from '
            'and merging the results with merge_from: an attribute that is '
            'reset but not merged back loses what the first block recorded',
            {'copy_from_only': sorted(a - b), 'merge_from_only': sorted(b - a)},
            line=cf.node.lineno,
            witness='a global / nonlocal declaration inside the body of an if '
            'that has an else')

  _c05.asdl_rule(model, rep, 'SC-ASDL', [ACT, QN])
