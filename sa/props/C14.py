"""C14 — builtin overloads behave like the builtins on ordinary Python values.

 BI-TABLE    every supported builtin has an overload registered under its own
             __name__; overload_of consults the tuple, then the map by __name__
 BI-SIG      every call shape Python 3.12 accepts for the builtin (frozen table
             from the library reference) binds to the overload's signature
 BI-FORWARD  symbolic evaluation of the overload and its _py_ helper for every
             supplied/omitted assignment of the optional parameters (registries
             miss: ordinary values): the path ends in a direct call of the real
             builtin that passes exactly the supplied arguments, each in a slot
             of the same meaning, and omitted ones not at all or as the
             builtin's own default
 BI-FRAME    frame-sensitive builtins are tested by identity before the generic
             overload and get the caller scope; the frame search walks the whole
             stack, matches by scope name + identity, super uses the outermost
             match; the generated scope name equals the `with ... as` name
"""
import ast
import itertools

from sa import core
from sa import formula
from sa import pat
from sa import pycfg
from sa import tpl

PYB = 'malt/operators/py_builtins.py'
API = 'malt/impl/api.py'
FUNCS = 'malt/converters/functions.py'
FW = 'malt/operators/function_wrappers.py'

REQ = object()

# Python 3.12 builtin signatures (library reference). kind: P positional-only,
# PK positional-or-keyword, K keyword-only, VP *args, VK **kwargs.
# default: REQ = required, otherwise the builtin's own default (source text) or
# None when omission has no literal equivalent.
SPECS = {
    'abs': [('x', 'P', REQ)],
    'all': [('iterable', 'P', REQ)],
    'any': [('iterable', 'P', REQ)],
    'enumerate': [('iterable', 'PK', REQ), ('start', 'PK', '0')],
    'filter': [('function', 'P', REQ), ('iterable', 'P', REQ)],
    'float': [('x', 'P', '0')],
    'int': [('x', 'P', '0'), ('base', 'PK', None)],
    'len': [('obj', 'P', REQ)],
    'map': [('func', 'P', REQ), ('iterables', 'VP', None)],
    'print': [('objects', 'VP', None), ('sep', 'K', None), ('end', 'K', None),
              ('file', 'K', None), ('flush', 'K', None)],
    'range': [('a', 'P', REQ), ('b', 'P', None), ('c', 'P', None)],
    'sorted': [('iterable', 'P', REQ), ('key', 'K', None), ('reverse', 'K', None)],
    'zip': [('iterables', 'VP', None), ('strict', 'K', 'False')],
}
PROPERTY_BUILTINS = ['abs', 'all', 'any', 'enumerate', 'filter', 'float', 'int',
                     'len', 'map', 'print', 'range', 'sorted', 'zip']


def call_shapes(name):
  """All (n_positional, keyword tuple) Python accepts; VP counted as 0 and 2 extra."""
  spec = SPECS[name]
  fixed = [s for s in spec if s[1] in ('P', 'PK', 'K')]
  shapes = set()
  # each optional param supplied or not; PK params positionally or by keyword
  for mask in itertools.product([0, 1, 2], repeat=len(fixed)):
    npos = 0
    kws = []
    ok = True
    gap = False
    for (pn, kind, dflt), m in zip(fixed, mask):
      if m == 0:
        if dflt is REQ:
          ok = False
        if kind in ('P', 'PK'):
          gap = True
        continue
      if m == 1:   # positional
        if kind == 'K' or gap:
          ok = False
        npos += 1
      else:        # keyword
        if kind == 'P':
          ok = False
        kws.append(pn)
        if kind in ('P', 'PK'):
          gap = True
    if name == 'int' and 'base' in kws + ([] if mask[1] != 1 else ['base']) and mask[0] == 0:
      ok = False   # int(base=..) without x is a TypeError in Python
    if name == 'range':
      # range(a), range(a, b), range(a, b, c): b before c
      pass
    if not ok:
      continue
    vps = [s for s in spec if s[1] == 'VP']
    extra = (0, 2) if vps else (0,)
    for e in extra:
      shapes.add((npos + e, tuple(kws)))
  return sorted(shapes)


def binds(fn, npos, kws):
  """Does a call with npos positionals and keywords kws bind to def fn?"""
  a = fn.args
  pos = [x.arg for x in a.posonlyargs] + [x.arg for x in a.args]
  n_posonly = len(a.posonlyargs)
  defaults = len(a.defaults)
  required_pos = pos[:len(pos) - defaults]
  if npos > len(pos) and not a.vararg:
    return False, 'too many positional arguments'
  bound = set(pos[:min(npos, len(pos))])
  kwonly = [x.arg for x in a.kwonlyargs]
  for k in kws:
    if k in bound:
      return False, 'multiple values for %r' % k
    if k in pos[n_posonly:] or k in kwonly:
      bound.add(k)
    elif a.kwarg:
      continue
    else:
      return False, 'unexpected keyword %r' % k
  for r in required_pos:
    if r not in bound:
      return False, 'missing required %r' % r
  for k, d in zip(a.kwonlyargs, a.kw_defaults):
    if d is None and k.arg not in bound:
      return False, 'missing keyword-only %r' % k.arg
  return True, ''


class Sym:
  """Symbolic evaluation of the tiny overload functions."""

  def __init__(self, mod):
    self.mod = mod
    self.results = []      # (callee, args, kwargs, path notes)
    self.problems = []

  def run(self, fn, env, depth=0):
    return self._block(fn.body, dict(env), depth)

  def _val(self, e, env):
    if isinstance(e, ast.Name):
      if e.id in env:
        return env[e.id]
      if e.id == 'UNSPECIFIED':
        return ('UNSPEC',)
      if e.id in self.mod.functions:
        return ('func', e.id)
      return ('global', e.id)
    if isinstance(e, ast.Constant):
      return ('const', e.value)
    if isinstance(e, (ast.Compare, ast.BoolOp)) or (
        isinstance(e, ast.UnaryOp) and isinstance(e.op, ast.Not)):
      c = self._cond(e, env)            # a named flag: `has_key = key is not UNSPECIFIED`
      if c is not None:
        return ('const', c)
    if isinstance(e, ast.NamedExpr) and isinstance(e.target, ast.Name):
      v = self._val(e.value, env)
      env[e.target.id] = v            # the binding is visible after the test
      return v
    if isinstance(e, ast.Tuple) and not any(isinstance(x, ast.Starred) for x in e.elts):
      return ('tuple', [self._val(x, env) for x in e.elts])
    if isinstance(e, ast.Dict) and all(isinstance(k, ast.Constant) and isinstance(
        k.value, str) for k in e.keys):
      return ('dict', [(k.value, self._val(v, env)) for k, v in zip(e.keys, e.values)])
    if isinstance(e, ast.DictComp) and len(e.generators) == 1 and isinstance(
        e.generators[0].iter, (ast.Tuple, ast.List)) and isinstance(
            e.generators[0].target, ast.Tuple) and all(
                isinstance(t, ast.Name) for t in e.generators[0].target.elts):
      # {k: v for k, v in (('key', key), ...) if cond}: decided row by row
      g = e.generators[0]
      names = [t.id for t in g.target.elts]
      items = []
      for row in g.iter.elts:
        if not isinstance(row, ast.Tuple) or len(row.elts) != len(names):
          return ('expr', core.norm(e))
        e2 = dict(env)
        for nme, x in zip(names, row.elts):
          e2[nme] = self._val(x, env)
        keep = True
        for c in g.ifs:
          r = self._cond(c, e2)
          if r is None:
            return ('expr', core.norm(e))
          keep = keep and r
        if keep:
          k = self._val(e.key, e2)
          if k[0] != 'const' or not isinstance(k[1], str):
            return ('expr', core.norm(e))
          items.append((k[1], self._val(e.value, e2)))
      return ('dict', items)
    if isinstance(e, ast.Call):
      d = core.dotted(e.func)
      if d == 'registry_lookup':
        return ('const', None)
      if isinstance(e.func, ast.Name) and e.func.id not in env and \
          e.func.id not in self.mod.functions and e.func.id != 'UNSPECIFIED':
        r = self._call_value(e, env, 9, e)
        if len(r) == 1 and r[0][0] == 'ret':
          return r[0][1]
      if isinstance(e.func, ast.Name) and e.func.id not in env and \
          e.func.id in self.mod.functions and getattr(self, '_vdepth', 0) < 3:
        # a helper of this module: its value when every path agrees on it
        self._vdepth = getattr(self, '_vdepth', 0) + 1
        try:
          r = self._call_value(e, env, 1, e)
        finally:
          self._vdepth -= 1
        vals = [o[1] for o in r if o[0] == 'ret']
        if vals and len(vals) == len([o for o in r if o[0] != 'raise']) and all(
            v == vals[0] for v in vals) and vals[0][0] in ('func', 'const', 'sym', 'UNSPEC'):
          return vals[0]
      return ('expr', core.norm(e))
    return ('expr', core.norm(e))

  def _cond(self, t, env):
    """-> True / False / None (unknown)"""
    if isinstance(t, ast.BoolOp):
      vs = [self._cond(v, env) for v in t.values]
      if isinstance(t.op, ast.And):
        if any(v is False for v in vs):
          return False
        return True if all(v is True for v in vs) else None
      if any(v is True for v in vs):
        return True
      return False if all(v is False for v in vs) else None
    if isinstance(t, ast.UnaryOp) and isinstance(t.op, ast.Not):
      v = self._cond(t.operand, env)
      return None if v is None else (not v)
    if isinstance(t, ast.Compare) and len(t.ops) == 1 and isinstance(
        t.ops[0], (ast.Is, ast.IsNot)):
      l = self._val(t.left, env)
      r = self._val(t.comparators[0], env)
      res = None
      if r == ('UNSPEC',) or l == ('UNSPEC',):
        o = l if r == ('UNSPEC',) else r
        if o == ('UNSPEC',):
          res = True
        elif o[0] in ('sym', 'const', 'star'):
          res = False
      elif r == ('const', None) and l[0] == 'const':
        res = l[1] is None
      elif r == ('const', None) and l[0] == 'func':
        res = False
      if res is None:
        return None
      return res if isinstance(t.ops[0], ast.Is) else (not res)
    if isinstance(t, ast.Compare) and len(t.ops) == 1 and isinstance(
        t.ops[0], (ast.Eq, ast.NotEq)):
      l = self._val(t.left, env)
      r = self._val(t.comparators[0], env)
      if l[0] == 'func' and r[0] == 'func':
        res = l == r
        return res if isinstance(t.ops[0], ast.Eq) else (not res)
      return None
    v = self._val(t, env)
    if v[0] == 'const':
      return bool(v[1])
    if v == ('UNSPEC',):
      return True
    return None

  def _block(self, stmts, env, depth):
    """Returns list of outcomes ('ret', value) / ('raise',) / ('fall', env)."""
    states = [env]
    outs = []
    for s in stmts:
      nxt = []
      for e in states:
        for o in self._stmt(s, e, depth):
          if o[0] == 'fall':
            nxt.append(o[1])
          else:
            outs.append(o)
      states = nxt
      if not states:
        break
    return outs + [('fall', e) for e in states]

  def _stmt(self, s, env, depth):
    if isinstance(s, ast.Expr) and isinstance(s.value, ast.Constant):
      return [('fall', env)]
    if isinstance(s, ast.Assign) and len(s.targets) == 1 and isinstance(
        s.targets[0], ast.Name):
      e2 = dict(env)
      e2[s.targets[0].id] = self._val(s.value, env)
      return [('fall', e2)]
    if isinstance(s, ast.Assign) and len(s.targets) == 1 and isinstance(
        s.targets[0], ast.Subscript) and isinstance(s.targets[0].value, ast.Name) and \
        env.get(s.targets[0].value.id, ('',))[0] == 'dict' and isinstance(
            s.targets[0].slice, ast.Constant) and isinstance(s.targets[0].slice.value, str):
      # options['key'] = key  on a dict literal built in this function
      e2 = dict(env)
      d_ = env[s.targets[0].value.id]
      k_ = s.targets[0].slice.value
      e2[s.targets[0].value.id] = ('dict', [kv for kv in d_[1] if kv[0] != k_] +
                                   [(k_, self._val(s.value, env))])
      return [('fall', e2)]
    if isinstance(s, ast.If):
      c = self._cond(s.test, env)
      outs = []
      et, ef = env, env
      if c is None:
        t, pos = s.test, True
        if isinstance(t, ast.UnaryOp) and isinstance(t.op, ast.Not):
          t, pos = t.operand, False
        if isinstance(t, ast.Name) and env.get(t.id, ('',))[0] == 'sym':
          et, ef = dict(env), dict(env)
          et[t.id] = ('sym', env[t.id][1], 'truthy' if pos else 'falsy')
          ef[t.id] = ('sym', env[t.id][1], 'falsy' if pos else 'truthy')
      if c is not False:
        outs += self._block(s.body, et, depth)
      if c is not True:
        outs += self._block(s.orelse, ef, depth)
      return outs
    if isinstance(s, ast.For):
      # zero iterations and one iteration (registries miss on ordinary values);
      # the else clause runs when the loop was not left by break
      outs = list(self._block(s.orelse, dict(env), depth)) if s.orelse else [('fall', env)]
      e2 = dict(env)
      if isinstance(s.target, ast.Name):
        e2[s.target.id] = ('sym', '<elem>')
      for o in self._block(s.body, e2, depth):
        if o[0] == 'fall':
          if s.orelse:
            outs.extend(self._block(s.orelse, dict(o[1]), depth))
          else:
            outs.append(('fall', o[1]))
        elif o[0] == 'continue':
          if s.orelse:
            outs.extend(self._block(s.orelse, dict(o[1]), depth))
          else:
            outs.append(('fall', o[1]))
        elif o[0] == 'break':
          outs.append(('fall', o[1]))
        else:
          outs.append(o)
      return outs
    if isinstance(s, ast.Try):
      # a registry lookup inside the try misses on ordinary values: the
      # LookupError handler is the path taken; otherwise the body completes
      looks = any(isinstance(c, ast.Call) and isinstance(c.func, ast.Attribute) and
                  c.func.attr == 'lookup' for b in s.body for c in ast.walk(b))
      hs = [h for h in s.handlers if h.type is not None and core.dotted(h.type) in (
          'LookupError', 'KeyError')]
      if looks and hs:
        outs = self._block(hs[0].body, dict(env), depth)
      else:
        outs = []
        for o in self._block(s.body, dict(env), depth):
          if o[0] == 'fall' and s.orelse:
            outs.extend(self._block(s.orelse, o[1], depth))
          else:
            outs.append(o)
      if s.finalbody:
        outs2 = []
        for o in outs:
          if o[0] == 'fall':
            outs2.extend(self._block(s.finalbody, o[1], depth))
          else:
            outs2.append(o)
        outs = outs2
      return outs
    if isinstance(s, ast.Break):
      return [('break', env)]
    if isinstance(s, ast.Continue):
      return [('continue', env)]
    if isinstance(s, ast.Raise):
      return [('raise',)]
    if isinstance(s, ast.Return):
      return self._call_value(s.value, env, depth, s)
    if isinstance(s, ast.Expr) and isinstance(s.value, ast.Call) and isinstance(
        s.value.func, ast.Attribute) and isinstance(s.value.func.value, ast.Name) \
        and env.get(s.value.func.value.id, ('',))[0] == 'builtin':
      e2 = dict(env)
      e2[s.value.func.value.id] = ('expr', 'result of %s post-processed by .%s()' % (
          env[s.value.func.value.id][1], s.value.func.attr))
      return [('fall', e2)]
    if isinstance(s, ast.Expr) and isinstance(s.value, ast.Call):
      r = self._call_value(s.value, env, depth, s)
      outs = []
      for o in r:
        if o[0] == 'ret':
          outs.append(('fall', env) if o[1][0] != 'builtin' else
                      ('ret', ('builtin-noreturn',) + o[1][1:]))
        else:
          outs.append(o)
      return outs
    return [('fall', env)]

  def _call_value(self, v, env, depth, at):
    if v is None:
      return [('ret', ('const', None))]
    if not isinstance(v, ast.Call):
      return [('ret', self._val(v, env))]
    callee = self._val(v.func, env) if isinstance(v.func, ast.Name) else (
        'expr', core.norm(v.func))
    args = []
    for a in v.args:
      if isinstance(a, ast.Starred):
        sv = self._val(a.value, env)
        if sv[0] == 'tuple':
          args.extend(sv[1])          # *(a, b) is a, b
        else:
          args.append(('star', sv))
      else:
        args.append(self._val(a, env))
    kws = []
    for k in v.keywords:
      kv = self._val(k.value, env)
      if k.arg is None and kv[0] == 'dict':
        kws.extend(kv[1])             # **{'key': k} is key=k
      else:
        kws.append((k.arg, kv))
    if callee[0] == 'func' and depth < 4:
      fn = self.mod.functions[callee[1]].node
      e2 = {}
      a = fn.args
      pnames = [x.arg for x in a.posonlyargs + a.args]
      ai = 0
      for val in args:
        if val[0] == 'star':
          if a.vararg:
            e2[a.vararg.arg] = val[1]
          continue
        if ai < len(pnames):
          e2[pnames[ai]] = val
          ai += 1
      for k, val in kws:
        if k is None:
          if a.kwarg:
            e2[a.kwarg.arg] = val
        else:
          e2[k] = val
      dflts = dict(zip(reversed(pnames), reversed(a.defaults)))
      for p in pnames:
        if p not in e2 and p in dflts:
          e2[p] = self._val(dflts[p], {})
      for ka, kd in zip(a.kwonlyargs, a.kw_defaults):
        if ka.arg not in e2 and kd is not None:
          e2[ka.arg] = self._val(kd, {})
      outs = []
      for o in self._block(fn.body, e2, depth + 1):
        if o[0] == 'fall':
          outs.append(('ret', ('const', None)))
        else:
          outs.append(o)
      return outs
    if callee[0] == 'global':
      assume = {v[1]: v[2] for v in env.values() if v[0] == 'sym' and len(v) > 2}
      return [('ret', ('builtin', callee[1], args, kws, assume))]
    return [('ret', ('expr', core.norm(v)))]


def check(model, rep, tier):
  rep.not_decided = ('equality of results / laziness on concrete values; '
                     'behaviour with registered overrides (registries are empty '
                     'for ordinary Python values)')
  rep.touch(PYB, API, FUNCS, FW)
  mod = model.module(PYB)
  rep.rule('BI-TABLE', 'supported builtins registered under their own name', floor=15)
  rep.rule('BI-SIG', 'every accepted call shape binds to the overload', floor=40)
  rep.rule('BI-FORWARD', 'each supplied argument forwarded in a slot of the same '
           'meaning; omitted ones not invented', floor=20)
  rep.rule('BI-FRAME', 'frame-sensitive builtins and frame search', floor=8)

  # ---------------------------------------------------------------- BI-TABLE
  bm = mod.assigns.get('BUILTIN_FUNCTIONS_MAP')
  if not isinstance(bm, ast.Dict):
    raise core.AnalysisError('BUILTIN_FUNCTIONS_MAP not found')
  mapping = {k.value: core.dotted(v) for k, v in zip(bm.keys, bm.values)
             if isinstance(k, ast.Constant)}
  ov = model.func(PYB, 'overload_of')
  fpar = ov.params()[0]
  # the set of builtin *objects* that are substituted: the module-level tuple
  # overload_of tests membership in (by identity / equality of the function
  # object, not by name)
  sb = None
  sb_name = None
  for c in ast.walk(ov.node):
    if isinstance(c, ast.Compare) and len(c.ops) == 1 and isinstance(
        c.ops[0], (ast.In, ast.NotIn)) and core.norm(c.left) == fpar and isinstance(
            c.comparators[0], ast.Name) and isinstance(
                mod.assigns.get(c.comparators[0].id), (ast.Tuple, ast.List, ast.Set)):
      sb_name = c.comparators[0].id
      sb = mod.assigns[sb_name]
  supported = [core.dotted(e) for e in sb.elts] if sb is not None else sorted(mapping)
  for b in PROPERTY_BUILTINS:
    rep.check(b in supported, 'BI-TABLE', '%s:supported(%s)' % (PYB, b),
              'builtin %s is no longer substituted' % b, {'supported': supported})
  for b in supported:
    tgt = mapping.get(b)
    ok = tgt == b + '_' and tgt in mod.functions
    rep.check(ok, 'BI-TABLE', '%s:map(%s)' % (PYB, b),
              'supported builtin %s must map, under its own __name__, to the '
              'overload %s_' % (b, b), {'maps_to': tgt},
              witness='a converted call of %s(...) dispatches to %s' % (b, tgt))

  def mem_atom(e):
    if sb_name and core.norm(e) == '%s in %s' % (fpar, sb_name):
      return 'MEMBER'
    return None
  cases = formula.return_cases(ov.node, mem_atom)
  MEM = formula.atom('MEMBER')
  entry = ('BUILTIN_FUNCTIONS_MAP[%s.__name__]' % fpar,
           'BUILTIN_FUNCTIONS_MAP.get(%s.__name__)' % fpar,
           'BUILTIN_FUNCTIONS_MAP.get(%s.__name__, %s)' % (fpar, fpar))
  in_vals = {core.norm(v) if v is not None else 'None'
             for f_, v in cases if formula.satisfiable(f_ & MEM)}
  out_vals = {core.norm(v) if v is not None else 'None'
              for f_, v in cases if formula.satisfiable(f_ & ~MEM)}
  ok = sb is not None and len(in_vals) == 1 and in_vals <= set(entry) and \
      out_vals == {fpar}
  rep.check(ok, 'BI-TABLE', '%s:lookup' % ov.site,
            'overload_of must return the map entry exactly for the builtin '
            '*objects* it substitutes (membership of the function object in the '
            'tuple of builtins) and the function itself otherwise: selecting by '
            '__name__ alone also replaces every other C-implemented callable '
            'that happens to be called abs / any / len / ...',
            {'for_members': sorted(in_vals), 'otherwise': sorted(out_vals),
             'membership_table': sb_name}, line=ov.node.lineno,
            witness='decimal.Context(prec=2).abs(d) / ndarray.any() in converted code')

  # ---------------------------------------------------------------- BI-SIG
  for b in supported:
    if b not in SPECS or (b + '_') not in mod.functions:
      continue
    fn = mod.functions[b + '_'].node
    for npos, kws in call_shapes(b):
      ok, why = binds(fn, npos, kws)
      rep.check(ok, 'BI-SIG', '%s:%s(%d positional%s)' % (
          mod.functions[b + '_'].site, b, npos,
          (', ' + ', '.join(k + '=' for k in kws)) if kws else ''),
                'Python accepts %s with %d positional argument(s)%s but the '
                'overload %s_ does not bind it: %s' %
                (b, npos, (' and keyword(s) ' + ', '.join(kws)) if kws else '',
                 b, why), {'signature': core.norm(fn.args)}, line=fn.lineno,
                witness='%s(%s)' % (b, ', '.join(
                    ['v%d' % i for i in range(npos)] + ['%s=v' % k for k in kws])))

  # ---------------------------------------------------------------- BI-FORWARD
  for b in supported:
    if b not in SPECS or (b + '_') not in mod.functions:
      continue
    fi = mod.functions[b + '_']
    fn = fi.node
    spec = SPECS[b]
    a = fn.args
    pnames = [x.arg for x in a.posonlyargs + a.args] + [x.arg for x in a.kwonlyargs]
    dflts = dict(zip(reversed([x.arg for x in a.posonlyargs + a.args]),
                     reversed(a.defaults)))
    for ka, kd in zip(a.kwonlyargs, a.kw_defaults):
      if kd is not None:
        dflts[ka.arg] = kd
    fixed_spec = [s for s in spec if s[1] != 'VP' and s[1] != 'VK']
    # map overload params to spec params by position among fixed params
    ov_fixed = [p for p in pnames]
    if len(ov_fixed) < len(fixed_spec) and not a.kwarg:
      rep.violation('BI-FORWARD', '%s:params' % fi.site,
                    'overload has fewer parameters than the builtin')
      continue
    pairs = list(zip(ov_fixed, fixed_spec)) if not a.kwarg else [
        (p, s) for p, s in zip(ov_fixed, fixed_spec)]
    optional = [(p, s) for p, s in pairs if s[2] is not REQ]
    for mask in itertools.product([False, True], repeat=len(optional)):
      supplied = {p for p, s in pairs if s[2] is REQ}
      for (p, s), m in zip(optional, mask):
        if m:
          supplied.add(p)
      if b == 'range' and ('step' in supplied and 'stop' not in supplied):
        continue
      env = {}
      for p, s in pairs:
        if p in supplied:
          env[p] = ('sym', p)
        else:
          env[p] = Sym(mod)._val(dflts[p], {}) if p in dflts else ('UNSPEC',)
      if a.vararg:
        env[a.vararg.arg] = ('sym', '*' + a.vararg.arg)
      if a.kwarg:
        env[a.kwarg.arg] = ('sym', '**' + a.kwarg.arg)
      sy = Sym(mod)
      outs = sy.run(fn, env)
      site = '%s:%s(%s)' % (fi.site, b, ','.join(sorted(supplied)) or '-')
      bad = None
      n_ret = 0
      for o in outs:
        if o[0] == 'raise':
          continue
        if o[0] != 'ret':
          if b == 'print':
            bad = 'print overload falls through without calling print'
          else:
            bad = 'a path ends without returning the builtin\'s result'
          continue
        v = o[1]
        n_ret += 1
        if v[0] not in ('builtin', 'builtin-noreturn') or v[1] != b:
          bad = 'a path returns %s instead of a direct call of %s' % (
              v[1] if len(v) > 1 else v, b)
          continue
        if v[0] == 'builtin-noreturn' and b != 'print':
          bad = 'the result of %s is dropped' % b
          continue
        problem = _check_forward(b, v[2], v[3], pairs, supplied, a,
                                 v[4] if len(v) > 4 else {})
        if problem:
          bad = problem
      if n_ret == 0 and not bad:
        bad = 'no path reaches the builtin'
      rep.check(bad is None, 'BI-FORWARD', site,
                '%s with %s supplied: %s' % (
                    b, sorted(supplied) or 'no optional argument', bad),
                {'outcomes': [str(o[1])[:120] if o[0] == 'ret' else o[0]
                              for o in outs]}, line=fn.lineno,
                witness='%s called with exactly %s' % (b, sorted(supplied)))

  # ---------------------------------------------------------------- BI-FRAME
  cc = model.func(API, 'converted_call')
  g = pycfg.CFG(cc.node)
  wanted = {'eval': ('eval_in_original_context', ['f', 'args', 'caller_fn_scope']),
            'super': ('super_in_original_context', ['f', 'args', 'caller_fn_scope']),
            'globals': ('globals_in_original_context', ['caller_fn_scope']),
            'locals': ('locals_in_original_context', ['caller_fn_scope'])}
  blt = [n for n in ast.walk(cc.node) if isinstance(n, ast.If) and
         core.norm(n.test) == 'inspect_utils.isbuiltin(f)']
  if len(blt) != 1:
    raise core.AnalysisError('builtin branch of converted_call not found')
  # inside the builtin branch: which call answers each frame-sensitive builtin
  fakeb = ast.FunctionDef(name='_builtin_branch', args=cc.node.args, body=blt[0].body,
                          decorator_list=[], lineno=blt[0].lineno)
  idents = ('eval', 'super', 'globals', 'locals')

  def id_atom(e):
    t = core.norm(e)
    for nm in idents:
      if t == 'f is %s' % nm:
        return 'IS_' + nm
    if t in ('kwargs', 'kwargs is not None'):
      return 'KW'
    return None
  cases = formula.return_cases(fakeb, formula.expanding(fakeb, id_atom))
  for nm, (fn_name, args) in wanted.items():
    only = formula.atom('IS_' + nm)
    for other in idents:
      if other != nm:
        only = only & ~formula.atom('IS_' + other)
    vals = sorted({core.norm(v) if v is not None else 'None'
                   for f_, v in cases if formula.satisfiable(f_ & only)})
    want = 'py_builtins.%s(%s)' % (fn_name, ', '.join(args))
    rep.check(vals == [want], 'BI-FRAME', '%s:dispatch(%s)' % (cc.site, nm),
              '%s must be recognised by identity before the generic overload '
              'and dispatched to %s(%s)' % (nm, fn_name, ', '.join(args)),
              {'answers': vals}, line=blt[0].lineno,
              witness='%s() inside a functionalised loop body' % nm)
  # the user's frame is recognised by `f_locals[<scope name>] is <scope>`: no
  # function of the run-time library may hold the scope object under a name that
  # generated code uses for it, or its own frame is the innermost match (read on
  # the source as written: a helper's frame exists even if its body is trivial)
  import re as _re
  fm_ = model.module('malt/converters/functions.py')
  roots = set()
  for c_ in ast.walk(ast.parse(fm_.src)):
    # the roots handed to the namer for the scope object: 'fscope', 'lscope'
    # (string constants of the functions pass, wherever they are kept)
    if isinstance(c_, ast.Constant) and isinstance(c_.value, str) and _re.match(
        r'^[a-z]{1,3}scope$', c_.value):
      roots.add(c_.value)
  if not roots:
    raise core.AnalysisError('scope-object name roots not found in functions.py')
  pat_ = _re.compile(r'^(%s)(_\d+)?$' % '|'.join(sorted(_re.escape(r_) for r_ in roots)))
  shadows = []
  n_fn = 0
  for rel_ in (API, PYB, 'malt/operators/function_wrappers.py'):
    raw = ast.parse(model.module(rel_).src)
    for f_ in ast.walk(raw):
      if not isinstance(f_, (ast.FunctionDef, ast.AsyncFunctionDef, ast.Lambda)):
        continue
      n_fn += 1
      names_ = {a.arg for a in f_.args.posonlyargs + f_.args.args + f_.args.kwonlyargs}
      if f_.args.vararg:
        names_.add(f_.args.vararg.arg)
      if f_.args.kwarg:
        names_.add(f_.args.kwarg.arg)
      body_ = f_.body if isinstance(f_.body, list) else [f_.body]
      for b_ in body_:
        for x_ in ast.walk(b_):
          if isinstance(x_, ast.Name) and isinstance(x_.ctx, ast.Store):
            names_.add(x_.id)
      for nm_ in sorted(names_):
        if pat_.match(nm_):
          shadows.append('%s:%s:%s' % (rel_, getattr(f_, 'name', '<lambda>'), nm_))
  rep.unit('run-time library functions scanned for scope-named locals', n_fn)
  rep.check(not shadows, 'BI-FRAME', '%s:no-scope-named-local' % API,
            'a function of the run-time library has a parameter / local named like '
            'the scope object of generated code (%s): when it holds that object its '
            'frame is taken for the user\'s frame by eval / locals / globals' %
            sorted(roots), {'shadows': shadows},
            witness='eval("x") in a converted function: NameError, or the '
            'library module\'s globals')
  ff = model.func(PYB, '_find_originating_frame')
  stop_flag, stop_value = None, None
  loops = [n for n in ast.walk(ff.node) if isinstance(n, ast.While)]
  ok = len(loops) == 1
  facts = {}
  if ok:
    lp = loops[0]
    all_p = ff.params(skip_self=False) + [a.arg for a in ff.node.args.kwonlyargs]
    scope_p, flag_ps = all_p[0], all_p[1:]
    facts['loop_test'] = core.norm(lp.test)
    b = pat.match('_F_ is not None', lp.test) or pat.match('_F_', lp.test)
    ok = b is not None and '_F_' in b
    if ok:
      # advance on every iteration: last statement of the body, unconditional
      ok = pat.match('_F_ = _F_.f_back', lp.body[-1], b) is not None
      # (an early `return <frame>` inside the loop is `result = <frame>; break`)
      loop_rets = [x for x in ast.walk(lp) if isinstance(x, ast.Return)]
      brks = [x for x in ast.walk(lp) if isinstance(x, ast.Break)] + loop_rets
      ok = ok and all(x.value is not None and core.norm(x.value) == b['_F_']
                      for x in loop_rets)
      conts = [x for x in ast.walk(lp) if isinstance(x, ast.Continue)]
      facts['breaks'] = len(brks)
      ok = ok and not conts
      match_ifs = [n for n in lp.body if isinstance(n, ast.If)]
      ok = ok and len(match_ifs) == 1
    if ok:
      mt = match_ifs[0]
      facts['match_test'] = core.norm(mt.test)
      ok = pat.match('_F_.f_locals.get(%s.name) is %s' % (scope_p, scope_p),
                     mt.test, b) is not None
      for x in brks:
        gd = None
        for i in ast.walk(mt):
          if isinstance(i, ast.If) and i is not mt and any(
              y is x for st in i.body for y in ast.walk(st)):
            gd = core.norm(i.test)
        # the early exit is controlled by a flag parameter, in either polarity
        if gd in flag_ps:
          stop_flag, stop_value = gd, True
        elif gd is not None and gd.startswith('not ') and gd[4:] in flag_ps:
          stop_flag, stop_value = gd[4:], False
        else:
          ok = False
        if not any(y is x for st in mt.body for y in ast.walk(st)):
          ok = False
      ok = ok and not mt.orelse
      res = [pat.match('_R_ = _F_', st, b) for st in mt.body]
      res = [r for r in res if r]
      ok = ok and len(res) == 1
      if ok:
        rets = [r for r in ast.walk(ff.node) if isinstance(r, ast.Return)
                and not any(r is x for x in loop_rets)]
        ok = len(rets) == 1 and core.norm(rets[0].value) == res[0]['_R_']
  rep.check(ok, 'BI-FRAME', '%s:full-stack-walk' % ff.site,
            'the frame search must visit every frame up to the stack bottom, '
            'match by f_locals[scope.name] is scope, and stop early only at the '
            'first match when `innermost` is requested (matching frames are not '
            'contiguous: operator frames sit in between)', facts,
            line=ff.node.lineno,
            witness='zero-argument super() inside a functionalised for/if body')
  # the local variables of the user's function are spread over its own frame and
  # the frames of the functions generated for the enclosing blocks (a block's
  # frame holds only what the block uses): eval / locals need all of them
  def collects_every_frame(fi):
    """fi walks the whole stack, keeps every frame carrying the scope and
    returns their f_locals merged, outer frames first"""
    ps = fi.params(skip_self=False)
    if not ps:
      return False
    sp = ps[0]
    for lp in [n for n in ast.walk(fi.node) if isinstance(n, ast.While)]:
      b = pat.match('_F_ is not None', lp.test) or pat.match('_F_', lp.test)
      if b is None or '_F_' not in b:
        continue
      if pat.match('_F_ = _F_.f_back', lp.body[-1], b) is None:
        continue
      if any(isinstance(x, (ast.Break, ast.Continue, ast.Return)) for x in ast.walk(lp)):
        continue
      keep = None
      for st in lp.body:
        if isinstance(st, ast.If) and not st.orelse and (
            pat.match('_F_.f_locals.get(%s.name) is %s' % (sp, sp), st.test, b) is not None
            or pat.match('_F_.f_locals.get(%s.name, None) is %s' % (sp, sp), st.test, b)
            is not None):
          for y in st.body:
            m_ = pat.match('_L_.append(_F_)', y, b)
            if m_:
              keep = m_['_L_']
      if keep is None:
        continue
      # merged: for fr in reversed(L): R.update(fr.f_locals) ; return R
      for fr in [n for n in ast.walk(fi.node) if isinstance(n, ast.For)]:
        if core.norm(fr.iter) != 'reversed(%s)' % keep or not isinstance(fr.target, ast.Name):
          continue
        if len(fr.body) != 1:
          continue
        m_ = pat.match('_R_.update(%s.f_locals)' % fr.target.id, fr.body[0])
        if not m_:
          continue
        rets = [r for r in ast.walk(fi.node) if isinstance(r, ast.Return)]
        if len(rets) == 1 and core.norm(rets[0].value) == m_['_R_']:
          return True
      # or a ChainMap over the frames, innermost first
      for r in ast.walk(fi.node):
        if isinstance(r, ast.Return) and r.value is not None and core.norm(r.value) in (
            'collections.ChainMap(*[f.f_locals for f in %s])' % keep,
            'collections.ChainMap(*(f.f_locals for f in %s))' % keep):
          return True
    return False

  collectors = {nm for nm, fi_ in model.module(PYB).functions.items()
                if collects_every_frame(fi_)}

  def is_all_locals(e, fi_):
    e = tpl.expand(fi_, e, e) if not isinstance(e, ast.Call) else e
    return isinstance(e, ast.Call) and isinstance(e.func, ast.Name) and \
        e.func.id in collectors and [core.norm(a) for a in e.args] == ['caller_fn_scope'] \
        and not e.keywords
  lf = model.func(PYB, 'locals_in_original_context')
  lrets = [r for r in ast.walk(lf.node) if isinstance(r, ast.Return)]
  rep.check(bool(lrets) and all(r.value is not None and is_all_locals(r.value, lf)
                                for r in lrets),
            'BI-FRAME', '%s:all-locals' % lf.site,
            'locals() must return the variables of the user\'s function: those of '
            'every frame that carries its scope (the function and the generated '
            'block functions), not of a single frame', {'collectors': sorted(collectors)},
            line=lf.node.lineno,
            witness='def f(x, y, c): (if c: r = eval("x + y")) -- the block frame '
            'holds only what the block mentions')
  for fn_name, want in (('super_in_original_context', 'False'),):
    fi = model.func(PYB, fn_name)
    calls = [c for c in ast.walk(fi.node) if isinstance(c, ast.Call) and
             core.dotted(c.func) == '_find_originating_frame']
    got = None
    if len(calls) == 1 and stop_flag is not None:
      # does this call stop at the first (innermost) match?  The flag value is
      # read through the binding of the call, whatever the flag is called
      from sa import inline
      bound = inline._bind(ff.node, calls[0], False)
      if bound is not None and isinstance(bound.get(stop_flag), ast.Constant) and \
          isinstance(bound[stop_flag].value, bool) and core.norm(
              bound.get(ff.params(skip_self=False)[0])) == 'caller_fn_scope':
        got = str(bound[stop_flag].value == stop_value)
    rep.check(got == want, 'BI-FRAME', '%s:innermost=%s' % (fi.site, want),
              '%s must search with innermost=%s' % (fn_name, want),
              {'found': got}, line=fi.node.lineno)
  # eval: namespaces the caller passed are used as passed; the frame's are the
  # default for *omitted* arguments only (decided by the argument count)
  ef = model.func(PYB, 'eval_in_original_context')
  ep = ef.params(skip_self=False)
  an = ep[1]
  bad = []
  n_sel = 0
  for x in ast.walk(ef.node):
    # truthiness-based defaulting of something taken from args
    if isinstance(x, ast.BoolOp) and any(
        isinstance(n, ast.Name) and (n.id == an or any(
            isinstance(d, ast.AST) and an in core.norm(d)
            for d in (tpl.rdefs(ef.node).reaching(x, n.id) or [])))
        for v in x.values[:-1] for n in ast.walk(v)):
      bad.append(core.norm(x)[:60])
    tests = []
    if isinstance(x, ast.IfExp):
      tests = [x.test]
    elif isinstance(x, ast.If):
      tests = [x.test]
    for t in tests:
      n_sel += 1
      names = {n.id for n in ast.walk(t) if isinstance(n, ast.Name)}
      if an in names and not all(
          isinstance(c, ast.Compare) and core.norm(c.left) == 'len(%s)' % an and
          isinstance(c.comparators[0], ast.Constant) for c in [t]):
        bad.append(core.norm(t)[:60])
  rets = [r for r in core.walk_no_nested(ef.node) if isinstance(r, ast.Return)]
  uses_frame = '.f_globals' in core.norm(ef.node)
  # what is passed to eval for every shape of the argument tuple, evaluated
  # concretely: count 1..3, and each supplied namespace None or not.  Python:
  # omitted / None globals -> the caller's globals; omitted / None locals ->
  # the globals dictionary when one was given, else the caller's locals.
  from sa import pathsym
  by_count = {}
  count_ok = True

  def _sym(e, n_args, nones):
    if isinstance(e, ast.Constant) and e.value is None:
      return ('none',)
    if isinstance(e, ast.IfExp):
      t = _truth(e.test, n_args, nones)
      if t is None:
        return ('other', core.norm(e))
      return _sym(e.body if t else e.orelse, n_args, nones)
    if isinstance(e, ast.Subscript) and core.norm(e.value) == an and isinstance(
        e.slice, ast.Constant) and isinstance(e.slice.value, int):
      k = e.slice.value
      if k >= n_args:
        return ('bad', 'index %d of %d arguments' % (k, n_args))
      return ('none',) if nones.get(k) else ('arg', k)
    if isinstance(e, ast.Attribute) and e.attr == 'f_globals' and \
        core.norm(e.value).startswith('_find_originating_frame('):
      return ('frame', e.attr)
    if isinstance(e, ast.Call) and isinstance(e.func, ast.Name) and e.func.id in collectors \
        and [core.norm(a_) for a_ in e.args] == [ep[2]] and not e.keywords:
      return ('frame', 'f_locals')      # the locals of every frame of the function
    return ('other', core.norm(e))

  def _truth(t, n_args, nones):
    if isinstance(t, ast.BoolOp):
      vs = [_truth(v, n_args, nones) for v in t.values]
      if isinstance(t.op, ast.And):
        return False if any(v is False for v in vs) else (
            True if all(v is True for v in vs) else None)
      return True if any(v is True for v in vs) else (
          False if all(v is False for v in vs) else None)
    if isinstance(t, ast.UnaryOp) and isinstance(t.op, ast.Not):
      v = _truth(t.operand, n_args, nones)
      return None if v is None else (not v)
    if isinstance(t, ast.Compare) and len(t.ops) == 1:
      if core.norm(t.left) == 'len(%s)' % an and isinstance(
          t.comparators[0], ast.Constant):
        k = t.comparators[0].value
        return {ast.Lt: n_args < k, ast.LtE: n_args <= k, ast.Eq: n_args == k,
                ast.Gt: n_args > k, ast.GtE: n_args >= k,
                ast.NotEq: n_args != k}.get(type(t.ops[0]))
      if isinstance(t.ops[0], (ast.Is, ast.IsNot)) and isinstance(
          t.comparators[0], ast.Constant) and t.comparators[0].value is None:
        v = _sym(t.left, n_args, nones)
        if v[0] in ('other', 'bad'):
          return None
        r = v == ('none',)
        return r if isinstance(t.ops[0], ast.Is) else (not r)
    return None

  configs = [(1, {})] + [(2, {1: x}) for x in (False, True)] + [
      (3, {1: x, 2: y}) for x in (False, True) for y in (False, True)]
  all_paths = []
  for r in rets:
    if r.value is not None:
      all_paths += [(c, v) for c, v in pathsym.path_values(ef.node, r, r.value)]
  for n_args, nones in configs:
    label = '%d args%s' % (n_args, ''.join(
        ', args[%d] is None' % k for k, v in sorted(nones.items()) if v))
    taken = {}
    undecided = False
    for conds, val in all_paths:
      # conditions in program order: a path already ruled out by an earlier
      # test never evaluates the later ones
      feasible = True
      for pol, t in conds:
        x = _truth(t, n_args, nones)
        if x is None:
          undecided = True
          feasible = False
          break
        if x != (pol == 'T'):
          feasible = False
          break
      if feasible:
        taken[core.norm(val)] = val
    if undecided or len(taken) != 1:
      by_count[label] = 'paths not decided by the argument shape (%d feasible)' % len(taken)
      count_ok = False
      continue
    call = list(taken.values())[0]
    if not isinstance(call, ast.Call) or core.norm(call.func) != ep[0] or call.keywords:
      by_count[label] = core.norm(call)[:80]
      count_ok = False
      continue
    argv = list(call.args)
    if len(argv) == 1 and isinstance(argv[0], ast.Starred) and isinstance(
        argv[0].value, ast.Tuple):
      argv = list(argv[0].value.elts)
    elif len(argv) == 1 and isinstance(argv[0], ast.Starred) and core.norm(
        argv[0].value) == an:
      argv = [ast.Subscript(value=ast.Name(id=an, ctx=ast.Load()),
                            slice=ast.Constant(i), ctx=ast.Load()) for i in range(n_args)]
    vals = [_sym(a_, n_args, nones) for a_ in argv]
    by_count[label] = [' '.join(map(str, v)) for v in vals]
    g_given = n_args >= 2 and not nones.get(1)
    l_given = n_args >= 3 and not nones.get(2)
    want_g = ('arg', 1) if g_given else ('frame', 'f_globals')
    ok_c = len(vals) in (2, 3) and vals[0] == ('arg', 0) and vals[1] == want_g
    if ok_c:
      lv = vals[2] if len(vals) == 3 else ('none',)
      if l_given:
        ok_c = lv == ('arg', 2)
      elif g_given:
        ok_c = lv in (('none',), ('arg', 1))      # omitted: defaults to the globals
      else:
        ok_c = lv == ('frame', 'f_locals')
    if not ok_c:
      count_ok = False
  rep.check(not bad and uses_frame and count_ok, 'BI-FRAME',
            '%s:namespaces-default-by-count' % ef.site,
            'eval must use the globals / locals the caller passed, whatever their '
            'value (an empty dict is the usual way to isolate an evaluation), and '
            'fall back to the originating frame only for omitted arguments',
            {'value_dependent_defaulting': bad, 'selections': n_sel,
             'passed_by_argument_count': by_count},
            line=ef.node.lineno, witness="eval('SECRET', {}) must raise NameError")
  # zero-argument super: class from the frame's __class__ cell, instance from
  # the frame's first argument (PEP 3135)
  sf = model.func(PYB, 'super_in_original_context')
  fp = sf.params(skip_self=False)
  rets = [r for r in core.walk_no_nested(sf.node) if isinstance(r, ast.Return) and
          isinstance(r.value, ast.Call) and core.norm(r.value.func) == fp[0] and
          len(r.value.args) == 2 and not any(isinstance(a, ast.Starred)
                                              for a in r.value.args)]
  ok = len(rets) == 1
  facts = {}
  if ok:
    fcalls = [c for c in ast.walk(sf.node) if isinstance(c, ast.Call) and
              core.dotted(c.func) == '_find_originating_frame']
    frame = core.norm(fcalls[0]) if fcalls else '?'
    # (that this call searches for the outermost frame is decided above)
    a0 = tpl.xnorm(sf, rets[0].value.args[0], rets[0])
    a1 = tpl.xnorm(sf, rets[0].value.args[1], rets[0])
    facts = {'type_arg': a0, 'self_arg': a1}
    ok = a0 in ("%s.f_locals['__class__']" % frame,
                "%s.f_locals.get('__class__')" % frame) and \
        a1 in ("%s.f_locals[%s.f_code.co_varnames[0]]" % (frame, frame),
               "%s.f_locals.get(%s.f_code.co_varnames[0])" % (frame, frame))
  rep.check(ok, 'BI-FRAME', '%s:class-cell-and-first-argument' % sf.site,
            'zero-argument super() must be completed with the __class__ cell of '
            'the originating frame (the class that lexically defines the method) '
            'and that frame\'s first argument; the run-time type of the receiver '
            'is a different class whenever the method runs on a subclass '
            'instance', facts, line=sf.node.lineno,
            witness='class Leaf(Mid): pass; Leaf().m() where Mid.m calls super().m()')
  # generated scope name == with-as name == FunctionScope.name
  n_t = 0
  for s in tpl.find_sites(model, [FUNCS]):
    for t in s.templates:
      for n in ast.walk(t.tree):
        if isinstance(n, ast.With):
          for it in n.items:
            c = it.context_expr
            if isinstance(c, ast.Call) and core.dotted(c.func) == 'ag__.FunctionScope':
              n_t += 1
              name_ph = core.norm(c.args[1]) if len(c.args) > 1 else None
              as_ph = core.norm(it.optional_vars) if it.optional_vars else None
              v1 = s.kwargs.get(name_ph)
              v2 = s.kwargs.get(as_ph)
              ok = (v1 is not None and v2 is not None and isinstance(v1, ast.Call)
                    and core.dotted(v1.func) == 'ast.Constant' and
                    core.norm(v1.args[0]) == core.norm(v2))
              rep.check(ok, 'BI-FRAME', '%s:scope-name=as-name' % s.fi.site,
                        'the name passed to FunctionScope must be the same '
                        'generated identifier the scope object is bound to',
                        {'name_arg': core.norm(v1) if v1 is not None else None,
                         'as_target': core.norm(v2) if v2 is not None else None},
                        line=s.call.lineno)
        if isinstance(n, ast.Call) and core.dotted(n.func) == 'ag__.with_function_scope':
          n_t += 1
          lam = n.args[0]
          name_ph = core.norm(n.args[1])
          ok = isinstance(lam, ast.Lambda) and len(lam.args.args) == 1
          if ok:
            v1 = s.kwargs.get(name_ph)
            v2 = s.kwargs.get(lam.args.args[0].arg)
            ok = (v1 is not None and v2 is not None and isinstance(v1, ast.Call)
                  and core.dotted(v1.func) == 'ast.Constant' and
                  core.norm(v1.args[0]) == core.norm(v2))
          rep.check(ok, 'BI-FRAME', '%s:lambda-scope-name=param-name' % s.fi.site,
                    'the lambda scope name must equal the thunk parameter name',
                    line=s.call.lineno)
  if n_t < 2:
    raise core.AnalysisError('function scope templates not found')
  fs = model.cls(FW, 'FunctionScope')
  init = fs.methods['__init__']
  ok = any(isinstance(s, ast.Assign) and core.norm(s) == 'self.name = %s' %
           init.params()[1] for s in init.node.body)
  rep.check(ok, 'BI-FRAME', '%s:name-field' % init.site,
            'FunctionScope.name must be the scope name argument', line=init.node.lineno)

  # ---------------------------------------------------------------- dependencies
  rep.depends('C13', ['CALL-PARTIAL'],
              'a partial of a substituted builtin is unwrapped by the call wrapper '
              'before the builtin branch sees it')
  rep.depends('C13', ['CALL-FAITHFUL'],
              'the arguments of a builtin call reach its substitute through the tuple / dict built by call_trees and forwarded by converted_call')
  rep.depends('C13', ['CALL-POLICY'],
              'the context-sensitive builtins are served by the builtin branch of '
              'converted_call: every earlier exit of the policy chain runs them in '
              'the wrapper frame instead')


def _check_forward(b, args, kws, pairs, supplied, ov_args, assume=None):
  assume = assume or {}
  """args/kws: evaluated arguments of the terminal builtin call."""
  spec = SPECS[b]
  fixed = [s for s in spec if s[1] not in ('VP', 'VK')]
  byname = {p: s for p, s in pairs}
  # positional slots
  slot = 0
  seen = set()
  for val in args:
    if val[0] == 'star':
      continue
    while slot < len(spec) and spec[slot][1] in ('VP',):
      slot += 1
    if slot >= len(fixed) and not any(s[1] == 'VP' for s in spec):
      return 'too many positional arguments forwarded'
    s = None
    # slot-th fixed positional-capable parameter
    cand = [x for x in fixed if x[1] in ('P', 'PK')]
    if slot < len(cand):
      s = cand[slot]
    slot += 1
    if s is None:
      if any(x[1] == 'VP' for x in spec) and val[0] == 'sym':
        continue
      return 'extra positional argument %s' % (val,)
    want_param = [p for p, sp in pairs if sp is s]
    wp = want_param[0] if want_param else None
    if val[0] == 'sym':
      if val[1] != wp:
        return 'parameter %s forwarded in the positional slot of %s' % (val[1], s[0])
      seen.add(wp)
    elif val[0] == 'const':
      if wp in supplied:
        return 'supplied %s replaced by constant %r' % (wp, val[1])
      if s[2] is REQ or s[2] is None or repr(val[1]) != s[2]:
        return 'omitted %s forwarded as %r (builtin default: %s)' % (
            s[0], val[1], s[2])
    elif val[0] == 'UNSPEC':
      return 'sentinel forwarded to the builtin in slot %s' % s[0]
    else:
      return 'slot %s receives %s' % (s[0], val[1])
  for k, val in kws:
    if k is None:
      continue
    s = [x for x in fixed if x[0] == k]
    if not s:
      return 'unknown keyword %s forwarded' % k
    s = s[0]
    if s[1] == 'P':
      return 'positional-only %s forwarded by keyword' % k
    wp = [p for p, sp in pairs if sp is s]
    wp = wp[0] if wp else None
    if val[0] == 'sym':
      if val[1] != wp:
        return 'parameter %s forwarded as keyword %s' % (val[1], k)
      seen.add(wp)
    elif val[0] == 'const':
      if wp in supplied:
        # a boolean flag split on its truthiness may be forwarded as True
        if not (s[2] == 'False' and val[1] is True and assume.get(wp) == 'truthy'):
          return 'supplied %s replaced by constant %r' % (wp, val[1])
        seen.add(wp)
      elif s[2] is None or s[2] is REQ or repr(val[1]) != s[2]:
        return 'omitted %s forwarded as %r' % (k, val[1])
    elif val[0] == 'UNSPEC':
      return 'sentinel forwarded to the builtin as %s' % k
    else:
      return 'keyword %s receives %s' % (k, val[1])
  for p, s in pairs:
    if p in supplied and p not in seen:
      if s[2] == 'False' and assume.get(p) == 'falsy':
        continue   # a falsy boolean flag equals the builtin's default
      return 'supplied argument %s is not forwarded' % p
  # keyword-only parameters must not be passed positionally (checked by slot
  # logic: only P/PK are candidates)
  return None
