"""C20 — conversion options survive embedding in generated code and key the caches.

The value space is finite (1024 values); the structural facts below imply the
statement for all of them:
 OPT-FIELDS    fields set in __init__ == elements of as_tuple(); as_tuple/eq/hash
               read nothing else; no method but __init__ assigns to self
 OPT-EQHASH    __eq__ compares all fields of self with the same fields of other;
               __hash__ is hash() of an expression over a subset of those fields
 OPT-NORM      optional_features is stored as a frozenset; None and a single
               Feature are normalised first
 OPT-TOAST     one constructor keyword per __init__ parameter, each fed from the
               same-named field; feature list renders `ag__.<str(v)>` for each
               element as a parenthesised, comma separated tuple; ag__ exports
               ConversionOptions / Feature; the STD shortcut is taken only under a
               test over *all* fields and STD is bound to the same object
 OPT-CALLOPTS  call_options(): recursive<-recursive, user_requested<-False,
               internal_convert_user_code<-recursive, optional_features<-same
 OPT-USES      uses(f) == (ALL in features) or (f in features)
 OPT-CALLEE    FunctionScope stores options.call_options() on every path;
               function scopes get the user's options at level 2, call options below
"""
import ast

from sa import core
from sa import facts as repo_facts
from sa import formula
from sa import pathsym
from sa import pycfg
from sa import tpl

CONV = 'malt/core/converter.py'
FW = 'malt/operators/function_wrappers.py'
API = 'malt/impl/api.py'
FUNCS = 'malt/converters/functions.py'


def self_fields(node, selfname='self'):
  out = set()
  for n in ast.walk(node):
    if isinstance(n, ast.Attribute) and isinstance(n.value, ast.Name) and \
        n.value.id == selfname and isinstance(n.ctx, ast.Load):
      out.add(n.attr)
  return out


def check(model, rep, tier):
  rep.not_decided = 'nothing of the statement beyond these clauses (finite space)'
  rep.touch(CONV, FW, API, FUNCS)
  cls = model.cls(CONV, 'ConversionOptions')
  mod = model.module(CONV)
  init = cls.methods.get('__init__')
  as_tuple = cls.methods.get('as_tuple')
  eq = cls.methods.get('__eq__')
  hsh = cls.methods.get('__hash__')
  for nm, f in (('__init__', init), ('__eq__', eq), ('__hash__', hsh)):
    if f is None:
      raise core.AnalysisError('ConversionOptions.%s not found' % nm)

  rep.rule('OPT-FIELDS', 'fields set in __init__ == elements of the value tuple; '
           'value methods read only those; only __init__ assigns to self', floor=3)
  rep.rule('OPT-EQHASH', 'eq covers every field on both operands; hash is a '
           'function of a subset of the compared fields', floor=2)
  rep.rule('OPT-NORM', 'optional_features normalised to a frozenset', floor=3)
  rep.rule('OPT-TOAST', 'source form round-trips: keywords = parameters, each '
           'from the same field; feature list; exports; STD shortcut', floor=8)
  rep.rule('OPT-CALLOPTS', 'callee options field flow', floor=4)
  rep.rule('OPT-USES', 'uses(f) == ALL in features or f in features', floor=1)
  rep.rule('OPT-CALLEE', 'FunctionScope / function scope options', floor=3)

  params = init.params()
  fields = set()
  for n in ast.walk(init.node):
    if isinstance(n, ast.Assign):
      for t in n.targets:
        if isinstance(t, ast.Attribute) and isinstance(t.value, ast.Name) and \
            t.value.id == 'self':
          fields.add(t.attr)

  # ---------------------------------------------------------------- OPT-FIELDS
  def xrets(fn):
    """returned expressions of fn with local names replaced by their definitions."""
    out = []
    for r in ast.walk(fn.node):
      if isinstance(r, ast.Return) and r.value is not None:
        out.append(tpl.expand(fn, r.value, r))
    return out

  def tuple_fields(fn, depth=0):
    """fields an expression-valued method's result depends on (self.X, via as_tuple)."""
    out = set()
    for v in xrets(fn):
      out |= expr_fields(v, 'self')
    return out

  def expr_fields(e, who):
    out = set()
    for n in ast.walk(e):
      if isinstance(n, ast.Attribute) and isinstance(n.value, ast.Name) and \
          n.value.id == who and isinstance(n.ctx, ast.Load):
        if as_tuple is not None and n.attr == 'as_tuple':
          out |= tuple_fields(as_tuple)
        elif n.attr in cls.methods:
          pass
        else:
          out.add(n.attr)
    return out

  if as_tuple is not None:
    tf = tuple_fields(as_tuple)
  else:
    tf = expr_fields(eq.node, 'self')
  extra = fields - set(params)
  if extra:
    rep.note('attributes set in __init__ that are not options: %s' % sorted(extra))
  fields = set(params)
  rep.check(tf == fields, 'OPT-FIELDS', '%s:value-tuple' % cls.site,
            'the value tuple does not contain exactly the fields __init__ sets: '
            'two options differing in a missing field would compare equal and '
            'share cache entries',
            {'init_fields': sorted(fields), 'tuple_fields': sorted(tf)},
            line=(as_tuple or eq).node.lineno,
            witness='options differing only in %s' % sorted(fields ^ tf))
  rep.check(fields <= (fields | extra) and all(
      any(isinstance(n, ast.Assign) and any(core.dotted(t) == 'self.' + p_
                                            for t in n.targets)
          for n in ast.walk(init.node)) for p_ in params), 'OPT-FIELDS',
            '%s:params-are-stored' % cls.site,
            'an __init__ parameter is not stored in the same-named field',
            {'params': params}, line=init.node.lineno)
  # every field enters the compared value as itself (a frozenset compares by
  # content; a tuple built from it compares by iteration order)
  src_fn = as_tuple or eq
  bad_wrap = []
  for r in (ast.Expr(value=v) for v in xrets(src_fn)):
    par = {b: a for a in ast.walk(r) for b in ast.iter_child_nodes(a)}
    for n in ast.walk(r.value):
      if isinstance(n, ast.Attribute) and isinstance(n.value, ast.Name) and \
          n.value.id == 'self' and n.attr in fields:
        x = n
        while par.get(x) is not None and par[x] is not r:
          y = par[x]
          ok_ = isinstance(y, ast.Tuple) or (isinstance(y, ast.BinOp) and isinstance(
              y.op, ast.Add)) or (isinstance(y, ast.Call) and core.dotted(y.func) in (
                  'frozenset',) and len(y.args) == 1 and y.args[0] is x) or \
              isinstance(y, ast.Compare)
          if not ok_:
            bad_wrap.append('%s via %s' % (n.attr, core.norm(y)[:50]))
            break
          x = y
  rep.check(not bad_wrap, 'OPT-FIELDS', '%s:fields-compared-as-themselves' % cls.site,
            'a field enters the compared / hashed value through an expression that '
            'does not preserve equality of the field (e.g. tuple(frozenset) depends '
            'on iteration order, len() forgets the members)', {'wrapped': bad_wrap},
            line=src_fn.node.lineno,
            witness='the same feature set spelled in two orders')
  # only __init__ assigns to self (value semantics: no memo, no mutation)
  writers = []
  for nm, f in cls.methods.items():
    if nm == '__init__':
      continue
    for n in ast.walk(f.node):
      ts = []
      if isinstance(n, ast.Assign):
        ts = n.targets
      elif isinstance(n, (ast.AugAssign, ast.AnnAssign)):
        ts = [n.target]
      for t in ts:
        for x in ast.walk(t):
          if isinstance(x, ast.Attribute) and isinstance(x.value, ast.Name) and \
              x.value.id == 'self' and isinstance(x.ctx, ast.Store):
            writers.append('%s: %s' % (nm, core.norm(n)))
      if isinstance(n, ast.Call) and core.dotted(n.func) in ('setattr',) and n.args \
          and isinstance(n.args[0], ast.Name) and n.args[0].id == 'self':
        writers.append('%s: %s' % (nm, core.norm(n)))
  rep.check(not writers, 'OPT-FIELDS', '%s:immutable-after-init' % cls.site,
            'a method other than __init__ stores into self: cached or mutated '
            'state can make the value tuple stale (e.g. a memoised tuple copied '
            'by call_options)', {'writers': writers},
            witness='hash the parent first, then derive call_options() by copy')

  # ---------------------------------------------------------------- OPT-EQHASH
  other = [a for a in eq.params()][0] if eq.params() else 'other'
  cmps = [n for v in xrets(eq) for n in ast.walk(v) if isinstance(n, ast.Compare)]
  eq_self = set()
  eq_other = set()
  well = bool(cmps)
  for c in cmps:
    if len(c.ops) != 1 or not isinstance(c.ops[0], ast.Eq):
      well = False
    eq_self |= expr_fields(c, 'self')
    eq_other |= expr_fields(c, other)
  rets = [r for r in ast.walk(eq.node) if isinstance(r, ast.Return)]
  rep.check(well and eq_self == fields and eq_other == fields and len(rets) >= 1,
            'OPT-EQHASH', '%s:eq-covers-all-fields' % eq.site,
            '__eq__ does not compare every field of both operands',
            {'self_fields': sorted(eq_self), 'other_fields': sorted(eq_other),
             'fields': sorted(fields)}, line=eq.node.lineno,
            witness='two option values differing only in an uncompared field '
            'alias in the conversion cache')
  hrets = [r for r in ast.walk(hsh.node) if isinstance(r, ast.Return)]
  hok = bool(hrets) and all(r.value is not None for r in hrets)
  hfields = set()
  for v in xrets(hsh):
    if not (isinstance(v, ast.Call) and isinstance(v.func, ast.Name) and
            v.func.id == 'hash' and len(v.args) == 1):
      hok = False
      continue
    hfields |= expr_fields(v.args[0], 'self')
    for n in ast.walk(v.args[0]):
      if isinstance(n, ast.Call) and isinstance(n.func, ast.Name) and \
          n.func.id in ('id', 'object', 'repr'):
        hok = False
      if isinstance(n, ast.Name) and n.id not in ('self', 'hash', 'tuple',
                                                  'frozenset'):
        hok = False
  rep.check(hok and hfields <= eq_self and bool(hfields), 'OPT-EQHASH',
            '%s:hash-consistent-with-eq' % hsh.site,
            '__hash__ is not hash() of an expression over compared fields only: '
            'equal options could hash differently',
            {'hash_fields': sorted(hfields), 'eq_fields': sorted(eq_self)},
            line=hsh.node.lineno)

  # ---------------------------------------------------------------- OPT-NORM
  g = pycfg.CFG(init.node)
  stores = [n for n in ast.walk(init.node) if isinstance(n, ast.Assign) and any(
      isinstance(t, ast.Attribute) and core.dotted(t) == 'self.optional_features'
      for t in n.targets)]
  rd = tpl.rdefs(init.node)

  def is_frozenset_value(e, at, depth=0):
    if isinstance(e, ast.Call) and isinstance(e.func, ast.Name) and \
        e.func.id == 'frozenset':
      return True
    if isinstance(e, ast.Name) and depth < 4:
      ds = rd.reaching(at, e.id)
      return bool(ds) and all(not isinstance(d, tuple) and is_frozenset_value(
          d, d, depth + 1) for d in ds)
    return False

  rep.check(len(stores) >= 1 and all(is_frozenset_value(st.value, st.value)
                                     for st in stores),
            'OPT-NORM', '%s:frozenset' % init.site,
            'optional_features must be stored as a frozenset (hashable, order '
            'and spelling independent)', {'stores': [core.norm(s) for s in stores]},
            line=init.node.lineno,
            witness='features given as (A, B) vs (B, A) vs {A, B} compare unequal')
  tests = [core.norm(n.test) for n in ast.walk(init.node) if isinstance(n, ast.If)]
  # what is stored, path by path, in terms of the parameter
  pf = 'optional_features'
  none_ok = single_ok = other_ok = False
  seen_cases = []
  if stores:
    none_ok = single_ok = other_ok = True
    got = {'NONE': False, 'SINGLE': False, 'OTHER': False}
    for conds, val in [pv for st in stores
                       for pv in pathsym.path_values(init.node, st, st.value)]:
      case = None
      consistent = True
      facts_ = {}
      for pol, t in conds:
        tt = core.norm(t)
        if tt == '%s is None' % pf:
          facts_['NONE'] = pol == 'T'
        elif tt == '%s is not None' % pf:
          facts_['NONE'] = pol == 'F'
        elif tt == 'isinstance(%s, Feature)' % pf:
          facts_['SINGLE'] = pol == 'T'
      if facts_.get('NONE'):
        case = 'NONE'
      elif facts_.get('SINGLE'):
        case = 'SINGLE'
      elif facts_.get('NONE') is False and facts_.get('SINGLE') is False:
        case = 'OTHER'
      v = core.norm(val)
      seen_cases.append((case, v))
      if case == 'NONE':
        got['NONE'] = True
        none_ok = none_ok and v in ('frozenset(())', 'frozenset()', 'frozenset([])')
      elif case == 'SINGLE':
        got['SINGLE'] = True
        single_ok = single_ok and v in ('frozenset((%s,))' % pf, 'frozenset([%s])' % pf,
                                        'frozenset({%s})' % pf)
      elif case == 'OTHER':
        got['OTHER'] = True
        other_ok = other_ok and v == 'frozenset(%s)' % pf
      else:
        none_ok = single_ok = False
    none_ok = none_ok and got['NONE']
    single_ok = single_ok and got['SINGLE'] and other_ok and got['OTHER']
  tests = seen_cases
  rep.check(none_ok, 'OPT-NORM', '%s:none-is-empty' % init.site,
            'None is not normalised to an empty collection before frozenset()',
            {'tests': tests}, line=init.node.lineno,
            witness='ConversionOptions(optional_features=None)')
  rep.check(single_ok, 'OPT-NORM', '%s:single-feature-wrapped' % init.site,
            'a single Feature is not wrapped before frozenset() (an Enum member '
            'is not iterable)', {'tests': tests}, line=init.node.lineno,
            witness='ConversionOptions(optional_features=Feature.LISTS)')

  # ---------------------------------------------------------------- OPT-TOAST
  to_ast = cls.methods.get('to_ast')
  if to_ast is None:
    raise core.AnalysisError('ConversionOptions.to_ast not found')
  sites = [s for s in tpl.find_sites(model, [CONV])
           if s.fi.node is to_ast.node or (s.fi.outer is not None and
                                           s.fi.outer.node is to_ast.node)]
  main = [s for s in sites if s.api in ('replace', 'replace_as_expression')]
  if len(main) != 1 or len(main[0].templates) != 1:
    raise core.AnalysisError('to_ast: expected exactly one resolvable template')
  s = main[0]
  t = s.templates[0]
  ctor = [n for n in ast.walk(t.tree) if isinstance(n, ast.Call)]
  ctor = ctor[0] if ctor else None
  ok = ctor is not None and core.dotted(ctor.func) == 'ag__.ConversionOptions'
  rep.check(ok, 'OPT-TOAST', '%s:constructor' % to_ast.site,
            'the embedded source form must call ag__.ConversionOptions',
            {'template': t.text.strip()}, line=s.call.lineno)
  if ok:
    kws = {k.arg: k.value for k in ctor.keywords}
    rep.check(set(kws) == set(params) and not ctor.args, 'OPT-TOAST',
              '%s:keywords=parameters' % to_ast.site,
              'the embedded constructor call does not pass exactly one keyword '
              'per __init__ parameter',
              {'keywords': sorted(kws), 'params': params}, line=s.call.lineno,
              witness='an option value whose dropped field differs from the '
              'constructor default')
    for p in params:
      v = kws.get(p)
      if v is None:
        continue
      ph = v.id if isinstance(v, ast.Name) else None
      src = s.kwargs.get(ph)
      if isinstance(src, ast.Name):
        src = tpl.expand(to_ast, src, s.call)      # a local holding the value
      fs = expr_fields(src, 'self') if src is not None else set()
      rep.check(ph is not None and src is not None and fs == {p}, 'OPT-TOAST',
                '%s:keyword(%s)' % (to_ast.site, p),
                'keyword %s of the embedded constructor is not fed from '
                'self.%s alone' % (p, p),
                {'placeholder': ph, 'value': core.norm(src) if src is not None
                 else None, 'fields_used': sorted(fs)}, line=s.call.lineno,
                witness='options with %s different from the field it is fed from' % p)
      # scalar fields: str(self.f) parsed as an expression
      if src is not None and p != 'optional_features':
        okv = (isinstance(src, ast.Call) and core.dotted(src.func) in (
            'parser.parse_expression',) and len(src.args) == 1 and
               isinstance(src.args[0], ast.Call) and
               core.dotted(src.args[0].func) in ('str', 'repr') and
               core.dotted(src.args[0].args[0]) == 'self.' + p)
        rep.check(okv, 'OPT-TOAST', '%s:scalar(%s)' % (to_ast.site, p),
                  'boolean field must be embedded as the expression str(self.%s)' % p,
                  {'value': core.norm(src)}, line=s.call.lineno)
  # feature list rendering: evaluate the string operations on symbolic elements
  rendered_ok = False
  facts = {}
  used = s.kwargs.get('optional_features_val')
  fexpr = None
  coll = 'self.optional_features'
  if isinstance(used, ast.Call) and isinstance(used.func, ast.Name):
    # a helper nested in to_ast: its result with the parameter bound to the field
    lof = [f for f in core._nested_defs(to_ast.node) if f.name == used.func.id]
    outer = to_ast
    if not lof and used.func.id in to_ast.module.functions:
      lof = [to_ast.module.functions[used.func.id].node]     # a module-level helper
      outer = None
    if lof and len(used.args) == 1 and not used.keywords and \
        core.norm(used.args[0]) == coll and len(lof[0].args.args) == 1:
      lf = lof[0]
      ret = [r for r in ast.walk(lf) if isinstance(r, ast.Return)]
      pname = lf.args.args[0].arg
      if len(ret) == 1 and lf.body[-1] is ret[0]:
        ds = tpl.rdefs(lf).reaching(ret[0].value, pname)
        facts['definitions_of_%s_at_return' % pname] = [
            d[0] if isinstance(d, tuple) else core.norm(d)[:40] for d in (ds or [])]
        stores_p = any(isinstance(x, ast.Name) and x.id == pname and
                       isinstance(x.ctx, (ast.Store, ast.Del)) for x in ast.walk(lf))
        if ds is not None and len(ds) == 1 and isinstance(ds[0], tuple) and \
            ds[0][0] == 'param' and not stores_p:
          hfi = core.FuncInfo(to_ast.module, lf, outer=outer) if outer is not None \
              else to_ast.module.functions[used.func.id]
          # locals of the helper that merely name a sub-expression are resolved
          fexpr = tpl.expand(hfi, ret[0].value, ret[0])
          coll = pname
  elif used is not None:
    fexpr = tpl.expand(to_ast, used, s.call)
  if isinstance(fexpr, ast.Call) and core.dotted(fexpr.func) == 'parser.parse_expression' \
      and len(fexpr.args) == 1:
    results = {}
    for k in (0, 1, 2, 3):
      elems = ['Feature.F%d' % i for i in range(k)]
      try:
        txt = _render(fexpr.args[0], coll, elems)
      except core.AnalysisError as e:
        txt = None
        facts['error'] = str(e)
      results[k] = txt
    facts['rendered'] = results
    rendered_ok = all(_denotes_features(results[k], k) for k in results)
  rep.check(rendered_ok, 'OPT-TOAST', '%s:feature-list' % to_ast.site,
            'the feature set does not render to an expression that evaluates '
            'to the same features (ag__.Feature.X, comma separated, any count)',
            facts, line=to_ast.node.lineno,
            witness='feature sets of size 0, 1, 2 or 3')
  # exports
  xl = repo_facts.extra_locals(model)
  gel = xl['func']
  exported = xl['explicit']
  for nm, want in (('ConversionOptions', 'converter.ConversionOptions'),
                   ('Feature', 'converter.Feature'),
                   ('STD', 'converter.STANDARD_OPTIONS')):
    rep.check(exported.get(nm) == want, 'OPT-TOAST',
              '%s:export(%s)' % (gel.site, nm),
              'ag__.%s must be bound to %s for the embedded form to evaluate '
              'back' % (nm, want), {'bound_to': exported.get(nm)},
              line=gel.node.lineno)
  # STD shortcut
  std_sites = [x for x in sites if x.api == 'parse_expression' and any(
      'STD' in tt.text for tt in x.templates)]
  for x in std_sites:
    # guard of the return
    guard = None
    for n in ast.walk(to_ast.node):
      if isinstance(n, ast.If) and any(c is x.call for b in n.body for c in ast.walk(b)):
        guard = n.test
    gf = set()
    okg = False
    if guard is not None:
      if isinstance(guard, ast.Compare) and len(guard.ops) == 1 and isinstance(
          guard.ops[0], ast.Eq) and core.dotted(guard.left) == 'self' and \
          core.dotted(guard.comparators[0]) == 'STANDARD_OPTIONS':
        okg = True
        gf = set(fields)
      else:
        gf = expr_fields(guard, 'self')
        okg = gf == fields
    rep.check(okg, 'OPT-TOAST', '%s:STD-guard' % to_ast.site,
              'the ag__.STD shortcut is taken under a test that does not '
              'involve every field: a non-standard value serialises as STD',
              {'guard': core.norm(guard) if guard is not None else None,
               'fields_tested': sorted(gf), 'fields': sorted(fields)},
              line=x.call.lineno,
              witness='options equal to STANDARD_OPTIONS except in %s' %
              sorted(fields - gf))
  rep.check(len(std_sites) <= 1, 'OPT-TOAST', '%s:STD-single' % to_ast.site,
            'more than one STD shortcut', {})
  # STANDARD_OPTIONS definition is a constructor call (the value STD denotes)
  so = mod.assigns.get('STANDARD_OPTIONS')
  rep.check(isinstance(so, ast.Call) and core.dotted(so.func) == 'ConversionOptions',
            'OPT-TOAST', '%s:STANDARD_OPTIONS' % CONV,
            'STANDARD_OPTIONS must be a ConversionOptions value',
            {'value': core.norm(so) if so is not None else None})

  # ---------------------------------------------------------------- OPT-CALLOPTS
  co = cls.methods.get('call_options')
  if co is None:
    raise core.AnalysisError('ConversionOptions.call_options not found')
  flow = _field_flow(co, params)
  want = {'recursive': 'self.recursive', 'user_requested': 'False',
          'internal_convert_user_code': 'self.recursive',
          'optional_features': 'self.optional_features'}
  for p in params:
    rep.check(flow.get(p) == want.get(p), 'OPT-CALLOPTS',
              '%s:%s' % (co.site, p),
              'callee options: %s must be %s' % (p, want.get(p)),
              {'flows_from': flow.get(p)}, line=co.node.lineno,
              witness='options with recursive != internal_convert_user_code, or '
              'user_requested=True')

  # ---------------------------------------------------------------- OPT-USES
  uses = cls.methods.get('uses')
  if uses is None:
    raise core.AnalysisError('ConversionOptions.uses not found')
  fparam = uses.params()[0]
  rets = [r for r in ast.walk(uses.node) if isinstance(r, ast.Return)]

  def atom_of(e):
    if isinstance(e, ast.Compare) and len(e.ops) == 1 and isinstance(
        e.ops[0], ast.In) and core.dotted(e.comparators[0]) == 'self.optional_features':
      l = core.dotted(e.left)
      if l == 'Feature.ALL':
        return 'ALL_in'
      if l == fparam:
        return 'f_in'
    return None

  f = formula.result_formula(uses.node, formula.expanding(uses.node, atom_of))
  okk, cex = formula.equivalent(f, formula.atom('ALL_in') | formula.atom('f_in'))
  rep.check(okk, 'OPT-USES', '%s' % uses.site,
            'uses(feature) is not equivalent to (ALL in features) or (feature '
            'in features)', {'counterexample': cex,
                             'returns': [core.norm(r) for r in rets]},
            line=uses.node.lineno)

  # ---------------------------------------------------------------- OPT-CALLEE
  fs = model.cls(FW, 'FunctionScope')
  finit = fs.methods['__init__']
  g = pycfg.CFG(finit.node)
  good = []
  bad = []
  for n in ast.walk(finit.node):
    if isinstance(n, ast.Assign) and any(core.dotted(t) == 'self.callopts'
                                         for t in n.targets):
      v = n.value
      if isinstance(v, ast.Call) and core.dotted(v.func) == 'options.call_options' \
          and not v.args:
        good.append(n)
      else:
        bad.append(n)
  w = {}
  for i, (k, a) in enumerate(g.nodes):
    if a in good:
      w[i] = 1
  rng = g.count_range(w, skip_labels=())
  rep.check(not bad and rng == (1, 1), 'OPT-CALLEE', '%s:callopts' % finit.site,
            'FunctionScope.callopts must be options.call_options() on every '
            'path (callees drop user_requested and convert user code exactly '
            'when recursive)', {'paths_min_max': rng,
                                'other_assignments': [core.norm(b) for b in bad]},
            line=finit.node.lineno,
            witness='user_requested=False, internal_convert_user_code != recursive')
  # "top level" is read off the depth of the _Function state stack: every frame a
  # handler of the functions pass enters must be left on every path, or a later
  # function is taken for a nested one and gets the callee options
  from sa import rules_trav
  rep.rule('OPT-FRAME', 'the state stack that decides "top level" is balanced', floor=1)
  rules_trav.state_pairing(model, rep, 'OPT-FRAME', [FUNCS])
  for fi_ in model.module(FUNCS).all_functions():
    for w_ in core.walk_no_nested(fi_.node):
      if isinstance(w_, ast.With) and any(
          core.norm(it_.context_expr).startswith('self.state[') for it_ in w_.items):
        # entered by `with`: left on every path by construction
        rep.hold('OPT-FRAME', '%s:with(%s)' % (fi_.site, core.norm(
            w_.items[0].context_expr)), {'form': 'with'})
  ft = model.cls(FUNCS, 'FunctionTransformer')
  fso = ft.methods.get('_function_scope_options')
  callee_txt = 'self._function_scope_options'
  if fso is None:
    # the same function kept at module level (it reads nothing but its arguments)
    fso = model.module(FUNCS).functions.get('_function_scope_options')
    callee_txt = '_function_scope_options'
  if fso is not None:
    # parameters by what the callers pass: the user's options (when they are not
    # read off self), and the function's state object or its nesting level
    calls_fso = [c for m_ in ft.methods.values() for c in ast.walk(m_.node)
                 if isinstance(c, ast.Call) and core.norm(c.func) == callee_txt]
    from sa import inline as _inl
    roles = {}
    for c in calls_fso:
      b_ = _inl._bind(fso.node, c, fso.cls is not None) or {}
      for k_, v_ in b_.items():
        roles.setdefault(k_, set()).add(core.norm(v_))
    opt_p = [k_ for k_, vs in roles.items() if vs == {'self.ctx.user.options'}]
    USER_OPTS = opt_p[0] if opt_p else 'self.ctx.user.options'
    fp_ = [k_ for k_ in (fso.params() or ['fn_scope']) if k_ not in opt_p][0]
    passed = sorted(roles.get(fp_, []))
    lv_ = fp_ if passed and all(a.endswith('.level') for a in passed) else fp_ + '.level'

    def lvl_atom(e):
      t = core.norm(e)
      if t in ('%s == 2' % lv_, '%s <= 2' % lv_, '%s < 3' % lv_):
        return 'TOP'
      return None

    def xv(v):
      return tpl.xnorm(fso, v, v) if v is not None else None
    cases = formula.return_cases(fso.node, formula.expanding(fso.node, lvl_atom))
    TOPA = formula.atom('TOP')
    top_vals = {xv(v) for f, v in cases if formula.satisfiable(f & TOPA)}
    deep_vals = {xv(v) for f, v in cases if formula.satisfiable(f & ~TOPA)}
    lvl2, deeper = sorted(map(str, top_vals)), sorted(map(str, deep_vals))
    rep.check(top_vals == {USER_OPTS} and
              deep_vals == {USER_OPTS + '.call_options()'}, 'OPT-CALLEE',
              '%s' % fso.site,
              'top-level function scope must get the user options, nested ones '
              'the call options', {'level2': lvl2, 'nested': deeper},
              line=fso.node.lineno)
  # both templates embed the options via to_ast()
  n_embed = 0
  for st in tpl.find_sites(model, [FUNCS]):
    v = st.kwargs.get('options')
    if v is not None:
      n_embed += 1
      v = tpl.expand(st.fi, v, st.call)      # through a local that names it
      okv = isinstance(v, ast.Call) and isinstance(v.func, ast.Attribute) and \
          v.func.attr == 'to_ast' and isinstance(v.func.value, ast.Call) and \
          core.norm(v.func.value.func) == callee_txt and \
          len(v.func.value.args) in (1, 2)
      if fso is None:
        # the choice written out at the embedding site: the same two cases
        okv = False
        if isinstance(v, ast.Call) and isinstance(v.func, ast.Attribute) and \
            v.func.attr == 'to_ast' and not v.args:
          def lvl_atom2(e):
            t = core.norm(e)
            if t.endswith('.level == 2') or t.endswith('.level <= 2') or t.endswith(
                '.level < 3'):
              return 'TOP'
            return None
          TOP2 = formula.atom('TOP')
          cs_ = formula.value_cases(st.fi.node, v.func.value, st.call, lvl_atom2)
          tv_ = {core.norm(x) for f_, x in cs_ if formula.satisfiable(f_ & TOP2)}
          dv_ = {core.norm(x) for f_, x in cs_ if formula.satisfiable(f_ & ~TOP2)}
          # (a handler that has already left for nested functions has no
          # nested case at this point)
          okv = tv_ == {'self.ctx.user.options'} and dv_ <= {
              'self.ctx.user.options.call_options()'}
      rep.check(okv,
                'OPT-CALLEE', '%s:options-embedded' % st.fi.site,
                'the function scope template must embed '
                '_function_scope_options(fn_scope).to_ast()',
                {'value': core.norm(v)}, line=st.call.lineno)
  rep.unit('option-embedding templates', n_embed)
  rep.unit('fields', len(fields))


def _dict_value(stmts, name):
  """{key: value expr} held by the local `name` at the end of the straight-line
  block `stmts` (dict displays / dict(k=v) / .update / item stores with constant
  keys); None when anything else touches a dictionary involved."""
  env = {}

  def lit(e):
    if isinstance(e, ast.Dict) and all(isinstance(k, ast.Constant) and isinstance(
        k.value, str) for k in e.keys):
      return {k.value: v for k, v in zip(e.keys, e.values)}
    if isinstance(e, ast.Call) and core.dotted(e.func) == 'dict' and all(
        k.arg is not None for k in e.keywords) and len(e.args) <= 1:
      base = {}
      if e.args:
        base = lit(e.args[0])
        if base is None:
          return None
        base = dict(base)
      base.update({k.arg: k.value for k in e.keywords})
      return base
    if isinstance(e, ast.Name) and e.id in env and env[e.id] is not None:
      return dict(env[e.id])
    return None

  for st in stmts:
    if isinstance(st, ast.Expr) and isinstance(st.value, ast.Constant):
      continue
    if isinstance(st, ast.Return):
      break
    if isinstance(st, ast.Assign) and len(st.targets) == 1 and isinstance(
        st.targets[0], ast.Name):
      env[st.targets[0].id] = lit(st.value)
      continue
    if isinstance(st, ast.Assign) and len(st.targets) == 1 and isinstance(
        st.targets[0], ast.Subscript) and isinstance(st.targets[0].value, ast.Name) and \
        isinstance(st.targets[0].slice, ast.Constant) and env.get(
            st.targets[0].value.id) is not None:
      env[st.targets[0].value.id][st.targets[0].slice.value] = st.value
      continue
    if isinstance(st, ast.Expr) and isinstance(st.value, ast.Call) and isinstance(
        st.value.func, ast.Attribute) and st.value.func.attr == 'update' and isinstance(
            st.value.func.value, ast.Name) and env.get(st.value.func.value.id) is not None:
      c = st.value
      upd = {}
      if c.args:
        upd = lit(c.args[0]) if len(c.args) == 1 else None
      if upd is None or any(k.arg is None for k in c.keywords):
        env[c.func.value.id] = None
        continue
      upd.update({k.arg: k.value for k in c.keywords})
      env[c.func.value.id].update(upd)
      continue
    # anything else mentioning a tracked dictionary invalidates it
    for n in ast.walk(st):
      if isinstance(n, ast.Name) and n.id in env:
        env[n.id] = None
  return env.get(name)


def _field_flow(co, params):
  """field -> normalised source expression for the object call_options returns."""
  rets = [r for r in ast.walk(co.node) if isinstance(r, ast.Return)]
  if len(rets) != 1:
    return {}
  v = rets[0].value
  flow = {}
  if isinstance(v, ast.Call) and core.dotted(v.func) == 'ConversionOptions' and \
      not v.args and len(v.keywords) == 1 and v.keywords[0].arg is None and \
      isinstance(v.keywords[0].value, ast.Name):
    # ConversionOptions(**fields): the dictionary built by the straight-line
    # statements before the return
    d = _dict_value(co.node.body, v.keywords[0].value.id)
    return {k: core.norm(x) for k, x in d.items()} if d is not None else {}
  if isinstance(v, ast.Call) and core.dotted(v.func) == 'ConversionOptions':
    names = params
    for i, a in enumerate(v.args):
      flow[names[i]] = core.norm(a)
    for k in v.keywords:
      flow[k.arg] = core.norm(k.value)
    return flow
  if isinstance(v, ast.Name):
    # copy of self followed by attribute stores
    res = v.id
    base = None
    for n in ast.walk(co.node):
      if isinstance(n, ast.Assign) and core.dotted(n.targets[0]) == res and \
          isinstance(n.value, ast.Call) and core.dotted(n.value.func) in (
              'copy.copy', 'copy') and core.dotted(n.value.args[0]) == 'self':
        base = 'self'
    if base:
      flow = {p: 'self.' + p for p in params}
      for n in co.node.body:
        if isinstance(n, ast.Assign) and isinstance(n.targets[0], ast.Attribute) \
            and core.dotted(n.targets[0].value) == res:
          flow[n.targets[0].attr] = core.norm(n.value)
  return flow


def _render(e, pname, elems):
  """Evaluates the constant string operations of list_of_features on symbolic
  element names (pure string algebra on literals of the source)."""
  if isinstance(e, ast.Constant) and isinstance(e.value, str):
    return e.value
  if isinstance(e, ast.Call) and isinstance(e.func, ast.Attribute):
    m = e.func.attr
    if m == 'format':
      base = _render(e.func.value, pname, elems)
      args = [_render(a, pname, elems) for a in e.args]
      return base.format(*args)
    if m == 'join':
      sep = _render(e.func.value, pname, elems)
      seq = _render_seq(e.args[0], pname, elems)
      return sep.join(seq)
  if isinstance(e, ast.Call) and isinstance(e.func, ast.Name) and \
      e.func.id == 'str' and isinstance(e.args[0], ast.Name):
    return _render(e.args[0], pname, elems)
  if isinstance(e, ast.Name) and e.id.startswith('__elem__'):
    return e.id[8:]
  if isinstance(e, ast.BinOp) and isinstance(e.op, ast.Add):
    return _render(e.left, pname, elems) + _render(e.right, pname, elems)
  if isinstance(e, ast.JoinedStr):
    out = ''
    for v in e.values:
      if isinstance(v, ast.Constant):
        out += v.value
      elif isinstance(v, ast.FormattedValue) and v.conversion in (-1, 115) and \
          v.format_spec is None:
        out += _render(v.value, pname, elems)
      else:
        raise core.AnalysisError('cannot evaluate f-string part %s' % core.norm(v))
    return out
  raise core.AnalysisError('cannot evaluate string expression %s' % core.norm(e))


def _render_seq(e, pname, elems):
  if isinstance(e, (ast.GeneratorExp, ast.ListComp)) and len(e.generators) == 1 and \
      core.norm(e.generators[0].iter) == pname and not e.generators[0].ifs and \
      isinstance(e.generators[0].target, ast.Name):
    var = e.generators[0].target.id
    out = []
    for el in elems:
      sub = _Subst(var, el).visit(ast.parse(core.norm(e.elt), mode='eval').body)
      out.append(_render(sub, pname, elems))
    return out
  raise core.AnalysisError('cannot evaluate sequence %s' % core.norm(e))


class _Subst(ast.NodeTransformer):

  def __init__(self, var, el):
    self.var = var
    self.el = el

  def visit_Name(self, n):
    if n.id == self.var:
      return ast.Name('__elem__' + self.el, ast.Load())
    return n


def _denotes_features(txt, k):
  """txt must evaluate to: a k-tuple (k != 1), or for k == 1 a 1-tuple or the bare
  element, of attributes ag__.Feature.F<i> in order."""
  if txt is None:
    return False
  try:
    e = ast.parse(txt, mode='eval').body
  except SyntaxError:
    return False
  want = ['ag__.Feature.F%d' % i for i in range(k)]
  if isinstance(e, (ast.Tuple, ast.List, ast.Set)):
    return [core.dotted(x) for x in e.elts] == want
  if k == 1:
    return core.dotted(e) == want[0]
  return False
