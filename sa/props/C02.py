"""C02 — functional (tracing) operator backends see complete state (mechanism).

 SETSEL        state ⊇ modified ∧ simple ∧ (live-in ∨ live-out ∨ nonlocal ∨ global)
               ∪ modified ∧ composite ∧ (all support *symbols* live-in);
               input_only ⊆ state ∩ live-in − live-out and never composite;
               the `modified` argument covers the bound sets of all blocks
 TPL-NONLOCAL  every generated function that holds user statements (or the
               setter's assignment) declares the state ahead of them; the
               declarations are built from the same list (globals split off,
               composites excluded)
 HIDDEN-TEST   every analysis that walks `for` also walks the hidden extra loop
               test; passes that attach one keep its variable assigned in the loop
 CLOSURE       free names of reaching local functions are live (shared with C07)
"""
import ast

from sa import core
from sa import pat
from sa import setalg
from sa import tpl
from sa.formula import atom, implies, equivalent, TRUE
from sa.props import C03 as _c03
from sa.props import C07 as _c07

CF = 'malt/converters/control_flow.py'
CFG = 'malt/pyct/cfg.py'
ACT = 'malt/pyct/static_analysis/activity.py'
RF = 'malt/pyct/static_analysis/reaching_fndefs.py'
BRK = 'malt/converters/break_statements.py'
RET = 'malt/converters/return_statements.py'
LV = 'malt/pyct/static_analysis/liveness.py'


def check(model, rep, tier):
  rep.not_decided = ('soundness of liveness / reaching definitions on all '
                     'programs (C06/C07 decide their mechanism); what a '
                     'particular backend does with the state')
  rep.touch(CF, CFG, ACT, RF, BRK, RET, LV)
  rep.rule('SETSEL', 'state selection formulas', floor=8)
  rep.rule('TPL-NONLOCAL', 'state declared in every generated function that '
           'assigns it', floor=8)
  rep.rule('HIDDEN-TEST', 'hidden loop tests visible to every analysis', floor=5)
  rep.rule('CLOSURE', 'closures keep their free variables live', floor=2)

  cls = model.cls(CF, 'ControlFlowTransformer')
  # ---------------------------------------------------------------- SETSEL
  fi, ev, v, renv = _c03.eval_block_vars(model)
  state = v.items[0] if isinstance(v, setalg.TupleV) else None
  inp = renv.get('input_only')
  if not isinstance(state, setalg.SetV) or not isinstance(inp, setalg.SetV):
    raise core.AnalysisError('_get_block_vars: state / input_only not evaluated')
  M, LI, LO, NL, G, C = map(atom, ['MODIFIED', 'LIVE_IN', 'LIVE_OUT',
                                  'FN.nonlocals', 'FN.globals', 'is_composite'])
  sup = [a for a in state.f.atoms if a.startswith('ALL[')]
  bounds = [
      ('simple-live-in', M & ~C & LI, 'a variable the block changes and that '
       'was live before it', 'x = x + 1 in a loop body'),
      ('simple-live-out', M & ~C & LO, 'a variable the block changes and that '
       'is read afterwards', 'y assigned in both branches, read after the if'),
      ('simple-nonlocal', M & ~C & NL, 'a variable declared nonlocal',
       'nonlocal n; if c: n = 1'),
      ('simple-global', M & ~C & G, 'a variable declared global',
       'global G; if c: G = 5'),
  ]
  for name, premise, what, wit in bounds:
    o, cex = implies(premise, state.f)
    rep.check(o, 'SETSEL', '%s:state⊇%s' % (fi.site, name),
              'the state tuple misses %s' % what, {'counterexample': cex},
              line=fi.node.lineno, witness=wit)
  # the support condition must be about liveness *into* the statement
  ok = sup == ['ALL[· ∈ LIVE_IN]']
  cex = None
  if ok:
    ok, cex = implies(M & C & atom(sup[0]), state.f)
  rep.check(ok, 'SETSEL', '%s:state⊇composite-with-live-support' % fi.site,
            'an attribute / constant-key element the block changes, whose base '
            'symbols are all live into the statement, must be state',
            {'support_condition': sup, 'counterexample': cex}, line=fi.node.lineno,
            witness="self.x = self.x + 1 / d['k'] = v in a branch")
  cv = model.func(CF, 'ControlFlowTransformer._get_block_composite_vars')
  src = core.norm(cv.node)
  ok = 'for sss in s.support_set if sss.is_symbol()' in src.replace('(', ' ').replace(')', ' ') \
      or ('s.support_set' in src and 'is_symbol()' in src)
  alls = [n for n in ast.walk(cv.node) if isinstance(n, ast.Call) and
          core.dotted(n.func) == 'all']
  filt = [n for n in ast.walk(cv.node) if isinstance(n, (ast.GeneratorExp, ast.ListComp))
          and any('is_symbol()' in core.norm(i) for g in n.generators for i in g.ifs)]
  rep.check(bool(alls) and bool(filt), 'SETSEL',
            '%s:literal-keys-exempt' % cv.site,
            'only the *symbols* of a composite\'s support set need to be live: a '
            'literal key (d[\'k\'], l[0]) is not a variable and is never live',
            {'all_calls': len(alls), 'is_symbol_filters': len(filt)},
            line=cv.node.lineno, witness="d['k'] modified in a branch")
  o, cex = implies(inp.f, state.f & LI & ~LO)
  rep.check(o, 'SETSEL', '%s:input_only⊆state∩live_in−live_out' % fi.site,
            'a variable that is read after the statement must be an output',
            {'counterexample': cex}, line=fi.node.lineno,
            witness='a backend restores non-output entries after running both '
            'branches')
  o, cex = implies(inp.f, ~NL & ~G)
  rep.check(o, 'SETSEL', '%s:input_only-never-nonlocal-or-global' % fi.site,
            'a variable declared nonlocal or global is visible after the function '
            'returns, whatever the liveness inside the function says: it must be '
            'an output of every statement that changes it',
            {'counterexample': cex}, line=fi.node.lineno,
            witness='def g(): nonlocal x; if c: x = x + 1  -- nouts must count x')
  o, cex = implies(inp.f, ~C)
  rep.check(o, 'SETSEL', '%s:input_only-never-composite' % fi.site,
            'attributes and keys are visible through the object after the '
            'function returns: they can never be input-only',
            {'counterexample': cex}, line=fi.node.lineno,
            witness='if c: obj.attr = obj.attr + 1 with obj.attr not read again '
            'in the function')
  # fn_scope.nonlocals / globals are read from the scope recorded per function:
  # for a def that must be its BODY_SCOPE (the def statement's own scope has no
  # declarations)
  vfd = cls.methods.get('visit_FunctionDef')
  okb = vfd is not None and any(
      isinstance(a, ast.Assign) and core.norm(a.targets[0]).endswith('.scope') and
      'NodeAnno.BODY_SCOPE' in core.norm(a.value) and
      core.norm(a.value).startswith('anno.getanno(%s' % vfd.params()[0])
      for a in ast.walk(vfd.node))
  rep.check(okb, 'SETSEL', '%s:function-scope-is-body-scope' % (
      vfd.site if vfd else cls.site),
            'the scope kept for the innermost function must be the BODY_SCOPE of '
            'the def: its nonlocals / globals decide which variables can never '
            'be input-only', line=vfd.node.lineno if vfd else None,
            witness='def g(): nonlocal cnt; if c: cnt += 1')
  o, cex = implies(state.f, M)
  rep.check(o, 'SETSEL', '%s:state⊆modified' % fi.site,
            'only variables the block can change are carried',
            {'counterexample': cex}, line=fi.node.lineno, nontrivial=False)
  WANT_MOD = {'visit_If': {'BODY_SCOPE', 'ORELSE_SCOPE'},
              'visit_While': {'BODY_SCOPE'},
              'visit_For': {'BODY_SCOPE', 'ITERATE_SCOPE'}}
  for vn, want in WANT_MOD.items():
    h = cls.methods[vn]
    hp = h.params()[0]
    calls = [c for c in ast.walk(h.node) if isinstance(c, ast.Call) and
             core.norm(c.func) == 'self._get_block_vars']
    ok = len(calls) == 1
    got = set()
    if ok:
      parts = []

      def flat(x):
        if isinstance(x, ast.BinOp) and isinstance(x.op, ast.BitOr):
          flat(x.left)
          flat(x.right)
        else:
          parts.append(core.norm(x))

      flat(tpl.expand(h, calls[0].args[1], calls[0]))
      for t in parts:
        for k in ('BODY_SCOPE', 'ORELSE_SCOPE', 'ITERATE_SCOPE'):
          if t == 'anno.getanno(%s, annos.NodeAnno.%s).bound' % (hp, k):
            got.add(k)
      ok = want <= got and core.norm(calls[0].args[0]) == hp
    rep.check(ok, 'SETSEL', '%s:modified-covers-all-blocks' % h.site,
              'the set of possibly modified names must unite the bound names of '
              'every block of the statement (%s)' % sorted(want), {'passed': sorted(got)},
              line=h.node.lineno, witness='a variable assigned only in the else '
              'branch / only by the loop target')

  # ---------------------------------------------------------------- TPL-NONLOCAL
  sites = tpl.find_sites(model, [CF])
  USER_PH = {'body', 'orelse', 'iterate_expansion'}
  n_fn = 0
  for s in sites:
    for t in s.templates:
      for fn in t.functions():
        stmts = fn.body
        names = [core.norm(x.value) if isinstance(x, ast.Expr) else None for x in stmts]
        holds_user = [i for i, nm in enumerate(names) if nm in USER_PH and nm in s.kwargs]
        assigns_state = [i for i, x in enumerate(stmts) if isinstance(x, ast.Assign)
                         and any(isinstance(tg, ast.Tuple) and any(
                             core.norm(e) == 'state_vars' for e in tg.elts)
                                 for tg in x.targets)]
        need = holds_user + assigns_state
        if not need:
          continue
        n_fn += 1
        decl = [i for i, nm in enumerate(names) if nm == 'nonlocal_declarations']
        ok = bool(decl) and decl[0] < min(need) and 'nonlocal_declarations' in s.kwargs
        rep.check(ok, 'TPL-NONLOCAL', '%s:def(%s)' % (s.fi.site, fn.name),
                  'the generated function %s holds user statements / assigns the '
                  'state but does not declare the state variables first: the '
                  'assignments would create locals of the generated function' %
                  fn.name, {'body': names}, line=s.call.lineno,
                  witness='any variable assigned in the block and read after it')
  rep.unit('generated functions holding user statements', n_fn)
  # ... and a user *expression* placed in a generated function (the loop test)
  # binds its assignment-expression targets there unless they are declared
  from sa import rules_dup
  rep.rule('SCOPE-MOVE', 'names bound by a user expression that is evaluated in a '
           'generated function are declared state of that function', floor=1)
  rules_dup.scope_move(model, rep, sites)
  # declarations built from the same state list in each visitor
  for vn in ('visit_If', 'visit_While', 'visit_For'):
    h = cls.methods[vn]
    nl = [c for c in ast.walk(h.node) if isinstance(c, ast.Call) and
          core.norm(c.func) == 'self._create_nonlocal_declarations']
    gb = [c for c in ast.walk(h.node) if isinstance(c, ast.Call) and
          core.norm(c.func) == 'self._get_block_vars']
    asg = [n for n in ast.walk(h.node) if isinstance(n, ast.Assign) and gb and
           n.value is gb[0]]
    ok = len(nl) == 1 and len(asg) == 1 and isinstance(asg[0].targets[0], ast.Tuple)
    if ok:
      # the declared list is the state list, or a list computed from it (a
      # superset: names the test binds are added)
      d_, s_ = core.norm(nl[0].args[0]), core.norm(asg[0].targets[0].elts[0])
      if d_ != s_:
        ds_ = tpl.rdefs(h.node).reaching(nl[0], d_) if isinstance(
            nl[0].args[0], ast.Name) else None
        ok = bool(ds_) and len(ds_) == 1 and isinstance(ds_[0], ast.AST) and any(
            isinstance(x, ast.Name) and x.id == s_ for x in ast.walk(ds_[0]))
    used = [s for s in sites if s.fi.node is h.node and 'nonlocal_declarations' in s.kwargs]
    ok = ok and bool(used)
    for u in used:
      x = tpl.expand(h, u.kwargs['nonlocal_declarations'], u.call, depth=1)
      ok = ok and (x is nl[0] or core.norm(x) == core.norm(nl[0]))
    rep.check(ok, 'TPL-NONLOCAL', '%s:declarations-from-state-list' % h.site,
              'the nonlocal/global declarations must be built from the state '
              'list computed for this statement', line=h.node.lineno)
  cnd = model.func(CF, 'ControlFlowTransformer._create_nonlocal_declarations')

  def at(e):
    t = core.norm(e)
    return {'self.state[_Function].scope.globals': 'FN.globals',
            'vars_': 'VARS'}.get(t)

  cparam = cnd.params()[0]

  def at(e):
    t = core.norm(e)
    return {'self.state[_Function].scope.globals': 'FN.globals',
            cparam: 'VARS'}.get(t)

  ev2 = setalg.Ev(model, cnd, at)
  rets, env = ev2.run({cparam: setalg.SetV(atom('VARS'))})
  def declared(kind):
    """the set of names put into the ast.<kind> declaration: the source of a
    `[str(v) for v in X]` argument, or a list filled by a loop"""
    for c in ast.walk(cnd.node):
      if isinstance(c, ast.Call) and core.dotted(c.func) == 'ast.' + kind and len(c.args) == 1:
        a = c.args[0]
        if isinstance(a, ast.ListComp) and len(a.generators) == 1 and not a.generators[0].ifs \
            and core.norm(a.elt) == 'str(%s)' % core.norm(a.generators[0].target):
          a = a.generators[0].iter
        if isinstance(a, ast.Name):
          return env.get(a.id)
    return None
  gv = declared('Global')
  nv = declared('Nonlocal')
  ok = isinstance(gv, setalg.SetV) and isinstance(nv, setalg.SetV)
  cex = None
  if ok:
    o1, c1 = equivalent(gv.f, atom('VARS') & atom('FN.globals'))
    o2, c2 = equivalent(nv.f, atom('VARS') & ~atom('is_composite') & ~atom('FN.globals'))
    ok, cex = o1 and o2, c1 or c2
  rep.check(ok, 'TPL-NONLOCAL', '%s:global-vs-nonlocal-split' % cnd.site,
            'state variables the function declares global get a `global` '
            'declaration, every other simple state variable a `nonlocal` one; '
            'composites need none', {'counterexample': cex}, line=cnd.node.lineno,
            witness='global G; for ...: G += 1')
  # the loop test holds only an expression: recorded exception
  rep.hold('TPL-NONLOCAL', '%s:visit_While:def(test_name)' % CF,
           {'exception': 'holds only the user test expression; an expression '
            'binds only through a walrus, outside the property class'},
           nontrivial=False)

  # ---------------------------------------------------------------- HIDDEN-TEST
  def _values(fi, e, at):
    """candidate texts of an argument: itself expanded; for a loop variable the
    elements of every literal tuple / list that can reach the iterated name"""
    out = [tpl.xnorm(fi, e, at)]
    if isinstance(e, ast.Name):
      for lp in ast.walk(fi.node):
        if isinstance(lp, ast.For) and isinstance(lp.target, ast.Name) and \
            lp.target.id == e.id and any(x is e for x in ast.walk(lp)):
          its = [lp.iter]
          if isinstance(lp.iter, ast.Name):
            its = [d for d in (tpl.rdefs(fi.node).reaching(lp.iter, lp.iter.id) or [])
                   if isinstance(d, ast.AST)]
          for it in its:
            if isinstance(it, (ast.Tuple, ast.List)):
              out += [tpl.xnorm(fi, x, x) if any(x is y for y in ast.walk(fi.node))
                      else core.norm(x) for x in it.elts]
    return out

  for rel, q, meth in (
      (CFG, 'AstToCfg.visit_For', '_process_basic_statement'),
      (ACT, 'ActivityAnalyzer.visit_For', '_process_statement'),
      (RF, 'TreeAnnotator.visit', None)):
    f = model.func(rel, q)
    p0 = f.params()[0]
    want = 'anno.getanno(%s, anno.Basic.EXTRA_LOOP_TEST' % p0
    if meth is None:
      ok = any(isinstance(c, ast.Call) and core.norm(c).startswith(want)
               for c in ast.walk(f.node))
    else:
      ok = any(isinstance(c, ast.Call) and core.norm(c.func) == 'self.' + meth and c.args
               and any(v.startswith(want) for v in _values(f, c.args[0], c))
               for c in ast.walk(f.node))
    rep.check(ok, 'HIDDEN-TEST', '%s:walks-extra-test' % f.site,
              'the hidden extra loop test (break / return flags) must be visited '
              'by this analysis: it is evaluated on every iteration and reads '
              'the control variable', line=f.node.lineno,
              witness='for ... with break: the flag would not be live / state')
  cfor = cls.methods['visit_For']
  et = [st for st in sites if st.fi.node is cfor.node and 'extra_test_expr' in st.kwargs]
  ok = len(et) == 1 and tpl.xnorm(cfor, et[0].kwargs['extra_test_expr'], et[0].call) \
      == 'anno.getanno(%s, anno.Basic.EXTRA_LOOP_TEST)' % cfor.params()[0]
  rep.check(ok, 'HIDDEN-TEST', '%s:emits-extra-test' % cfor.site,
            'the hidden test must be emitted as the extra_test callback',
            line=cfor.node.lineno)
  bs = tpl.find_sites(model, [BRK])
  ok = False
  for s in bs:
    if s.fi.name == 'visit_For':
      for t in s.templates:
        loops = [n for n in ast.walk(t.tree) if isinstance(n, ast.For)]
        if loops and any(isinstance(x, ast.Assign) and core.norm(x.targets[0]) ==
                         'var_name' and core.norm(x.value) == 'False'
                         for x in t.tree.body):
          first = loops[0].body[0]
          ok = ok or (isinstance(first, ast.Expr) and isinstance(first.value, ast.Tuple)
                      and [core.norm(e) for e in first.value.elts] == ['var_name'])
  rep.check(ok, 'HIDDEN-TEST', '%s:BreakTransformer.visit_For:flag-initialised-and-read' % BRK,
            'a for loop with break must initialise the flag before the loop and '
            'keep it referenced inside the loop body, so that it becomes loop '
            'state', witness='for x in xs: if p(x): break')

  # ---------------------------------------------------------------- CLOSURE
  vn, ev3, env3 = _c07.eval_liveness(model)
  live_in = env3.get('@self.in_[node]')
  assume, reach = _c07.closure_context(live_in)
  if reach is None:
    rep.violation('CLOSURE', '%s:closure-rule' % vn.site, 'closure rule missing')
  else:
    FR, FB, FN = atom('FN.read'), atom('FN.bound'), atom('FN.nonlocals')
    for name, prem, wit in (
        ('read-only', reach & FR & ~FB, 'x = x * 3 in an if, then x = closure()'),
        ('nonlocal', reach & FR & FB & FN, 'if n: x = 5; return inc()')):
      o, cex = implies(prem & assume, live_in.f)
      rep.check(o, 'CLOSURE', '%s:%s' % (vn.site, name),
                'a variable a reaching local function reads (or rebinds via '
                'nonlocal) must be live, hence carried as state, whatever the '
                'statement itself assigns', {'counterexample': cex},
                line=vn.node.lineno, witness=wit)

  # ---------------------------------------------------------------- dependencies
  rep.depends('C08', None,
              'the state of a block is selected from the read / modified sets and '
              'from liveness, both built on what the activity analysis visits')
  rep.depends('C17', ['TREE-LITERAL'],
              'the variables in the generated get_state / set_state are built by QN.ast() from the qualified names of the state')
  rep.depends('C03', ['GETSET', 'QN-SUPPORT', 'NOUTS', 'SEQ'],
              'a tracing backend touches variables only through get_state / '
              'set_state (and ldu for composites); composites enter the state '
              'only when their whole support is live; it keeps the first nouts '
              'entries of a branch, so the outputs must be exactly the prefix '
              'the count describes, and the names / getter / setter tuples must '
              'list the same variables in the same order')
  rep.depends('C07', None,
              'the state of a block is selected from the LIVE_VARS_IN / _OUT '
              'annotations; variables read only by a closure stay in the outputs '
              'because reaching function definitions keep them live')
