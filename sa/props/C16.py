"""C16 — conversion-status context restored on every exit, isolated per thread.

Structural clauses decided (DESIGN.md section 4, C16):
 CTX-WITH     every status-context object is entered by a `with` statement, or
              by a paired __enter__/__exit__ inside an owner class that is itself
              only entered by `with` (generated templates included)
 CTX-MANUAL   no explicit x.__enter__() / x.__exit__() call outside such a pair
 CTX-PUSHPOP  ControlStatusCtx.__enter__ pushes self exactly once on every path
              and returns self; __exit__ pops (LIFO, no argument) exactly once
              on every path and never returns a truthy value; no other mutation
              of the stack anywhere
 CTX-TLS      the stack is reachable only through an attribute of a module-level
              threading.local(), created lazily per thread
 CTX-STATUS   literal statuses of the wrappers
"""
import ast

from sa import core
from sa import formula
from sa import pycfg
from sa import tpl

AG_CTX = 'malt/core/ag_ctx.py'
FW = 'malt/operators/function_wrappers.py'
API = 'malt/impl/api.py'

MUTATORS = {'append', 'pop', 'remove', 'insert', 'clear', 'extend', 'reverse',
            'sort', '__setitem__', '__delitem__'}


def _is_ctx_class(model, mod, func_expr, names):
  r = model.resolve(mod, func_expr) if core.dotted(func_expr) else None
  return bool(r and r[0] == 'class' and r[1].name in names and
              r[1].module.rel in (AG_CTX, FW))


def _with_context_exprs(tree):
  out = set()
  for n in ast.walk(tree):
    if isinstance(n, (ast.With, ast.AsyncWith)):
      for it in n.items:
        out.add(id(it.context_expr))
  return out


def _guard_chain(fn, target):
  """Normalised list of enclosing if-tests (with polarity) of a node in fn."""
  chain = []

  def lit(pol, t):
    # `not c` taken  ==  `c` not taken
    while isinstance(t, ast.UnaryOp) and isinstance(t.op, ast.Not):
      t, pol = t.operand, ('F' if pol == 'T' else 'T')
    return (pol, core.norm(t))

  def rec(stmts, acc):
    for s in stmts:
      if any(n is target for n in ast.walk(s)):
        if isinstance(s, ast.If):
          if any(n is target for b in s.body for n in ast.walk(b)):
            return rec(s.body, acc + [lit('T', s.test)])
          if any(n is target for b in s.orelse for n in ast.walk(b)):
            return rec(s.orelse, acc + [lit('F', s.test)])
          return acc
        for f in ('body', 'orelse', 'finalbody'):
          blk = getattr(s, f, None)
          if isinstance(blk, list) and any(
              n is target for b in blk for n in ast.walk(b)):
            return rec(blk, acc + ([('loop', '')] if isinstance(
                s, (ast.For, ast.While)) else []))
        return acc
    return None

  r = rec(fn.body, [])
  return r


def _try_finally_pairs(fn):
  """Receivers r such that `r.__enter__()` is immediately followed by a try
  whose finally calls `r.__exit__(...)` (the expansion of a with statement)."""
  out = {}

  def scan(stmts):
    for i, s in enumerate(stmts):
      for f in ('body', 'orelse', 'finalbody'):
        blk = getattr(s, f, None)
        if isinstance(blk, list):
          scan(blk)
      for h in getattr(s, 'handlers', []) or []:
        scan(h.body)
      val = s.value if isinstance(s, (ast.Expr, ast.Assign)) else None
      if isinstance(val, ast.Call) and isinstance(val.func, ast.Attribute) and \
          val.func.attr == '__enter__' and i + 1 < len(stmts) and \
          isinstance(stmts[i + 1], ast.Try) and stmts[i + 1].finalbody:
        recv = core.norm(val.func.value)
        exits = [c for fs in stmts[i + 1].finalbody for c in ast.walk(fs)
                 if isinstance(c, ast.Call) and isinstance(c.func, ast.Attribute)
                 and c.func.attr == '__exit__' and
                 core.norm(c.func.value) == recv]
        if len(exits) == 1:
          out[recv] = (val, exits[0])

  scan(fn.body)
  return out


def _same_block_before(fn, a, b):
  for n in ast.walk(fn):
    for f in ('body', 'orelse', 'finalbody'):
      blk = getattr(n, f, None)
      if isinstance(blk, list) and any(x is a for x in blk) and any(x is b for x in blk):
        return [i for i, x in enumerate(blk) if x is a][0] < \
            [i for i, x in enumerate(blk) if x is b][0]
  return False


def _bottom_of_stored_list(m2, c):
  """c is an element of a list literal that is stored into an attribute: either
  directly (`stacks.x = [c]`) or through one local (`s = [c]; stacks.x = s`)."""
  for fn in ast.walk(m2.tree):
    if not isinstance(fn, ast.FunctionDef):
      continue
    lists = [a for a in core.walk_no_nested(fn) if isinstance(a, ast.Assign) and
             isinstance(a.value, ast.List) and any(el is c for el in a.value.elts)]
    for a in lists:
      if isinstance(a.targets[0], ast.Attribute):
        return True
      if isinstance(a.targets[0], ast.Name) and len(a.targets) == 1:
        rd = tpl.rdefs(fn)
        for b in core.walk_no_nested(fn):
          if isinstance(b, ast.Assign) and isinstance(b.targets[0], ast.Attribute) and \
              isinstance(b.value, ast.Name) and b.value.id == a.targets[0].id:
            ds = rd.reaching(b.value, b.value.id)
            if ds and all(d is a.value for d in ds):
              return True
  return False


def check(model, rep, tier):
  rep.not_decided = ('interleavings of threads at run time (thread isolation '
                     'follows from CTX-TLS); behaviour of user code that enters '
                     'contexts by hand')
  agm = model.module(AG_CTX)
  fwm = model.module(FW)
  apim = model.module(API)
  rep.touch(AG_CTX, FW, API)
  ctx_cls = model.cls(AG_CTX, 'ControlStatusCtx')
  fs_cls = model.cls(FW, 'FunctionScope')

  rep.rule('CTX-WITH', 'every construction of ControlStatusCtx / FunctionScope '
           'is a with-context expression, a stack-bottom default that is never '
           'entered, or an attribute entered/exited by its owner under identical '
           'guards', floor=4)
  rep.rule('CTX-MANUAL', 'explicit __enter__/__exit__ calls occur only inside '
           'the __enter__/__exit__ of an owner class, pairwise, same receiver, '
           'same guards', floor=2)
  rep.rule('CTX-PUSHPOP', 'push exactly once + return self on every path of '
           '__enter__; pop() exactly once on every path of __exit__, falsy '
           'result; no other stack mutation', floor=4)
  rep.rule('CTX-TLS', 'stack reachable only via an attribute of a module-level '
           'threading.local(), default created per thread', floor=3)
  rep.rule('CTX-STATUS', 'wrappers enter the documented status', floor=4)

  # ------------------------------------------------------------ CTX-WITH
  owners = {}   # (class, attr) for attribute-held contexts
  n_constructions = 0
  for m in model.modules.values():
    withs = _with_context_exprs(m.tree)
    for fi in m.all_functions():
      for n in core.walk_no_nested(fi.node):
        if not isinstance(n, ast.Call):
          continue
        if not _is_ctx_class(model, m, n.func, {'ControlStatusCtx', 'FunctionScope'}):
          continue
        n_constructions += 1
        site = '%s:construct(%s)' % (fi.site, core.dotted(n.func).split('.')[-1])
        if id(n) in withs:
          rep.hold('CTX-WITH', site, {'form': 'with', 'line': n.lineno})
          continue
        # return value of a factory whose result is only ever the stack bottom
        parent_ret = [r for r in ast.walk(fi.node) if isinstance(r, ast.Return)
                      and r.value is n]
        if parent_ret:
          # every use of this factory must be the lazily created stack bottom
          uses = []
          for m2 in model.modules.values():
            for c in ast.walk(m2.tree):
              if isinstance(c, ast.Call) and core.dotted(c.func):
                r = model.resolve(m2, c.func)
                if r and r[0] == 'func' and r[1].node is fi.node:
                  uses.append((m2, c))
          ok = bool(uses)
          for m2, c in uses:
            # must be an element of a list literal assigned to stacks.<attr>
            ok = ok and _bottom_of_stored_list(m2, c)
          rep.check(ok, 'CTX-WITH', site,
                    'context object returned by %s is used other than as the '
                    'never-entered bottom of the per-thread stack' % fi.name,
                    {'form': 'factory', 'uses': len(uses)}, line=n.lineno)
          continue
        # self.<attr> = Ctx(...) inside a class
        asg = [a for a in ast.walk(fi.node) if isinstance(a, ast.Assign) and
               a.value is n and isinstance(a.targets[0], ast.Attribute) and
               isinstance(a.targets[0].value, ast.Name) and
               a.targets[0].value.id == 'self']
        if asg and fi.cls is not None:
          attr = asg[0].targets[0].attr
          owners[(fi.cls.name, attr)] = (fi, n, _guard_chain(fi.node, n))
          continue
        # v = Ctx(...) then `with v:` or the try/finally expansion of a with
        lasg = [a for a in ast.walk(fi.node) if isinstance(a, ast.Assign) and
                a.value is n and isinstance(a.targets[0], ast.Name)]
        if lasg:
          v = lasg[0].targets[0].id
          used_with = any(
              isinstance(w, ast.With) and any(
                  isinstance(it.context_expr, ast.Name) and
                  it.context_expr.id == v for it in w.items)
              for w in ast.walk(fi.node))
          if used_with or v in _try_finally_pairs(fi.node):
            rep.hold('CTX-WITH', site, {'form': 'local+with', 'line': n.lineno})
            continue
        # the never-entered bottom of the per-thread stack, built in place:
        # <obj>.<attr> = [Ctx(...)]
        if any(isinstance(a, ast.Assign) and isinstance(a.value, ast.List) and
               any(el is n for el in a.value.elts) and
               isinstance(a.targets[0], ast.Attribute)
               for a in ast.walk(fi.node)):
          rep.hold('CTX-WITH', site, {'form': 'stack-bottom', 'line': n.lineno})
          continue
        rep.violation(
            'CTX-WITH', site,
            'a status context is constructed but not entered by a `with` '
            'statement: its exit is not guaranteed on exceptional exits',
            {'expr': core.norm(n)}, line=n.lineno,
            witness='a converted lambda / wrapped function whose body raises '
            'leaves its context on the thread stack')
  # generated code: templates that construct FunctionScope must do so in `with`
  for s in tpl.find_sites(model):
    for t in s.templates:
      withs = _with_context_exprs(t.tree)
      for n in ast.walk(t.tree):
        if isinstance(n, ast.Call) and core.dotted(n.func) in (
            'ag__.FunctionScope', 'ag__.ControlStatusCtx'):
          n_constructions += 1
          rep.check(id(n) in withs, 'CTX-WITH',
                    '%s:template-construct(%s)' % (s.fi.site, core.dotted(n.func)),
                    'generated code constructs %s outside a with statement' %
                    core.dotted(n.func), {'template': t.text.strip()[:200]},
                    line=s.call.lineno)
  rep.unit('context constructions', n_constructions)

  # attribute-held contexts: owner pairs
  for (cname, attr), (fi, n, guards) in owners.items():
    cls = fi.cls
    site = '%s:attr(%s)' % (cls.site, attr)
    en = cls.methods.get('__enter__')
    ex = cls.methods.get('__exit__')
    if not en or not ex:
      rep.violation('CTX-WITH', site, 'owner class lacks __enter__/__exit__',
                    line=n.lineno)
      continue

    def calls(fn, meth):
      return [c for c in ast.walk(fn.node) if isinstance(c, ast.Call) and
              isinstance(c.func, ast.Attribute) and c.func.attr == meth and
              core.dotted(c.func.value) == 'self.' + attr]

    ce = calls(en, '__enter__')
    cx = calls(ex, '__exit__')
    g_en = [_guard_chain(en.node, c) for c in ce]
    g_ex = [_guard_chain(ex.node, c) for c in cx]
    facts = {'construct_guard': guards, 'enter_guards': g_en, 'exit_guards': g_ex}

    def strip_self(g):
      return [(p, t.replace('self.options.', 'options.')) for p, t in (g or [])]

    ok = (len(ce) == 1 and len(cx) == 1 and g_en == g_ex and
          strip_self(g_en[0]) == strip_self(guards))
    # __exit__ must forward the exception triple
    if ok:
      ok = len(cx[0].args) == 3
    rep.check(ok, 'CTX-WITH', site,
              'the context held in self.%s is not entered and exited exactly '
              'once under the same condition it is created under' % attr,
              facts, line=n.lineno,
              witness='user_requested=True converted function: ENABLED context '
              'pushed but not popped (or popped but never pushed)')
    # exit must be reached on every path of the owner __exit__ that takes guard
    g = pycfg.CFG(ex.node)
    w = {i: 1 for i in g.nodes_where(
        lambda k, a: any(c in cx for c in ast.walk(a) if isinstance(c, ast.Call)))}
    # owner class constructed only in `with`
    # (checked above for every construction of FunctionScope)

  # ------------------------------------------------------------ CTX-MANUAL
  allowed = set()
  for (cname, attr), (fi, n, guards) in owners.items():
    allowed.add((fi.cls.site, '__enter__', attr))
    allowed.add((fi.cls.site, '__exit__', attr))
  n_manual = 0
  for m in model.modules.values():
    for fi in m.all_functions():
      for c in core.walk_no_nested(fi.node):
        if isinstance(c, ast.Call) and isinstance(c.func, ast.Attribute) and \
            c.func.attr in ('__enter__', '__exit__'):
          n_manual += 1
          recv = core.dotted(c.func.value) or core.norm(c.func.value)
          site = '%s:%s.%s()' % (fi.site, recv, c.func.attr)
          ok = False
          if fi.cls is not None and fi.name == c.func.attr and recv.startswith('self.'):
            attr = recv[5:]
            if (fi.cls.site, fi.name, attr) in allowed:
              ok = True
            else:
              # other owned sub-contexts (name scopes etc.): must be paired
              other = fi.cls.methods.get(
                  '__exit__' if fi.name == '__enter__' else '__enter__')
              if other is not None:
                oc = [x for x in ast.walk(other.node) if isinstance(x, ast.Call)
                      and isinstance(x.func, ast.Attribute) and
                      x.func.attr == other.name and
                      core.dotted(x.func.value) == recv]
                ok = len(oc) == 1 and _guard_chain(other.node, oc[0]) == \
                    _guard_chain(fi.node, c)
          if not ok:
            pairs = _try_finally_pairs(fi.node)
            pr = pairs.get(core.norm(c.func.value))
            ok = bool(pr) and (c is pr[0] or c is pr[1])
          rep.check(ok, 'CTX-MANUAL', site,
                    'context manager protocol called by hand outside a paired '
                    'owner __enter__/__exit__: the exit is skipped when the '
                    'code in between raises', {'receiver': recv}, line=c.lineno,
                    witness='body raises (incl. BaseException) between the '
                    'manual __enter__ and __exit__')
  rep.unit('manual enter/exit calls', n_manual)

  # ------------------------------------------------------------ CTX-PUSHPOP
  # the accessor of the per-thread stack, found by what it does (its name is
  # private and free to change): the module-level function that returns an
  # attribute of a module-level threading.local()
  agm = model.module(AG_CTX)
  tls = {k for k, v in agm.assigns.items() if isinstance(v, ast.Call) and
         core.dotted(v.func) == 'threading.local'}
  accs = [fi_ for fi_ in agm.functions.values() if any(
      isinstance(r, ast.Return) and isinstance(r.value, ast.Attribute) and
      isinstance(r.value.value, ast.Name) and r.value.value.id in tls
      for r in ast.walk(fi_.node))]
  if len(accs) != 1:
    raise core.AnalysisError('ag_ctx: the accessor of the thread-local status stack '
                             'was not found (%d candidates)' % len(accs))
  accessor = accs[0]

  def is_stack_expr(e, env):
    if isinstance(e, ast.Call) and isinstance(e.func, ast.Name) and \
        e.func.id == accessor.name and not e.args:
      return True
    if isinstance(e, ast.Name) and e.id in env:
      return True
    return False

  def stack_aliases(fn):
    env = set()
    for a in ast.walk(fn):
      if isinstance(a, ast.Assign) and len(a.targets) == 1 and isinstance(
          a.targets[0], ast.Name) and is_stack_expr(a.value, env):
        env.add(a.targets[0].id)
    return env

  def stack_mutations(fn, env):
    out = []
    for c in ast.walk(fn):
      if isinstance(c, ast.Call) and isinstance(c.func, ast.Attribute) and \
          c.func.attr in MUTATORS and is_stack_expr(c.func.value, env):
        out.append(c)
      if isinstance(c, (ast.Delete,)):
        for t in c.targets:
          if isinstance(t, ast.Subscript) and is_stack_expr(t.value, env):
            out.append(c)
      if isinstance(c, (ast.Assign, ast.AugAssign)):
        ts = c.targets if isinstance(c, ast.Assign) else [c.target]
        for t in ts:
          if isinstance(t, ast.Subscript) and is_stack_expr(t.value, env):
            out.append(c)
    return out

  en = ctx_cls.methods.get('__enter__')
  ex = ctx_cls.methods.get('__exit__')
  if en is None or ex is None:
    raise core.AnalysisError('ControlStatusCtx.__enter__/__exit__ not found')
  for fi, want, label in ((en, 'append', 'push'), (ex, 'pop', 'pop')):
    env = stack_aliases(fi.node)
    muts = stack_mutations(fi.node, env)
    g = pycfg.CFG(fi.node)
    good = []
    bad = []
    for c in muts:
      is_good = isinstance(c, ast.Call) and c.func.attr == want and (
          (want == 'append' and len(c.args) == 1 and isinstance(
              c.args[0], ast.Name) and c.args[0].id == 'self') or
          (want == 'pop' and not c.args and not c.keywords))
      # del stack[-1] removes the top like pop()
      if want == 'pop' and isinstance(c, ast.Delete) and len(c.targets) == 1 and \
          core.norm(c.targets[0].slice) == '-1':
        is_good = True
      (good if is_good else bad).append(c)
    site = '%s:%s' % (fi.site, label)
    for c in bad:
      rep.violation(
          'CTX-PUSHPOP', '%s:other-mutation(%s)' % (fi.site, core.norm(c)[:60]),
          'the status stack is mutated by something other than %s: LIFO '
          'discipline is lost' % ('append(self)' if want == 'append' else 'pop()'),
          {'stmt': core.norm(c)}, line=c.lineno,
          witness='the same context object twice on the stack with another in '
          'between (internal_convert(fn, ctx) inside do_not_convert): remove() '
          'deletes the first occurrence, not the top')
    w = {}
    for i in range(len(g.nodes)):
      cs = pycfg.calls_at(g, i)
      k = sum(1 for c in cs if any(c is x for x in good))
      k += sum(1 for x in good if isinstance(x, ast.Delete) and g.nodes[i][1] is x)
      if k:
        w[i] = k
    rng = g.count_range(w, skip_labels=())
    # a push / pop written inside an `assert` disappears with the assertion when
    # the interpreter runs with -O
    in_assert = [core.norm(a_)[:60] for a_ in ast.walk(fi.node) if isinstance(a_, ast.Assert)
                 and any(x is c for c in good for x in ast.walk(a_))]
    if in_assert:
      rng = (0, rng[1]) if rng else rng
    rep.check(rng == (1, 1), 'CTX-PUSHPOP', site,
              '%s happens %s times on some path of %s (must be exactly once '
              'on every path)' % (label, rng, fi.qualname),
              {'min_max_per_path': rng, 'stack_aliases': sorted(env)},
              line=fi.node.lineno,
              witness='a path through %s that skips or repeats the %s' %
              (fi.qualname, label))
    rets = [r for r in ast.walk(fi.node) if isinstance(r, ast.Return)]
    if label == 'push':
      ok = bool(rets) and all(isinstance(r.value, ast.Name) and
                              r.value.id == 'self' for r in rets)
      # and no fall-through
      ok = ok and not any(
          g.nodes[p][0] != 'return' for p, _ in g.preds()[g.exit])
      rep.check(ok, 'CTX-PUSHPOP', '%s:returns-self' % fi.site,
                '__enter__ must return self on every path (with ... as ctx)',
                {'returns': [core.norm(r) for r in rets]}, line=fi.node.lineno)
    else:
      ok = all(r.value is None or (isinstance(r.value, ast.Constant) and
                                   not r.value.value) for r in rets)
      rep.check(ok, 'CTX-PUSHPOP', '%s:no-swallow' % fi.site,
                '__exit__ returns a possibly truthy value: exceptions raised '
                'inside the context would be swallowed',
                {'returns': [core.norm(r) for r in rets]}, line=fi.node.lineno)
  # no other function mutates the stack
  n_other = 0
  for m in model.modules.values():
    for fi in m.all_functions():
      if fi.node in (en.node, ex.node, accessor.node):
        continue
      uses_acc = False
      for c in ast.walk(fi.node):
        if isinstance(c, ast.Call) and core.dotted(c.func):
          r = model.resolve(m, c.func)
          if r and r[0] == 'func' and r[1].node is accessor.node:
            uses_acc = True
      if not uses_acc:
        continue
      n_other += 1
      # treat any name bound to accessor() in this function as the stack
      envnames = set()
      for a in ast.walk(fi.node):
        if isinstance(a, ast.Assign) and isinstance(a.value, ast.Call) and \
            core.dotted(a.value.func):
          r = model.resolve(m, a.value.func)
          if r and r[0] == 'func' and r[1].node is accessor.node and \
              isinstance(a.targets[0], ast.Name):
            envnames.add(a.targets[0].id)

      def is_stack2(e):
        if isinstance(e, ast.Call) and core.dotted(e.func):
          r = model.resolve(m, e.func)
          return bool(r and r[0] == 'func' and r[1].node is accessor.node)
        return isinstance(e, ast.Name) and e.id in envnames

      muts = [c for c in ast.walk(fi.node) if isinstance(c, ast.Call) and
              isinstance(c.func, ast.Attribute) and c.func.attr in MUTATORS and
              is_stack2(c.func.value)]
      rep.check(not muts, 'CTX-PUSHPOP', '%s:reads-stack-only' % fi.site,
                'function other than ControlStatusCtx.__enter__/__exit__ '
                'mutates the status stack', {'mutations': [core.norm(c) for c in muts]},
                line=fi.node.lineno)
  rep.unit('stack readers', n_other)

  # ------------------------------------------------------------ CTX-TLS
  tls_names = [nm for nm, v in agm.assigns.items()
               if isinstance(v, ast.Call) and core.dotted(v.func) and
               (agm.imports.get(core.dotted(v.func).split('.')[0], '') + '.' +
                '.'.join(core.dotted(v.func).split('.')[1:])).rstrip('.') ==
               'threading.local']
  rets = [r for r in ast.walk(accessor.node) if isinstance(r, ast.Return)]

  def tls_attr(r):
    """the returned object is <thread local>.<attr>: read from it, or a local
    that was stored into it on the way"""
    v = r.value
    if isinstance(v, ast.Attribute) and isinstance(v.value, ast.Name) and \
        v.value.id in tls_names:
      return v.attr
    if isinstance(v, ast.Name):
      stores = [b for b in core.walk_no_nested(accessor.node)
                if isinstance(b, ast.Assign) and len(b.targets) == 1 and
                isinstance(b.targets[0], ast.Attribute) and
                isinstance(b.targets[0].value, ast.Name) and
                b.targets[0].value.id in tls_names and
                isinstance(b.value, ast.Name) and b.value.id == v.id]
      rd = tpl.rdefs(accessor.node)
      here = rd.reaching(v, v.id)
      # the same definition of the local reaches the store and the return, and
      # the store dominates the return (it is in the same block, before it)
      for b in stores:
        if here and rd.reaching(b.value, v.id) == here and _same_block_before(
            accessor.node, b, r):
          return b.targets[0].attr
      ex = tpl.expand(accessor, v, r)
      if isinstance(ex, ast.Attribute) and isinstance(ex.value, ast.Name) and \
          ex.value.id in tls_names:
        return ex.attr
    return None
  ret_attrs = {tls_attr(r) for r in rets}
  ok = bool(tls_names) and bool(rets) and None not in ret_attrs and len(ret_attrs) == 1
  rep.check(ok, 'CTX-TLS', '%s:returns-thread-local-attr' % accessor.site,
            'the status stack is not an attribute of a module-level '
            'threading.local(): threads would share one stack',
            {'thread_locals': tls_names, 'returns': [core.norm(r) for r in rets]},
            line=accessor.node.lineno,
            witness='two threads entering do_not_convert concurrently see each '
            "other's status")
  # lazily created per thread: the only store to stacks.<attr> is guarded by a
  # hasattr/getattr probe and builds a fresh list with the default context
  if ok:
    attr = list(ret_attrs)[0]
    stores = [a for a in ast.walk(accessor.node) if isinstance(a, ast.Assign) and
              isinstance(a.targets[0], ast.Attribute) and
              core.dotted(a.targets[0]) == '%s.%s' % (tls_names[0], attr)]
    probes = [c for c in ast.walk(accessor.node) if isinstance(c, ast.Call) and
              isinstance(c.func, ast.Name) and c.func.id in ('hasattr', 'getattr')]
    # ... or by the handler of an AttributeError raised by reading it
    for t in ast.walk(accessor.node):
      if isinstance(t, ast.Try) and any(
          isinstance(x, ast.Attribute) and core.dotted(x) == '%s.%s' % (tls_names[0], attr)
          and isinstance(x.ctx, ast.Load) for b in t.body for x in ast.walk(b)):
        for h in t.handlers:
          if h.type is not None and core.dotted(h.type) == 'AttributeError' and any(
              st in stores for b in h.body for st in ast.walk(b)):
            probes.append(h)
        # ... or the try body returns the attribute, so that what follows the
        # statement runs only after the AttributeError handler
        if t.body and isinstance(t.body[-1], ast.Return) and not t.orelse and \
            not t.finalbody and t.handlers and all(
                h.type is not None and core.dotted(h.type) == 'AttributeError'
                for h in t.handlers):
          for blk in [accessor.node.body] + [
              getattr(n_, f_) for n_ in ast.walk(accessor.node) for f_ in ('body', 'orelse')
              if isinstance(getattr(n_, f_, None), list)]:
            if any(x is t for x in blk):
              after = blk[[i for i, x in enumerate(blk) if x is t][0] + 1:]
              if any(st in stores for b in after for st in ast.walk(b)):
                probes.append(t)
    stored = tpl.expand(accessor, stores[0].value, stores[0]) if len(stores) == 1 else None
    ok2 = len(stores) == 1 and isinstance(stored, ast.List) and \
        len(stored.elts) == 1 and bool(probes)
    rep.check(ok2, 'CTX-TLS', '%s:lazy-per-thread-default' % accessor.site,
              'per-thread stack must be created on first use in each thread '
              'as a fresh one-element list', {'stores': [core.norm(s) for s in stores]},
              line=accessor.node.lineno)
  # nobody else touches the thread-local object
  outsiders = []
  for m in model.modules.values():
    for n in ast.walk(m.tree):
      if isinstance(n, (ast.Name, ast.Attribute)) and core.dotted(n):
        d = core.dotted(n)
        if m is agm:
          continue
        r = model.resolve(m, n) if isinstance(n, ast.Attribute) else None
        if r and r[0] == 'var' and r[1] is agm and r[2] in tls_names:
          outsiders.append((m.rel, n.lineno, d))
  inside = []
  for fi in agm.all_functions():
    if fi.node is accessor.node:
      continue
    for n in ast.walk(fi.node):
      if isinstance(n, ast.Name) and n.id in tls_names:
        inside.append((fi.site, n.lineno))
  rep.check(not outsiders and not inside, 'CTX-TLS',
            '%s:only-accessor-touches-thread-local' % AG_CTX,
            'the thread-local stack holder is accessed outside its accessor function',
            {'outside_module': outsiders, 'other_functions': inside})
  cur = model.func(AG_CTX, 'control_status_ctx')
  rets = [r for r in ast.walk(cur.node) if isinstance(r, ast.Return)]
  env = stack_aliases(cur.node)

  def is_top(e, names):
    if isinstance(e, ast.Subscript) and is_stack_expr(e.value, env):
      s = e.slice
      return isinstance(s, ast.UnaryOp) and isinstance(s.op, ast.USub) and \
          isinstance(s.operand, ast.Constant) and s.operand.value == 1
    if isinstance(e, ast.Name) and e.id in names:
      return True
    return False

  tops = set()
  for a in ast.walk(cur.node):
    if isinstance(a, ast.Assign) and isinstance(a.targets[0], ast.Name) and \
        is_top(a.value, tops):
      tops.add(a.targets[0].id)
  rep.check(bool(rets) and all(is_top(r.value, tops) for r in rets), 'CTX-TLS',
            '%s:returns-top-of-stack' % cur.site,
            'control_status_ctx() must return the top (last) element of the '
            'calling thread\'s stack', {'returns': [core.norm(r) for r in rets]},
            line=cur.node.lineno)

  # ------------------------------------------------------------ CTX-STATUS
  def with_status(fi):
    out = []
    for n in ast.walk(fi.node):
      if isinstance(n, ast.With):
        for it in n.items:
          c = it.context_expr
          if isinstance(c, ast.Name):
            # a local bound (once, in the same function) to the context object
            owner = [d for d in ast.walk(fi.node) if isinstance(d, (
                ast.FunctionDef, ast.Lambda)) and any(x is n for x in ast.walk(d))]
            owner = owner[-1] if owner else fi.node
            defs_ = [a.value for a in core.walk_no_nested(owner) if isinstance(a, ast.Assign)
                     and len(a.targets) == 1 and core.norm(a.targets[0]) == c.id]
            if len(defs_) == 1:
              c = defs_[0]
          if isinstance(c, ast.Call) and _is_ctx_class(
              model, fi.module, c.func, {'ControlStatusCtx'}):
            st = None
            for k in c.keywords:
              if k.arg == 'status':
                st = core.dotted(k.value)
            if c.args:
              st = core.dotted(c.args[0])
            out.append((n, st))
    return out

  for fname, want in (('do_not_convert', 'DISABLED'),
                      ('call_with_unspecified_conversion_status', 'UNSPECIFIED')):
    fi = model.func(API, fname)
    ws = with_status(fi)
    wrappers = [d for d in core._nested_defs(fi.node)]
    ok = len(ws) == 1 and (ws[0][1] or '').endswith('Status.' + want)
    # the wrapped call must be inside the with body
    if ok:
      w = ws[0][0]
      inner_calls = [c for s in w.body for c in ast.walk(s)
                     if isinstance(c, ast.Call) and isinstance(c.func, ast.Name)
                     and c.func.id in fi.params(skip_self=False)]
      ok = bool(inner_calls)
    # ... and every function handed back is that wrapper: the argument itself is
    # never returned (whatever it is: an artifact marks "call as is", it says
    # nothing about what the object does when called)
    fp_ = fi.params(skip_self=False)[0]
    unwrapped = []
    for r_ in core.walk_no_nested(fi.node):
      if isinstance(r_, ast.Return) and r_.value is not None and \
          tpl.xnorm(fi, r_.value, r_) == fp_:
        f_ = formula.condition_formula(fi.node, r_, lambda e: core.norm(e))
        if not formula.implies(f_, formula.atom('%s is None' % fp_))[0]:
          unwrapped.append(core.norm(r_))
    ok = ok and not unwrapped
    rep.check(ok, 'CTX-STATUS', '%s:status' % fi.site,
              '%s must run the wrapped function inside `with '
              'ControlStatusCtx(status=Status.%s)`' % (fname, want),
              {'found': [s for _, s in ws]}, line=fi.node.lineno,
              witness='converted_call inside the wrapped function sees the '
              'wrong status and converts / does not convert')
  # FunctionScope: ENABLED under options.user_requested
  init = fs_cls.methods.get('__init__')
  if init is None:
    raise core.AnalysisError('FunctionScope.__init__ not found')
  found = False
  for (cname, attr), (fi, n, guards) in owners.items():
    if fi.cls is fs_cls:
      found = True
      st = core.dotted(n.args[0]) if n.args else None
      for k in n.keywords:
        if k.arg == 'status':
          st = core.dotted(k.value)
      ok = (st or '').endswith('Status.ENABLED') and guards == [
          ('T', 'options.user_requested')]
      rep.check(ok, 'CTX-STATUS', '%s:ENABLED-iff-user-requested' % fi.site,
                'FunctionScope must create an ENABLED context exactly when '
                'options.user_requested', {'status': st, 'guards': guards},
                line=n.lineno)
  if not found:
    rep.violation('CTX-STATUS', '%s:ENABLED-iff-user-requested' % init.site,
                  'FunctionScope no longer creates a status context', line=init.node.lineno)
  # convert(): wrapper enters conversion_ctx with `with`, around converted_call
  conv = model.func(API, 'convert')
  ok = False
  for n in ast.walk(conv.node):
    if isinstance(n, ast.With):
      for it in n.items:
        if isinstance(it.context_expr, ast.Name) and \
            it.context_expr.id == 'conversion_ctx':
          ok = any(isinstance(c, ast.Call) and core.dotted(c.func) == 'converted_call'
                   for s in n.body for c in ast.walk(s))
  rep.check(ok, 'CTX-STATUS', '%s:with-conversion_ctx' % conv.site,
            'convert() must run converted_call inside `with conversion_ctx:`',
            line=conv.node.lineno,
            witness='internal_convert(f, ctx) with an ENABLED ctx whose body raises')
  # internal_convert: whenever it converts, it converts under the captured context
  ic = model.func(API, 'internal_convert')
  icp = ic.params(skip_self=False)
  ctxp = icp[1] if len(icp) > 1 else 'ctx'
  convs = [c for c in ast.walk(ic.node) if isinstance(c, ast.Call) and (
      core.dotted(c.func) == 'convert' or (
          core.dotted(c.func) in ('functools.partial', 'partial') and c.args and
          core.dotted(c.args[0]) == 'convert'))]
  missing = [core.norm(c)[:70] for c in convs if not any(
      k.arg == 'conversion_ctx' and core.norm(k.value) == ctxp for k in c.keywords)]
  rep.check(bool(convs) and not missing, 'CTX-STATUS', '%s:converts-under-captured-ctx' % ic.site,
            'every wrapper internal_convert builds with convert() must re-enter '
            'the context object that was captured (conversion_ctx=%s): without '
            'it the function runs under whatever status is current at call '
            'time' % ctxp, {'convert_calls_without_ctx': missing}, line=ic.node.lineno,
            witness='an UNSPECIFIED context captured outside, the wrapper called '
            'inside a do_not_convert region')
  # FunctionScope.__enter__: nothing can fail after the status context was
  # entered by hand (the with statement does not call __exit__ when __enter__
  # raises, so the pushed context would stay on the thread's stack)
  en = fs_cls.methods.get('__enter__')
  late = []
  if en is not None:
    seen_enter = False
    for n in core.preorder(en.node):
      if isinstance(n, ast.Call) and isinstance(n.func, ast.Attribute) and \
          n.func.attr == '__enter__':
        seen_enter = True
      elif seen_enter and isinstance(n, (ast.Assert, ast.Raise)):
        late.append(core.norm(n)[:70])
  rep.check(en is not None and not late, 'CTX-MANUAL',
            '%s:nothing-fails-after-manual-enter' % (en.site if en else fs_cls.site),
            'FunctionScope.__enter__ raises after it has entered the status '
            'context by hand: `with` never calls __exit__ for a failed '
            '__enter__, the ENABLED context stays pushed', {'statements': late},
            line=en.node.lineno if en else None,
            witness='a user-requested conversion with Feature.NAME_SCOPES, '
            'caught by an ancestor')
  rep.unit('modules', len(model.modules))

  # ---------------------------------------------------------------- dependencies
  rep.depends('C20', ['OPT-CALLEE'],
              'whether a function scope pushes ENABLED follows from the options it '
              'is given: only the outermost converted function gets the user\'s')
  rep.depends('C10', ['CACHE-ALLOWLIST'],
              'a call made in a DISABLED context must not be remembered as '
              'not-to-convert: the effect of the region would outlive it')
  rep.depends('C10', ['CACHE-KEY'],
              'whether a converted function pushes ENABLED is baked into its '
              'generated code (user_requested): the cache key must keep '
              'user-requested and recursive conversions apart')
