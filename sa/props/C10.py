"""C10 — conversion cache: coherent, converts once, thread-safe (necessary structure).

 CACHE-LOCK      every cache store, the transformation and the factory creation
                 lie inside `with self._cache_lock`, on the negative branch of a
                 re-check; the store is dominated by the completed create();
                 the lock-free path only reads
 CACHE-KEY       key = the code object (weak dictionary), subkey = the whole
                 options value; has/get use the same key function
 CACHE-NOSTATE   nothing request-specific is stored in the cached factory:
                 instantiate() writes no attribute and builds the function from
                 its own arguments on every call; the factory is created from
                 code-object data only
 CACHE-ALLOWLIST negative cache keyed by function object and options
 CACHE-LOCKORDER the lock-order graph over the call graph is acyclic
"""
import ast

from sa import core
from sa import formula
from sa import pycfg
from sa import tpl

TR = 'malt/pyct/transpiler.py'
CACHE = 'malt/pyct/cache.py'
API = 'malt/impl/api.py'
CONVN = 'malt/impl/conversion.py'


def _self_stores(fn):
  out = []
  for n in ast.walk(fn):
    ts = []
    if isinstance(n, ast.Assign):
      ts = n.targets
    elif isinstance(n, (ast.AugAssign, ast.AnnAssign)):
      ts = [n.target]
    for t in ts:
      for x in ast.walk(t):
        if isinstance(x, ast.Attribute) and isinstance(x.ctx, ast.Store) and \
            isinstance(x.value, ast.Name) and x.value.id == 'self':
          out.append(n)
    if isinstance(n, ast.Call) and core.dotted(n.func) == 'setattr' and n.args and \
        core.dotted(n.args[0]) == 'self':
      out.append(n)
  return out


def _sentinel(stmts, i):
  """`if C: V = None  else: ...; V = <not None>` directly followed by
  `if V is None:` -- the second test repeats C (None is the "nothing found"
  sentinel).  Returns (polarity of C when V is None, C) or None."""
  s = stmts[i]
  t = s.test
  neg = False
  if isinstance(t, ast.Compare) and len(t.ops) == 1 and isinstance(
      t.ops[0], (ast.Is, ast.IsNot)) and isinstance(t.left, ast.Name) and \
      isinstance(t.comparators[0], ast.Constant) and t.comparators[0].value is None:
    v = t.left.id
    neg = isinstance(t.ops[0], ast.IsNot)
  else:
    return None
  if i == 0 or not isinstance(stmts[i - 1], ast.If):
    return None
  p = stmts[i - 1]

  def last_value(block):
    if not block:
      return None
    a = block[-1]
    if isinstance(a, ast.Assign) and len(a.targets) == 1 and isinstance(
        a.targets[0], ast.Name) and a.targets[0].id == v:
      if any(isinstance(x, ast.Name) and x.id == v and isinstance(x.ctx, ast.Store)
             for st in block[:-1] for x in ast.walk(st)):
        return None
      return a.value
    return None
  vb, vo = last_value(p.body), last_value(p.orelse)
  if vb is None or vo is None:
    return None
  is_none = lambda e: isinstance(e, ast.Constant) and e.value is None
  if is_none(vb) == is_none(vo):
    return None
  # V is None  <=>  the branch that assigned None was taken
  pol = 'T' if is_none(vb) else 'F'
  if neg:
    pol = 'F' if pol == 'T' else 'T'
  return pol, p.test


def _enclosing_withs(fn, target):
  out = []

  def tst(stmts, i, taken):
    """(polarity, text) of the test guarding the taken branch of stmts[i]"""
    s = stmts[i]
    sen = _sentinel(stmts, i)
    t, pol = s.test, taken
    if sen is not None:
      # taken == 'T' means the sentinel test held
      t = sen[1]
      pol = sen[0] if taken == 'T' else ('F' if sen[0] == 'T' else 'T')
    if isinstance(t, ast.UnaryOp) and isinstance(t.op, ast.Not):
      t = t.operand
      pol = 'F' if pol == 'T' else 'T'
    return (pol, core.norm(t))

  def rec(stmts, acc):
    for i, s in enumerate(stmts):
      if not any(x is target for x in ast.walk(s)):
        continue
      acc2 = acc
      if isinstance(s, ast.With):
        acc2 = acc + [core.norm(it.context_expr) for it in s.items]
      if isinstance(s, ast.If):
        if any(x is target for b in s.body for x in ast.walk(b)):
          return rec(s.body, acc + [tst(stmts, i, 'T')])
        if any(x is target for b in s.orelse for x in ast.walk(b)):
          return rec(s.orelse, acc + [tst(stmts, i, 'F')])
        return acc
      for f in ('body', 'orelse', 'finalbody'):
        blk = getattr(s, f, None)
        if isinstance(blk, list) and any(x is target for b in blk for x in ast.walk(b)):
          return rec(blk, acc2)
      return acc2
    return acc

  return rec(fn.body, [])


def callees(model, fi):
  out = []
  for c in core.walk_no_nested(fi.node):
    if not isinstance(c, ast.Call):
      continue
    f = c.func
    if isinstance(f, ast.Attribute) and isinstance(f.value, ast.Name) and \
        f.value.id == 'self' and fi.cls is not None:
      h = fi.cls.find(f.attr)
      if h:
        out.append(h)
      continue
    if isinstance(f, ast.Attribute) and isinstance(f.value, ast.Call) and \
        core.dotted(f.value.func) == 'super' and fi.cls is not None:
      seen = False
      for cc in fi.cls.mro():
        if isinstance(cc, core.ClassInfo):
          if cc is fi.cls:
            seen = True
            continue
          if seen and f.attr in cc.methods:
            out.append(cc.methods[f.attr])
            break
      continue
    if core.dotted(f):
      r = model.resolve(fi.module, f)
      if r and r[0] == 'func':
        out.append(r[1])
      elif r and r[0] == 'class':
        init = r[1].find('__init__')
        if init:
          out.append(init)
  return out


def conversion_try_rule(model, rep, rule):
  """Nothing in the try that guards the conversion depends on the arguments of
  the call: an error the call itself would raise (argument binding) must not be
  taken for a failed conversion, which is remembered in the negative cache."""
  cc = model.func(API, 'converted_call')
  conv = [c for c in ast.walk(cc.node) if isinstance(c, ast.Call) and
          core.dotted(c.func) == '_convert_actual']
  trys = [t for t in ast.walk(cc.node) if isinstance(t, ast.Try) and conv and any(
      x is conv[0] for b in t.body for x in ast.walk(b))]
  if len(trys) != 1:
    raise core.AnalysisError('converted_call: the try around _convert_actual was not found')
  argnames = {'args', 'kwargs', 'effective_args'}
  leaks = []
  for st in trys[0].body:
    for c in ast.walk(st):
      if isinstance(c, ast.Call) and any(
          isinstance(n, ast.Name) and n.id in argnames
          for a in list(c.args) + [k.value for k in c.keywords] for n in ast.walk(a)):
        leaks.append(core.norm(c)[:70])
  rep.check(not leaks, rule, '%s:conversion-try-does-not-touch-arguments' % cc.site,
            'a statement inside the try that guards the conversion works on the '
            'arguments of the call: if it fails (wrong arity, a __repr__ that '
            'raises) the target is treated as unconvertible, run unconverted and '
            'remembered as such', {'calls': leaks}, line=trys[0].lineno,
            witness='g(1) for def g(a, b) at verbosity 2: g is never converted again')


def check(model, rep, tier):
  rep.not_decided = ('histories and schedules: the check decides only the '
                     'necessary locking / keying / statelessness structure')
  rep.touch(TR, CACHE, API, CONVN)
  rep.rule('CACHE-LOCK', 'double-checked locking shape', floor=5)
  rep.rule('CACHE-KEY', 'code object key in a weak dictionary; whole options '
           'value as subkey', floor=5)
  rep.rule('CACHE-NOSTATE', 'cached factory holds nothing request-specific', floor=4)
  rep.rule('CACHE-ALLOWLIST', 'negative cache keyed by function and options', floor=3)
  rep.rule('CACHE-LOCKORDER', 'lock order acyclic', floor=1)

  tf0 = model.func(TR, 'PyToPy.transform_function')
  # private helpers expanded: the lookup may sit in a helper or in the function
  tf = core.FuncInfo(tf0.module, tf0.view(), cls=tf0.cls)
  fn = tf.node
  pname = tf.params()[0]
  g = pycfg.CFG(fn)

  # ---- cache stores
  def _is_cache(e):
    # self._cache[...] directly or through a local alias of a bucket
    t = core.norm(e)
    if 'self._cache[' in t:
      return True
    try:
      return 'self._cache[' in tpl.xnorm(tf, e, e)
    except Exception:
      return False
  stores = [n for n in ast.walk(fn) if isinstance(n, ast.Assign) and any(
      isinstance(t, ast.Subscript) and (_is_cache(t) or _is_cache(t.value))
      for t in n.targets)]
  # every access that may create a bucket (cache.__getitem__ inserts on a miss)
  # is inside the lock, or follows a positive, non-inserting `has` test
  for sub in [x for x in ast.walk(fn) if isinstance(x, ast.Subscript) and
              core.norm(x.value) == 'self._cache']:
    ctx = _enclosing_withs(fn, sub)
    locked = 'self._cache_lock' in ctx
    after_has = any(isinstance(c, tuple) and c[0] == 'T' and
                    c[1].startswith('self._cache.has(') for c in ctx)
    rep.check(locked or after_has, 'CACHE-LOCK',
              '%s:bucket-access(%s)' % (tf.site, 'locked' if locked else (
                  'after-has' if after_has else 'unguarded')),
              'self._cache[fn] creates the per-code-object bucket when it is '
              'missing: outside the lock two threads each create their own, the '
              're-check under the lock looks at an orphan and the function is '
              'transformed twice', {'context': [str(c) for c in ctx]},
              line=sub.lineno,
              witness='two threads requesting a fresh code object at once')
  sup = [c for c in ast.walk(fn) if isinstance(c, ast.Call) and isinstance(
      c.func, ast.Attribute) and c.func.attr == 'transform_function' and
         isinstance(c.func.value, ast.Call) and core.dotted(c.func.value.func) == 'super']
  creates = [c for c in ast.walk(fn) if isinstance(c, ast.Call) and isinstance(
      c.func, ast.Attribute) and c.func.attr == 'create']
  if not stores or len(sup) != 1 or len(creates) != 1:
    raise core.AnalysisError('transform_function: cache store / parent call / '
                             'create not found (%d/%d/%d)' %
                             (len(stores), len(sup), len(creates)))
  for what, node in [('store', s) for s in stores] + [('transform', sup[0]),
                                                      ('create', creates[0])]:
    ctx = _enclosing_withs(fn, node)
    locked = 'self._cache_lock' in ctx
    idx = ctx.index('self._cache_lock') if locked else -1
    rechecked = locked and any(
        isinstance(x, tuple) and x[0] == 'F' and x[1].startswith('self._cache.has(')
        for x in ctx[idx + 1:])
    rep.check(locked and rechecked, 'CACHE-LOCK',
              '%s:%s-under-lock-and-recheck' % (tf.site, what),
              'the %s must happen inside `with self._cache_lock`, on the '
              'negative branch of a second self._cache.has(...) check' % what,
              {'context': [str(c) for c in ctx]}, line=node.lineno,
              witness='two threads requesting the same (code, options) at once '
              'both transform')
  # store dominated by create, and stores the created object
  ni_store = [g.node_of(s) for s in stores]
  ni_create = None
  for i in range(len(g.nodes)):
    if any(c is creates[0] for c in pycfg.calls_at(g, i)):
      ni_create = i
  dom = g.dominators(skip_labels=('exc',))
  for s, ni in zip(stores, ni_store):
    ok = ni is not None and ni_create is not None and ni_create in dom.get(ni, ())
    same = core.norm(s.value) == core.norm(creates[0].func.value) or (
        tpl.xnorm(tf, s.value, s) == tpl.xnorm(tf, creates[0].func.value, creates[0])
        and isinstance(tpl.expand(tf, s.value, s), ast.Call))   # the same object
    rep.check(ok and same, 'CACHE-LOCK', '%s:publish-after-create' % tf.site,
              'the factory must be stored in the cache only after create() has '
              'completed: the lock-free fast path would otherwise hand out a '
              'half-built factory', {'stored': core.norm(s.value),
                                     'created': core.norm(creates[0].func.value)},
              line=s.lineno,
              witness='second thread arrives while the first is inside create()')
  # key usage
  has_calls = [c for c in ast.walk(fn) if isinstance(c, ast.Call) and
               core.norm(c.func) == 'self._cache.has']
  want_sub = 'self.get_caching_key(%s)' % tf.params()[1]
  ok = len(has_calls) >= 2 and all(
      len(c.args) == 2 and core.norm(c.args[0]) == pname and
      tpl.xnorm(tf, c.args[1], c) == want_sub for c in has_calls)
  for s in stores:
    t = s.targets[0]
    ok = ok and isinstance(t, ast.Subscript) and isinstance(t.value, ast.Subscript) \
        and core.norm(t.value.value) == 'self._cache' and core.norm(
            t.value.slice) == pname and tpl.xnorm(tf, t.slice, s) == want_sub
  rep.check(ok, 'CACHE-KEY', '%s:key-usage' % tf.site,
            'lookups and the store must use (fn, get_caching_key(user_context))',
            {'has': [core.norm(c) for c in has_calls]}, line=fn.lineno)
  # lock-free path only reads
  outside = []
  for n in ast.walk(fn):
    if isinstance(n, (ast.Assign, ast.AugAssign, ast.Delete)) and \
        'self._cache' in core.norm(n) and 'self._cache_lock' not in \
        _enclosing_withs(fn, n) and any(
            'self._cache' in core.norm(t) for t in (
                n.targets if isinstance(n, (ast.Assign, ast.Delete)) else [n.target])):
      outside.append(core.norm(n))
  rep.check(not outside, 'CACHE-LOCK', '%s:lock-free-path-reads-only' % tf.site,
            'the cache is written outside the lock', {'writes': outside})
  init = model.func(TR, 'PyToPy.__init__')
  lock_ok = any(isinstance(n, ast.Assign) and core.norm(n.targets[0]) ==
                'self._cache_lock' and core.norm(n.value) in (
                    'threading.RLock()', 'threading.Lock()')
                for n in ast.walk(init.node))
  rep.check(lock_ok, 'CACHE-LOCK', '%s:lock-object' % init.site,
            'self._cache_lock must be a threading lock created per transpiler',
            line=init.node.lineno)

  # ---------------------------------------------------------------- CACHE-KEY
  gk = model.func(CACHE, 'CodeObjectCache._get_key')
  ep = gk.params()[0]

  def key_cases(fn, test_text, atom):
    def at(e):
      return atom if core.norm(e) == test_text else None
    return [(f, core.norm(v) if v is not None else None)
            for f, v in formula.return_cases(fn.node, at)]

  def decides(cases, atom, when_true, when_false):
    A = formula.atom(atom)
    t = {v for f, v in cases if formula.satisfiable(f & A)}
    fl = {v for f, v in cases if formula.satisfiable(f & ~A)}
    return t == {when_true} and fl == {when_false}
  rets = key_cases(gk, "hasattr(%s, '__code__')" % ep, 'HAS_CODE')
  ok = decides(rets, 'HAS_CODE', ep + '.__code__', ep)
  rets = [(str(f), v) for f, v in rets]
  if not ok:
    # getattr(entity, '__code__', entity): the same decision in one expression
    rs_ = [r for r in core.walk_no_nested(gk.node) if isinstance(r, ast.Return)]
    ok = len(rs_) == 1 and core.norm(rs_[0].value) == "getattr(%s, '__code__', %s)" % (ep, ep)
  rep.check(ok, 'CACHE-KEY', '%s:code-object' % gk.site,
            'the cache key must be the code object itself (not a name, id or '
            'hash), falling back to the entity', {'returns': rets},
            line=gk.node.lineno,
            witness='two different functions with equal names / recycled ids')
  base = model.cls(CACHE, '_TransformedFnCache')
  binit = base.methods['__init__']
  # the table, by role: the attribute __init__ binds to the weak dictionary
  tabs = [core.norm(n.targets[0]) for n in ast.walk(binit.node) if isinstance(n, ast.Assign)
          and core.norm(n.targets[0]).startswith('self.') and
          core.norm(n.value) == 'weakref.WeakKeyDictionary()']
  ok = len(tabs) == 1
  TAB = tabs[0] if tabs else 'self._cache'
  rep.check(ok, 'CACHE-KEY', '%s:weak-dictionary' % binit.site,
            'code objects must be held weakly, so that a redefined / collected '
            'function is never served stale code', line=binit.node.lineno)
  for m in ('has', '__getitem__'):
    fi0 = base.methods[m]
    # (private helpers expanded: the lookup may be shared by both methods)
    fi = core.FuncInfo(fi0.module, fi0.view(keep=('_get_key',)), cls=fi0.cls)
    # every lookup / store in the dictionary is keyed by _get_key(entity),
    # through a local or directly
    kcall = 'self._get_key(%s)' % fi.params()[0]
    uses = [c.args[0] for c in ast.walk(fi.node) if isinstance(c, ast.Call) and
            core.norm(c.func) in (TAB + '.get', TAB + '.setdefault') and c.args]
    uses += [n.slice for n in ast.walk(fi.node) if isinstance(n, ast.Subscript) and
             core.norm(n.value) == TAB]
    ok = bool(uses) and all(tpl.xnorm(fi, u, u) == kcall for u in uses)
    rep.check(ok, 'CACHE-KEY', '%s:uses-key-function' % fi0.site,
              '%s must look the entity up under _get_key(entity)' % m,
              line=fi0.node.lineno)
    # stores into the cache dictionary, with the condition they happen under
    stores = [a for a in ast.walk(fi.node) if isinstance(a, ast.Assign) and any(
        isinstance(t, ast.Subscript) and core.norm(t.value) == TAB
        for t in a.targets)] + [c for c in ast.walk(fi.node) if isinstance(c, ast.Call)
                                and core.norm(c.func) == TAB + '.setdefault']
    if m == 'has':
      rep.check(not stores, 'CACHE-LOCK', '%s:probe-is-read-only' % fi0.site,
                'has() is the lock-free probe: it must not create (or replace) a '
                'bucket; transform_function relies on it outside the lock',
                {'stores': [core.norm(x)[:60] for x in stores]}, line=fi0.node.lineno,
                witness='a second thread probing while the first stores its factory')
    else:
      def none_atom(e):
        if isinstance(e, ast.Compare) and len(e.ops) == 1 and isinstance(
            e.ops[0], ast.Is) and isinstance(e.comparators[0], ast.Constant) and \
            e.comparators[0].value is None:
          return 'IS_NONE'
        return None
      bad = []
      for st in stores:
        cf = formula.condition_formula(fi.node, st, none_atom)
        if not formula.equivalent(cf, formula.atom('IS_NONE'))[0]:
          bad.append('%s under %s' % (core.norm(st)[:40], cf))
      rep.check(bool(stores) and not bad, 'CACHE-LOCK',
                '%s:bucket-created-only-when-missing' % fi0.site,
                'the per-entity bucket is created exactly when the lookup gave '
                'None: a truthiness test also replaces a bucket that exists but '
                'is still empty, and the value stored into the old one is lost',
                {'stores': bad}, line=fi0.node.lineno,
                witness='first conversion of a code object, probed by a second thread')
  gck = model.func(API, 'PyToPy.get_caching_key')
  rets = [r for r in ast.walk(gck.node) if isinstance(r, ast.Return)]
  ok = len(rets) == 1 and core.norm(rets[0].value) == gck.params()[0] + '.options'
  rep.check(ok, 'CACHE-KEY', '%s:whole-options' % gck.site,
            'the cache subkey must be the complete options value (its eq/hash '
            'cover every field, see C20); a projection lets different option '
            'sets alias', {'returns': [core.norm(r) for r in rets]},
            line=gck.node.lineno,
            witness='converted first as a callee, then requested explicitly '
            '(user_requested differs)')

  # ---------------------------------------------------------------- CACHE-NOSTATE
  inst = model.func(TR, '_PythonFnFactory.instantiate')
  ss = _self_stores(inst.node)
  rep.check(not ss, 'CACHE-NOSTATE', '%s:no-attribute-writes' % inst.site,
            'instantiate() stores into the shared cached factory: state of one '
            'request (globals, closure cells) leaks into the next',
            {'writes': [core.norm(s) for s in ss]}, line=inst.node.lineno,
            witness='two functions sharing a code object with different '
            'closures / globals')
  gi = pycfg.CFG(inst.node)
  ft = [c for c in ast.walk(inst.node) if isinstance(c, ast.Call) and
        core.dotted(c.func) == 'types.FunctionType']
  w = {i: 1 for i in range(len(gi.nodes)) if any(
      c in ft for c in pycfg.calls_at(gi, i))}
  rng = gi.count_range(w, skip_labels=())
  kw = {k.arg: tpl.xnorm(inst, k.value, c) for c in ft for k in c.keywords}
  ok = rng == (1, 1) and kw.get('globals') == inst.params()[0] and \
      (inst.params()[1] in (kw.get('closure') or '')) and \
      kw.get('code') == 'self._unbound_factory.__code__'
  rep.check(ok, 'CACHE-NOSTATE', '%s:fresh-function-per-request' % inst.site,
            'every instantiate() must build a new function from the cached '
            'code with the requester\'s globals and closure',
            {'per_path': rng, 'keywords': kw}, line=inst.node.lineno)
  # factory constructed from code-object data only
  ctor = [c for c in ast.walk(fn) if isinstance(c, ast.Call) and
          core.dotted(c.func) == '_PythonFnFactory']
  leaks = []
  for c in ctor + creates:
    for n in ast.walk(c):
      if isinstance(n, ast.Attribute) and core.norm(n) in (
          pname + '.__globals__', pname + '.__closure__', pname + '.__defaults__',
          pname + '.__kwdefaults__'):
        leaks.append(core.norm(n))
  rep.check(len(ctor) == 1 and not leaks, 'CACHE-NOSTATE',
            '%s:factory-from-code-only' % tf.site,
            'the cached factory must be built from the code object, the '
            'transformed nodes, names and extra locals only',
            {'leaks': leaks, 'ctor': [core.norm(c) for c in ctor]}, line=fn.lineno)
  # every return instantiates per request from fn's own attributes
  rets = [r for r in ast.walk(fn) if isinstance(r, ast.Return)]
  insts = [c for c in ast.walk(fn) if isinstance(c, ast.Call) and isinstance(
      c.func, ast.Attribute) and c.func.attr == 'instantiate']
  # arguments by the parameter they bind (keyword or position)
  from sa import inline as _inl
  inst_fn = model.func(TR, '_PythonFnFactory.instantiate')
  kw = {}
  for c in insts:
    bound_ = _inl._bind(inst_fn.node, c, True)
    if bound_ is None:
      kw = None
      break
    for k_, v_ in bound_.items():
      if any(v_ is a_ for a_ in c.args) or any(v_ is k2.value for k2 in c.keywords):
        kw[k_] = tpl.xnorm(tf, v_, c)
  kw = kw or {}
  want = {'globals_': pname + '.__globals__', 'closure': pname + '.__closure__ or ()',
          'defaults': pname + '.__defaults__',
          'kwdefaults': "getattr(%s, '__kwdefaults__', None)" % pname}
  wi = {i: 1 for i in range(len(g.nodes)) if any(
      c in insts for c in pycfg.calls_at(g, i))}
  rng = g.count_range(wi, skip_labels=('exc',))
  rep.check(len(insts) == 1 and kw == want and rng == (1, 1), 'CACHE-NOSTATE',
            '%s:instantiate-per-request' % tf.site,
            'each request must instantiate the factory with the globals, '
            'closure and defaults of the requesting function object',
            {'keywords': kw, 'per_path': rng}, line=fn.lineno,
            witness='functions sharing code but differing in closure/globals/defaults')

  # ---------------------------------------------------------------- CACHE-ALLOWLIST
  cm = model.module(CONVN)
  v = cm.assigns.get('_ALLOWLIST_CACHE')
  rep.check(v is not None and core.norm(v) == 'cache.UnboundInstanceCache()',
            'CACHE-ALLOWLIST', '%s:_ALLOWLIST_CACHE' % CONVN,
            'the negative cache must be keyed by the function object',
            {'value': core.norm(v) if v is not None else None})
  ca = model.func(CONVN, 'cache_allowlisted')
  ia = model.func(CONVN, 'is_in_allowlist_cache')
  ok = any(isinstance(n, ast.Assign) and isinstance(n.targets[0], ast.Subscript) and
           tpl.xnorm(ca, n.targets[0], n) ==
           '_ALLOWLIST_CACHE[%s][%s]' % tuple(ca.params()) for n in ast.walk(ca.node))
  rep.check(ok, 'CACHE-ALLOWLIST', '%s:store' % ca.site,
            'failures are remembered per (entity, options)', line=ca.node.lineno)
  # the answer is _ALLOWLIST_CACHE.has(entity, options) -- returned directly or
  # through a local -- or False (the TypeError handler)
  want_has = '_ALLOWLIST_CACHE.has(%s, %s)' % tuple(ia.params())
  rd_ia = tpl.rdefs(ia.node)

  def answers(r):
    v = r.value
    if v is None:
      return []
    if isinstance(v, ast.Name):
      ds = rd_ia.reaching(v, v.id) or []
      return [core.norm(d) if isinstance(d, ast.AST) else '?' for d in ds]
    return [core.norm(v)]
  all_answers = [a for r in ast.walk(ia.node) if isinstance(r, ast.Return) for a in answers(r)]
  ok = want_has in all_answers and all(a in (want_has, 'False') for a in all_answers)
  rep.check(ok, 'CACHE-ALLOWLIST', '%s:lookup' % ia.site,
            'lookups use the same (entity, options) pair', line=ia.node.lineno)
  ub = model.func(CACHE, 'UnboundInstanceCache._get_key')
  e = ub.params()[0]
  rets = key_cases(ub, 'inspect.ismethod(%s)' % e, 'IS_METHOD')
  rep.check(decides(rets, 'IS_METHOD', e + '.__func__', e), 'CACHE-ALLOWLIST',
            '%s:function-object' % ub.site, 'key must be the (unbound) function '
            'object', {'returns': [(str(f), v) for f, v in rets]}, line=ub.node.lineno)

  # only decisions that depend on (function, options) alone may be remembered
  cc = model.func(API, 'converted_call')
  cu = model.func(API, '_call_unconverted')
  cup = cu.params()
  ccp = cc.params()
  keyed = {ccp[0], 'options'}      # f and options: the key of the negative cache
  flag = cup[4] if len(cup) > 4 else None
  dflt = cu.node.args.defaults[-1] if cu.node.args.defaults else None
  caches_by_default = isinstance(dflt, ast.Constant) and dflt.value is True

  def parents(root):
    par = {}
    for a in ast.walk(root):
      for b in ast.iter_child_nodes(a):
        par[b] = a
    return par

  # locals computed from f / options only
  locals_ = {t.id for a in core.walk_no_nested(cc.node) if isinstance(a, ast.Assign)
             for t in a.targets if isinstance(t, ast.Name)}
  changed = True
  while changed:
    changed = False
    for a in core.walk_no_nested(cc.node):
      if isinstance(a, ast.Assign) and len(a.targets) == 1 and isinstance(
          a.targets[0], ast.Name) and a.targets[0].id not in keyed:
        roots = {n.id for n in ast.walk(a.value) if isinstance(n, ast.Name)}
        ambient = any(isinstance(t, ast.Call) and not t.args and not t.keywords
                      and not (isinstance(t.func, ast.Attribute) and {
                          n.id for n in ast.walk(t.func.value)
                          if isinstance(n, ast.Name)} & keyed)
                      for t in ast.walk(a.value))
        others = [x for x in core.walk_no_nested(cc.node) if isinstance(x, ast.Assign)
                  and any(isinstance(t, ast.Name) and t.id == a.targets[0].id
                          for t in x.targets)]
        if not ambient and roots & keyed and not (
            (roots & set(ccp)) - keyed) and not ((roots & locals_) - keyed) and all(
                {n.id for n in ast.walk(o.value) if isinstance(n, ast.Name)} & keyed
                for o in others):
          keyed.add(a.targets[0].id)
          changed = True
  par = parents(cc.node)
  ncalls = 0
  for c in core.walk_no_nested(cc.node):
    if not (isinstance(c, ast.Call) and core.dotted(c.func) == cu.name):
      continue
    ncalls += 1
    upd = caches_by_default
    if len(c.args) > 4:
      upd = not (isinstance(c.args[4], ast.Constant) and c.args[4].value is False)
    for k in c.keywords:
      if k.arg == flag:
        upd = not (isinstance(k.value, ast.Constant) and k.value.value is False)
    # innermost guarding test
    x = c
    guard = None
    while x in par:
      y = par[x]
      if isinstance(y, ast.If) and any(x is b for b in y.body):
        guard = y
        break
      x = y
    transient = []
    if guard is not None:
      for t in ast.walk(guard.test):
        if isinstance(t, ast.Call):
          roots = {n.id for a in list(t.args) + [k.value for k in t.keywords]
                   for n in ast.walk(a) if isinstance(n, ast.Name)}
          fr = t.func
          while isinstance(fr, ast.Attribute):
            fr = fr.value
          if isinstance(fr, ast.Name) and fr.id in keyed:
            continue          # a method of f / options
          if isinstance(fr, ast.Call):
            continue          # judged at the inner call
          if not (roots & keyed):
            transient.append(core.norm(t))
        elif isinstance(t, ast.Name) and isinstance(t.ctx, ast.Load) and \
            t.id in ccp and t.id not in keyed:
          transient.append(t.id)
    site = '%s:remembers-only-key-determined-decisions#%d' % (cc.site, ncalls)
    rep.check(not (upd and transient), 'CACHE-ALLOWLIST', site,
              'a call that runs the target unconverted and records it in the '
              'negative cache is guarded by a condition that does not depend on '
              '(function, options) alone: the transient decision is served to '
              'every later request for that pair',
              {'guard': core.norm(guard.test) if guard is not None else None,
               'updates_cache': upd, 'not_determined_by_key': transient},
              line=c.lineno,
              witness='first call under do_not_convert / a DISABLED context, '
              'second call of the same function outside it')
  if ncalls < 5:
    raise core.AnalysisError('converted_call: only %d _call_unconverted sites' % ncalls)

  conversion_try_rule(model, rep, 'CACHE-ALLOWLIST')

  # ---------------------------------------------------------------- CACHE-LOCKORDER
  locks = {}   # function -> set of lock names acquired directly
  for m in model.modules.values():
    for fi in m.all_functions():
      for n in core.walk_no_nested(fi.node):
        if isinstance(n, ast.With):
          for it in n.items:
            t = core.norm(it.context_expr)
            if t.endswith('_lock'):
              locks.setdefault(id(fi.node), (fi, {}))[1].setdefault(t, []).append(n)
  cache = {}

  def acquired(fi, depth=0, seen=None):
    """locks acquired (transitively) by calling fi"""
    seen = seen or set()
    if id(fi.node) in seen or depth > 12:
      return set()
    if id(fi.node) in cache:
      return cache[id(fi.node)]
    seen = seen | {id(fi.node)}
    out = set()
    if id(fi.node) in locks:
      out |= set(locks[id(fi.node)][1])
    for c in callees(model, fi):
      out |= acquired(c, depth + 1, seen)
    cache[id(fi.node)] = out
    return out

  edges = set()
  for _, (fi, lk) in locks.items():
    for name, withs in lk.items():
      for wnode in withs:
        inner = set()
        # locks taken by calls made while holding `name`
        fake = core.FuncInfo(fi.module, ast.FunctionDef(
            name=fi.name, args=fi.node.args, body=wnode.body, decorator_list=[],
            lineno=wnode.lineno), cls=fi.cls)
        for c in callees(model, fake):
          inner |= acquired(c)
        for n in ast.walk(wnode):
          if isinstance(n, ast.With) and n is not wnode:
            for it in n.items:
              inner.add(core.norm(it.context_expr))
        for other in inner:
          if other != name:
            edges.add((name, other))
  cyc = [(a, b) for (a, b) in edges if (b, a) in edges]
  rep.check(not cyc, 'CACHE-LOCKORDER', 'malt:lock-order-graph',
            'two locks are acquired in both orders: deadlock is possible',
            {'edges': sorted(edges), 'locks': sorted(
                {n for _, (f, l) in locks.items() for n in l})},
            witness='two threads converting while a third repairs linecache')
  rep.unit('lock acquisition sites', sum(len(l) for _, (f, l) in locks.items()))
  rep.unit('lock order edges', len(edges))

  # ---------------------------------------------------------------- dependencies
  rep.depends('C09', ['IFACE-BIND', 'IFACE-INST'],
              'one cached factory serves every function with that code and those '
              'options: the result is the requested function only if instantiate '
              'binds this request\'s globals, cells, defaults and keyword defaults')
  rep.depends('C20', ['OPT-FIELDS', 'OPT-EQHASH', 'OPT-NORM'],
              'the options value is the cache sub-key: it must compare and hash '
              'over every field')
