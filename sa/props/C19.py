"""C19 — static type inference over-approximates run-time types (mechanism).

 TI-JOIN     types_in = union of out[p] over all predecessors (+ context types
             at the entry)
 TI-STATE    _TypeMap.__or__: per-symbol key union and, for a symbol present on
             both sides, union of the type sets -- nothing is ever removed
 TI-STRONG   types_out starts as a copy of types_in and is overwritten only for
             the symbols the statement (re)defines
 TI-NONE     every visitor that combines operand types reports "unknown" (None)
             when an operand is unknown, before asking the resolver
 TI-UNPACK   unpacking restores the assigned type after visiting the elements
 TI-CLOSURE  closure types recorded for a local function only ever grow
 TI-FLAG / TI-DRIVER / TI-ASDL as for the other analyses
"""
import ast

from sa import core
from sa import formula
from sa import pat
from sa import tpl
from sa import pycfg
from sa import rules_df
from sa import setalg
from sa.formula import atom, implies, equivalent, TRUE
from sa.props import C05 as _c05

TI = 'malt/pyct/static_analysis/type_inference.py'
SHRINK = {'discard', 'remove', 'pop', 'clear', 'difference_update',
          'intersection_update', 'symmetric_difference_update'}


def check(model, rep, tier):
  rep.not_decided = ('soundness with respect to run-time types for a given '
                     'resolver; the resolver itself')
  rep.touch(TI)
  rep.rule('TI-JOIN', 'join over all predecessors', floor=1)
  rep.rule('TI-STATE', 'type map union never removes', floor=3)
  rep.rule('TI-STRONG', 'strong update only for assigned symbols', floor=5)
  rep.rule('TI-NONE', 'unknown operand => unknown result', floor=5)
  rep.rule('TI-UNKNOWN', 'an unknown type absorbs known ones at joins and in annotations', floor=5)
  rep.rule('TI-UNPACK', 'assigned type restored after unpacking', floor=1)
  rep.rule('TI-CLOSURE', 'closure types only grow', floor=2)
  rep.rule('TI-FLAG', 'revisit flag ⇔ out changed', floor=1)
  rep.rule('TI-DRIVER', 'worklist driver', floor=1)
  rep.rule('TI-ASDL', 'field types', floor=10)

  vn = model.func(TI, 'Analyzer.visit_node')
  rules_df.check_join_loop(rep, 'TI-JOIN', vn, 'prev', 'out',
                           'types assigned on a dropped path are missing')

  # ---------------------------------------------------------------- TI-STATE
  tm = model.cls(TI, '_TypeMap')
  rules_df.check_value_type(rep, 'TI-STATE', tm)
  orm = tm.methods.get('__or__')
  if orm is None:
    raise core.AnalysisError('_TypeMap.__or__ not found')
  other = orm.params()[0]

  def at(e):
    t = core.norm(e)
    if t in ('self', 'self.types'):
      return 'SELF'
    if t in (other, other + '.types'):
      return 'OTHER'
    return None

  ev = setalg.Ev(model, orm, at)
  ev.state_classes = {'_TypeMap'}
  rets, _ = ev.run({})
  v = ev.merge_returns(rets)
  ok = isinstance(v, setalg.SetV)
  cex = None
  if ok:
    ok, cex = equivalent(v.f, atom('SELF') | atom('OTHER'))
  rep.check(ok, 'TI-STATE', '%s:keys-union' % orm.site,
            'the joined map must have the symbols of both operands',
            {'formula': str(v.f) if isinstance(v, setalg.SetV) else repr(v),
             'counterexample': cex}, line=orm.node.lineno)
  shr = []
  for n in ast.walk(orm.node):
    if isinstance(n, ast.Call) and isinstance(n.func, ast.Attribute) and \
        n.func.attr in SHRINK:
      # dropping a whole symbol (it is reported with no types at all) is not a
      # removal from a type set
      if n.func.attr == 'pop' and isinstance(n.func.value, ast.Attribute) and \
          n.func.value.attr == 'types':
        continue
      shr.append(core.norm(n))
    if isinstance(n, ast.AugAssign) and isinstance(n.op, (ast.Sub, ast.BitAnd)):
      shr.append(core.norm(n))
    if isinstance(n, (ast.ListComp, ast.SetComp, ast.GeneratorExp)) and any(
        g.ifs for g in n.generators):
      shr.append(core.norm(n))
  upd = [n for n in ast.walk(orm.node) if isinstance(n, ast.Call) and isinstance(
      n.func, ast.Attribute) and n.func.attr == 'update']
  rep.check(not shr and len(upd) == 1, 'TI-STATE', '%s:types-only-united' % orm.site,
            'joining must only add types to a symbol\'s set; removing or '
            'filtering (e.g. dropping subclasses: bool is a subclass of int) '
            'makes the set miss types that occur at run time',
            {'removals': shr}, line=orm.node.lineno,
            witness='x = True on one path, x = 1 on the other')
  init = tm.methods['__init__']
  src = core.norm(init.node)
  ip = init.params()[0]
  copies = False
  for n in ast.walk(init.node):
    # self.types = {k: set(v) for k, v in <init>.types.items()}
    if isinstance(n, ast.DictComp) and len(n.generators) == 1 and not n.generators[0].ifs \
        and core.norm(n.generators[0].iter) == ip + '.types.items()' and isinstance(
            n.generators[0].target, ast.Tuple) and len(n.generators[0].target.elts) == 2:
      k_, v_ = [core.norm(e) for e in n.generators[0].target.elts]
      copies = copies or (core.norm(n.key) == k_ and core.norm(n.value) in (
          'set(%s)' % v_, '%s.copy()' % v_, 'set(%s.copy())' % v_))
    # for k, v in <init>.types.items(): self.types[k] = set(v)
    if isinstance(n, ast.For) and core.norm(n.iter) == ip + '.types.items()' and isinstance(
        n.target, ast.Tuple) and len(n.target.elts) == 2 and len(n.body) == 1 and \
        not any(isinstance(x, (ast.Break, ast.Continue, ast.If)) for x in ast.walk(n)):
      k_, v_ = [core.norm(e) for e in n.target.elts]
      st = n.body[0]
      copies = copies or (isinstance(st, ast.Assign) and core.norm(st.targets[0]) ==
                          'self.types[%s]' % k_ and core.norm(st.value) in (
                              'set(%s)' % v_, '%s.copy()' % v_))
  rep.check(copies,
            'TI-STATE', '%s:copies-sets' % init.site,
            'copying a type map must copy each type set (no sharing between '
            'states)', line=init.node.lineno)

  # ---------------------------------------------------------------- TI-STRONG
  # the state stored into self.out[node]
  vp = vn.params()[0]
  st_out = [n for n in ast.walk(vn.node) if isinstance(n, ast.Assign) and
            core.norm(n.targets[0]) == 'self.out[%s]' % vp]
  st_in = [n for n in ast.walk(vn.node) if isinstance(n, ast.Assign) and
           core.norm(n.targets[0]) == 'self.in_[%s]' % vp]
  if len(st_out) != 1 or len(st_in) != 1:
    raise core.AnalysisError('type inference visit_node: in/out stores not found')
  tout_name = core.norm(st_out[0].value)
  tin_name = core.norm(st_in[0].value)
  infs = [n for n in ast.walk(vn.node) if isinstance(n, ast.Assign) and isinstance(
      n.value, ast.Call) and core.dotted(n.value.func) == 'StmtInferrer']
  inf_name = core.norm(infs[0].targets[0]) if infs else 'inferrer'
  muts = [core.norm(n) for n in ast.walk(vn.node) if isinstance(n, ast.Call) and
          isinstance(n.func, ast.Attribute) and core.norm(n.func.value).startswith(
              tout_name) and n.func.attr in ('update', 'pop', 'clear',
                                             '__setitem__', 'setdefault')]
  asg = [core.norm(n) for n in ast.walk(vn.node) if isinstance(n, ast.Assign) and
         core.norm(n.targets[0]).startswith(tout_name)]
  upd = '%s.types.update(%s.new_symbols)' % (tout_name, inf_name)
  ok = asg == ['%s = _TypeMap(%s)' % (tout_name, tin_name)] and upd in muts and \
      all(m == upd or (m.startswith(tout_name + '.types.pop(') and m.endswith(', None)'))
          for m in muts)
  rep.check(ok, 'TI-STRONG', '%s:copy-then-overwrite-new-symbols' % vn.site,
            'types_out must be a copy of types_in in which only the symbols the '
            'statement assigns are replaced', {'assignments': asg, 'mutations': muts},
            line=vn.node.lineno,
            witness='a variable not touched by the statement keeps all its types')
  # formula of the outgoing key set: new symbols in, stale rebinding out
  def extra(e, aliases):
    t = core.norm(e)
    if t == inf_name + '.new_symbols':
      return 'NEW'
    if t == 'self.context_types':
      return 'CONTEXT'
    return None

  ev2, rets2 = rules_df.eval_visit_node(model, vn, rules_df.df_atoms(vn, extra),
                                        {'_TypeMap'})
  pc2, v2, env2 = rules_df.final_env(rets2)
  tout = env2.get('@self.out[node]')
  if not isinstance(tout, setalg.SetV):
    raise core.AnalysisError('type inference visit_node: out state not evaluated')
  al = setalg.single_assignment_aliases(vn.node)
  sc_atoms = [a for a in tout.f.atoms if a.startswith('OPAQUE[') and
              a.endswith(' is not None]') and 'Static.SCOPE' in core.norm(
                  al.get(a[len('OPAQUE['):-len(' is not None]')], ast.Constant(0)))]
  has_scope = atom(sc_atoms[0]) if sc_atoms else TRUE
  o, cex = implies(atom('NEW'), tout.f)
  rep.check(o, 'TI-STRONG', '%s:new-symbols-recorded' % vn.site,
            'types the statement assigns must be in the outgoing map',
            {'counterexample': cex}, line=vn.node.lineno)
  o, cex = implies(tout.f & (atom('MODIFIED') | atom('DELETED')) & has_scope,
                   atom('NEW'))
  rep.check(o, 'TI-STRONG', '%s:stale-types-dropped' % vn.site,
            'a symbol the statement rebinds or deletes must not keep its '
            'previous types unless the inferrer typed the new value: x += 0.5 '
            'after x = 1, or a for-loop target, would otherwise be reported '
            'with the old type', {'counterexample': cex, 'formula': str(tout.f)[:300]},
            line=vn.node.lineno, witness='x = 1; x += 0.5; y = x')
  # ... and the keys that are dropped are the scope's own qualified names: the
  # table is keyed by QN objects, a QN never equals its string
  pops = [c for c in ast.walk(vn.node) if isinstance(c, ast.Call) and isinstance(
      c.func, ast.Attribute) and c.func.attr == 'pop' and core.norm(
          c.func.value) == tout_name + '.types' and c.args]
  bad_keys = []
  for c in pops:
    k = c.args[0]
    src_ = None
    if isinstance(k, ast.Name):
      for lp_ in ast.walk(vn.node):
        if isinstance(lp_, ast.For) and any(x is c for x in ast.walk(lp_)) and any(
            isinstance(t_, ast.Name) and t_.id == k.id for t_ in ast.walk(lp_.target)):
          src_ = tpl.xnorm(vn, lp_.iter, lp_.iter)
          # (every definition that can reach the loop, when there are several)
          rd_ = tpl.rdefs(vn.node)
          seen_, todo_ = set(), [x for x in ast.walk(lp_.iter) if isinstance(x, ast.Name)]
          at_ = lp_.iter
          while todo_ and len(seen_) < 12:
            nm_ = todo_.pop()
            if nm_.id in seen_:
              continue
            seen_.add(nm_.id)
            for d_ in rd_.reaching(at_, nm_.id) or []:
              if isinstance(d_, ast.AST):
                src_ += ' | ' + core.norm(d_)
    else:
      src_ = core.norm(k)
    if src_ is None or 'str(' in src_ or 'repr(' in src_ or '.format(' in src_:
      bad_keys.append(src_ or core.norm(k))
  rep.check(bool(pops) and not bad_keys, 'TI-STRONG', '%s:dropped-keys-are-qualified-names'
            % vn.site,
            'the symbols whose stale types are dropped must be looked up under the '
            'qualified names the scope holds: a string image of a name never matches '
            'a key of the type table, and nothing is dropped',
            {'key_sources': bad_keys}, line=vn.node.lineno,
            witness='total = 0; total /= 2 -- int is still reported for total')
  join = atom('EXISTS[node.prev]') & atom('NB_OUT')
  o, cex = implies(join & ~atom('MODIFIED') & ~atom('DELETED'), tout.f)
  rep.check(o, 'TI-STRONG', '%s:untouched-symbols-kept' % vn.site,
            'types of symbols the statement does not touch flow through',
            {'counterexample': cex}, line=vn.node.lineno)
  ok = bool(infs) and [core.norm(a) for a in infs[0].value.args] == [
      'self.resolver', 'self.scope', 'self.namespace', 'self.closure_types', tin_name] \
      and pat.has(vn.node, '%s.visit(_N_)' % inf_name)
  rep.check(ok, 'TI-STRONG', '%s:inferrer-reads-types_in' % vn.site,
            'the statement inferrer must read the joined input state',
            line=vn.node.lineno)

  # what the resolver answers is used for the expression it was asked about, not
  # kept in a table: a table keyed by a literal's *value* identifies 0, 0.0 and
  # False (equal, same hash), one keyed by a name forgets rebinding
  si_ = model.cls(TI, 'StmtInferrer')
  memo = []
  n_res = 0
  for mname_, m_ in si_.methods.items():
    for a_ in core.walk_no_nested(m_.node):
      if isinstance(a_, ast.Call) and core.norm(a_.func).startswith('self.resolver.res_'):
        n_res += 1
      if isinstance(a_, ast.Assign) and any(
          isinstance(t_, ast.Subscript) and core.norm(t_.value).startswith('self.')
          for t_ in a_.targets):
        v_ = tpl.expand(m_, a_.value, a_)
        if any(isinstance(c_, ast.Call) and core.norm(c_.func).startswith(
            'self.resolver.res_') for c_ in ast.walk(v_)):
          # keyed by the *value* of a literal (directly, or through a parameter
          # that callers fill with <node>.value / a constant)?  The table of
          # assigned symbols, keyed by qualified names, is the inferrer's output.
          for t_ in a_.targets:
            if not isinstance(t_, ast.Subscript):
              continue
            k_ = t_.slice
            srcs = [tpl.xnorm(m_, k_, a_)]
            if isinstance(k_, ast.Name) and k_.id in m_.params():
              idx_ = m_.params().index(k_.id)
              for m2_ in si_.methods.values():
                for c2_ in ast.walk(m2_.node):
                  if isinstance(c2_, ast.Call) and core.norm(c2_.func) == 'self.' + mname_ \
                      and len(c2_.args) > idx_:
                    x2_ = c2_.args[idx_]
                    srcs.append('<const>' if isinstance(x2_, ast.Constant)
                                else tpl.xnorm(m2_, x2_, c2_))
            if any(s_ == '<const>' or s_.endswith('.value') for s_ in srcs):
              memo.append('%s: %s (key from %s)' % (mname_, core.norm(a_)[:60], srcs))
      if isinstance(a_, ast.Call) and isinstance(a_.func, ast.Attribute) and \
          a_.func.attr == 'setdefault' and core.norm(a_.func.value).startswith('self.') and \
          any(isinstance(c_, ast.Call) and core.norm(c_.func).startswith(
              'self.resolver.res_') for x_ in a_.args for c_ in ast.walk(x_)):
        memo.append('%s: %s' % (mname_, core.norm(a_)[:70]))
  rep.check(n_res >= 5 and not memo, 'TI-NONE', '%s:StmtInferrer:resolver-answers-not-memoised' % TI,
            'an answer of the resolver is stored in a table of the inferrer and '
            'served again for a key that compares equal: equal keys do not mean '
            'equal types', {'stores': memo, 'resolver_calls': n_res},
            witness='count, total = 0, 0.0 -- total is reported as int')
  # ---------------------------------------------------------------- TI-UNKNOWN
  # "x = a; if c: x = <unknown>; return x": the branch that forgets x must say so
  # to the join, or the join reports {type(a)} for a value of another type.  The
  # state therefore carries a set U of symbols bound to a value of unknown type:
  # (1) every symbol dropped by visit_node is added to U; (2) the join unites U
  # and drops every symbol of U from the table, after the tables were united;
  # (3) copying copies U, equality compares U (else the fixed point stops before
  # U has reached a loop head); (4) a node whose types became unknown on a
  # later visit loses the annotation an earlier visit wrote.
  uattr = None
  marked = bool(pops)
  for c in pops:
    blk = None
    for par in ast.walk(vn.node):
      for f_ in ('body', 'orelse'):
        b_ = getattr(par, f_, None)
        if isinstance(b_, list) and any(isinstance(st, ast.Expr) and st.value is c
                                        for st in b_):
          blk = b_
    found = None
    for st in blk or []:
      v_ = st.value if isinstance(st, ast.Expr) else None
      if isinstance(v_, ast.Call) and isinstance(v_.func, ast.Attribute) and \
          v_.func.attr == 'add' and isinstance(v_.func.value, ast.Attribute) and \
          core.norm(v_.func.value.value) == tout_name and len(v_.args) == 1 and \
          core.norm(v_.args[0]) == core.norm(c.args[0]):
        found = v_.func.value.attr
    if found is None:
      marked = False
    else:
      uattr = found
  rep.check(marked, 'TI-UNKNOWN', '%s:forgotten-symbols-marked-unknown' % vn.site,
            'a symbol whose types are dropped (rebound to a value the inferrer '
            'cannot type) must be recorded as unknown in the outgoing state: a '
            'missing entry means "not bound on this path" to the join, which then '
            'reports the other path\'s types alone',
            {'unknown_attribute': uattr}, line=vn.node.lineno,
            witness='x = a; if c: x = t (untyped); return x -- {int} for a str')
  if uattr is not None:
    U = uattr
    res_names = [core.norm(a.targets[0]) for a in ast.walk(orm.node)
                 if isinstance(a, ast.Assign) and isinstance(a.value, ast.Call) and
                 core.dotted(a.value.func) == '_TypeMap' and len(a.value.args) == 1 and
                 core.norm(a.value.args[0]) == 'self']
    rn = res_names[0] if res_names else None
    body_ = orm.node.body
    i_union = i_drop = i_tab = None
    for i, st in enumerate(body_):
      t_ = core.norm(st)
      if rn and t_ in ('%s.%s |= %s.%s' % (rn, U, other, U),
                       '%s.%s.update(%s.%s)' % (rn, U, other, U),
                       '%s.%s = self.%s | %s.%s' % (rn, U, U, other, U),
                       '%s.%s = %s.%s | self.%s' % (rn, U, other, U, U),
                       '%s.%s = self.%s.union(%s.%s)' % (rn, U, U, other, U)):
        i_union = i
      if isinstance(st, ast.For) and core.norm(st.iter).startswith(other + '.types'):
        i_tab = i
      if rn and isinstance(st, ast.For) and isinstance(st.target, ast.Name) and \
          core.norm(st.iter) in ('%s.%s' % (rn, U), 'self.%s | %s.%s' % (U, other, U)) \
          and len(st.body) == 1 and core.norm(st.body[0]) in (
              '%s.types.pop(%s, None)' % (rn, st.target.id),):
        i_drop = i
    ok_j = None not in (i_union, i_drop, i_tab) and i_tab < i_drop and i_union < i_drop \
        and isinstance(body_[-1], ast.Return) and core.norm(body_[-1].value) == rn
    rep.check(ok_j, 'TI-UNKNOWN', '%s:join-absorbs' % orm.site,
              'the join must unite the unknown symbols of both operands and drop '
              'each of them from the united table (after the tables were united): '
              'known | unknown = unknown',
              {'union_at': i_union, 'table_union_at': i_tab, 'drop_at': i_drop},
              line=orm.node.lineno, witness='x = a; if c: x += 1.5; return x')
    cp = any(core.norm(a) in ('self.%s = set(%s.%s)' % (U, ip, U),
                              'self.%s = %s.%s.copy()' % (U, ip, U),
                              'self.%s = set(%s.%s.copy())' % (U, ip, U))
             for a in ast.walk(init.node) if isinstance(a, ast.Assign))
    rep.check(cp, 'TI-UNKNOWN', '%s:copies-unknown' % init.site,
              'a copy of a state must carry (a copy of) its unknown symbols',
              line=init.node.lineno)
    eqm = tm.methods.get('__eq__')
    eo = eqm.params()[0] if eqm else None
    okq = False
    if eqm:
      for x in ast.walk(eqm.node):
        if isinstance(x, ast.If) and core.norm(x.test) in (
            'self.%s != %s.%s' % (U, eo, U), '%s.%s != self.%s' % (eo, U, U),
            'not self.%s == %s.%s' % (U, eo, U)) and len(x.body) == 1 and \
            core.norm(x.body[0]) == 'return False':
          okq = True
        if isinstance(x, ast.BoolOp) and isinstance(x.op, ast.And) and any(
            core.norm(v_) in ('self.%s == %s.%s' % (U, eo, U),
                              '%s.%s == self.%s' % (eo, U, U)) for v_ in x.values) and any(
                isinstance(r, ast.Return) and any(y is x for y in ast.walk(r))
                for r in ast.walk(eqm.node)):
          okq = True
    rep.check(okq, 'TI-UNKNOWN', '%s:equality-compares-unknown' % (eqm.site if eqm else TI),
              'two states that differ in their unknown symbols are different: the '
              'driver stops revisiting when the state is "equal"',
              line=eqm.node.lineno if eqm else None)
  sv = model.func(TI, 'StmtInferrer.visit')
  svp = sv.params()[0]
  okd = False
  for x in ast.walk(sv.node):
    if isinstance(x, ast.If):
      t_ = core.norm(x.test)
      # if T is not None: set ... else / elif: delete
      m_ = [n_ for n_ in ast.walk(sv.node) if isinstance(n_, ast.Call) and core.dotted(
          n_.func) == 'anno.delanno' and len(n_.args) >= 2 and core.norm(n_.args[0]) == svp
            and core.norm(n_.args[1]) == 'anno.Static.TYPES']
      if t_.endswith(' is not None') and any(any(y is d for y in ast.walk(o))
                                             for o in x.orelse for d in m_):
        okd = True
      if t_.endswith(' is None') and any(any(y is d for y in ast.walk(o))
                                         for o in x.body for d in m_):
        okd = True
  rep.check(okd, 'TI-UNKNOWN', '%s:stale-annotation-removed' % sv.site,
            'a statement is visited again when the types reaching it change; when '
            'the result is unknown on the later visit, the annotation written by an '
            'earlier visit (with fewer predecessors seen) must be removed',
            line=sv.node.lineno, witness='x = a; if c: for x in "pq": pass; return x')

  # ---------------------------------------------------------------- TI-NONE
  si = model.cls(TI, 'StmtInferrer')
  for hname in ('visit_BinOp', 'visit_UnaryOp', 'visit_Compare', 'visit_Subscript'):
    h = si.methods.get(hname)
    if h is None:
      rep.violation('TI-NONE', '%s:%s' % (TI, hname), 'handler missing')
      continue
    g = pycfg.CFG(h.node)
    res = [i for i in range(len(g.nodes)) if any(
        core.norm(c.func).startswith('self.resolver.res_')
        for c in pycfg.calls_at(g, i))]
    operands = [core.norm(a.targets[0]) for a in ast.walk(h.node)
                if isinstance(a, ast.Assign) and 'self.visit(' in core.norm(a.value)]
    ok = len(res) == 1 and bool(operands)
    facts = {'operands': operands}
    if ok:
      mand = g.mandatory_edges(res[0])
      proceed = TRUE
      for ti, lab in mand:
        f = formula.bool_formula(g.nodes[ti][1], lambda e: core.norm(e))
        proceed = proceed & (f if lab == 'T' else ~f)
      for v in operands:
        cands = [a for a in proceed.atoms if a.startswith(v + ' is None') or
                 a == 'any((t is None for t in %s))' % v]
        if not cands:
          ok = False
          facts['unguarded'] = v
          continue
        o, _ = implies(proceed & atom(cands[0]), formula.FALSE)
        if not o:
          ok = False
          facts['unguarded'] = v
    rep.check(ok, 'TI-NONE', '%s:%s' % (TI, hname),
              '%s must return None (unknown) when an operand type is unknown, '
              'before consulting the resolver; otherwise a wrong set is reported '
              'instead of nothing' % hname[6:], facts, line=h.node.lineno,
              witness='an operand whose type cannot be inferred')
  vt = si.methods.get('visit_Tuple')
  ok = False
  for n in ast.walk(vt.node):
    if isinstance(n, ast.For) and core.norm(n.iter) == 'node.elts':
      for s in n.body:
        if isinstance(s, ast.If) and core.norm(s.test).endswith('is None') and any(
            isinstance(x, ast.Return) and isinstance(x.value, ast.Constant) and
            x.value.value is None for x in s.body):
          ok = True
  rep.check(ok, 'TI-NONE', '%s:visit_Tuple' % TI,
            'a tuple with an element of unknown type has unknown type',
            line=vt.node.lineno)

  # ---------------------------------------------------------------- TI-UNPACK
  au = si.methods.get('_apply_unpacking')
  g = pycfg.CFG(au.node)
  save = [i for i, (k, a) in enumerate(g.nodes) if isinstance(a, ast.Assign) and
          core.norm(a.value) == 'self.rtype' and isinstance(a.targets[0], ast.Name)]
  ok = len(save) == 1
  facts = {}
  if ok:
    sv = core.norm(g.nodes[save[0]][1].targets[0])
    restore = {i: 1 for i, (k, a) in enumerate(g.nodes) if isinstance(a, ast.Assign)
               and core.norm(a.targets[0]) == 'self.rtype' and core.norm(a.value) == sv}
    loops = [i for i, (k, a) in enumerate(g.nodes) if k == 'test' and
             'node.elts' in core.norm(a)]
    facts = {'saved_in': sv, 'restores': len(restore)}
    ok = bool(restore) and bool(loops)
    if ok:
      # every path from the loop header's exit edge to the function exit
      # passes a restore
      for b, l in g.succ[loops[0]]:
        if l == 'stop':
          rng = g.count_range(restore, start=b, skip_labels=('exc',))
          ok = ok and rng is not None and rng[0] >= 1 or (b in restore)
  rep.check(ok, 'TI-UNPACK', '%s:rtype-restored' % au.site,
            'after assigning element types to the targets of an unpacking, the '
            'type being assigned must be restored: later targets of the same '
            'assignment would otherwise get the last element\'s type', facts,
            line=au.node.lineno, witness='p, q = t = (a, b)')

  # ---------------------------------------------------------------- TI-CLOSURE
  uc = model.func(TI, 'Analyzer._update_closure_types')
  loops = [n for n in ast.walk(uc.node) if isinstance(n, ast.For)]
  ok = len(loops) == 1
  facts = {}
  ex_name = 'existing_types'
  if ok:
    lp = loops[0]
    ifs = [s for s in lp.body if isinstance(s, ast.If)]
    ok = len(lp.body) == 1 and len(ifs) == 1 and isinstance(lp.target, ast.Tuple) and \
        len(lp.target.elts) == 2
    if ok:
      k, v = [core.norm(e) for e in lp.target.elts]
      b = pat.match('%s in _E_' % k, ifs[0].test)
      present, absent = ifs[0].body, ifs[0].orelse
      if b is None:
        b = pat.match('%s not in _E_' % k, ifs[0].test)       # branches the other way
        present, absent = ifs[0].orelse, ifs[0].body
      ok = b is not None and len(present) == 1 and len(absent) == 1 and \
          pat.match('_E_[%s].update(%s)' % (k, v), present[0], b) is not None and \
          pat.match('_E_[%s] = set(%s)' % (k, v), absent[0], b) is not None
      if b:
        ex_name = b['_E_']
    facts = {'loop_body': [core.norm(s) for s in lp.body]}
  whole = [core.norm(n) for n in ast.walk(uc.node) if isinstance(n, ast.Call) and
           core.norm(n.func) in (ex_name + '.update', ex_name + '.clear')]
  rep.check(ok and not whole, 'TI-CLOSURE', '%s:only-grows' % uc.site,
            'types recorded for a captured variable must be united with what '
            'was recorded at earlier call statements, never replaced',
            dict(facts, whole_map_updates=whole), line=uc.node.lineno,
            witness='two statements calling the same local function with the '
            'captured variable re-assigned to another type in between')
  ok = False
  for lp in [l for l in ast.walk(vn.node) if isinstance(l, ast.For) and
             'DEFINED_FNS_IN' in tpl.xnorm(vn, l.iter, l.iter)]:
    lv = core.norm(lp.target)
    calls_ = [st for st in ast.walk(lp) if isinstance(st, ast.Expr) and core.norm(
        st.value) == 'self._update_closure_types(%s, %s)' % (lv, tout_name)]
    ok = len(calls_) == 1
    if ok:
      # within one iteration, the call runs exactly when the statement reads
      # the function's name
      fake = ast.fix_missing_locations(ast.FunctionDef(
          name='_iteration', args=ast.arguments(
              posonlyargs=[], args=[], kwonlyargs=[], kw_defaults=[], defaults=[]),
          body=lp.body, decorator_list=[], lineno=lp.lineno, col_offset=0))
      f = formula.condition_formula(fake, calls_[0], lambda e: core.norm(e))
      ok = len(f.atoms) == 1 and list(f.atoms)[0].startswith(lv + '.name in ') and \
          formula.equivalent(f, formula.atom(list(f.atoms)[0]))[0]
  rep.check(ok, 'TI-CLOSURE', '%s:recorded-at-every-calling-statement' % vn.site,
            'closure types are accumulated at every statement that mentions a '
            'reaching local function', line=vn.node.lineno)

  rules_df.check_change_flag(rep, 'TI-FLAG', vn, 'out')
  rules_df.check_state_eq(model, rep, 'TI-FLAG', model.cls(TI, '_TypeMap'))
  rules_df.check_driver(model, rep, 'TI-DRIVER')
  _c05.asdl_rule(model, rep, 'TI-ASDL', [TI])

  # the types a nested function inherits from its context exclude every name
  # the function binds itself (parameters included)
  ai = model.func(TI, 'Analyzer.__init__')
  comps = [c for c in ast.walk(ai.node) if isinstance(c, ast.DictComp) and
           len(c.generators) == 1 and core.norm(c.generators[0].iter).endswith('.items()')
           and 'closure_types' in core.norm(c.generators[0].iter)]
  ok = len(comps) == 1
  facts_ = {}
  if ok:
    g0 = comps[0].generators[0]
    key = g0.target.elts[0].id if isinstance(g0.target, ast.Tuple) and isinstance(
        g0.target.elts[0], ast.Name) else None
    facts_['conditions'] = [core.norm(i) for i in g0.ifs]
    # some conjunct must be `key not in <scope>.bound` (possibly a superset)
    ok = key is not None and any(
        isinstance(i, ast.Compare) and len(i.ops) == 1 and isinstance(i.ops[0], ast.NotIn)
        and core.norm(i.left) == key and any(
            isinstance(x, ast.Attribute) and x.attr == 'bound'
            for x in ast.walk(i.comparators[0])) and not any(
                isinstance(x, ast.BinOp) and isinstance(x.op, (ast.Sub, ast.BitAnd))
                for x in ast.walk(i.comparators[0]))
        for i in g0.ifs)
  rep.check(ok, 'TI-CLOSURE', '%s:context-excludes-bound-names' % ai.site,
            'a name the nested function binds itself (a parameter, a local) does '
            'not inherit the type of the captured variable of the same name',
            facts_, line=ai.node.lineno,
            witness="x = 'label'; def scale(x): y = x  -- called with an int")

  # ---------------------------------------------------------------- dependencies
  rep.depends('C05', None,
              'types are joined along the edges of this graph: a missing edge '
              'loses the types assigned on that path')
  rep.depends('C07', ['LV-CLOSURE'],
              'closure types are recorded at the call sites that the reaching function definitions (DEFINED_FNS_IN) connect to a local function')
  rep.depends('C08', ['PARAMS', 'ACT-TRAV', 'FINALIZE'],
              'argument types are seeded from the parameters the activity '
              'analysis records, strong updates from its modified sets')
