"""C06 — reaching definitions and defined-on-entry sets (mechanism).

 RD-JOIN      defs_in = union of out[p] over all predecessors
 RD-STATE     _NodeState.__or__ is a per-symbol union containing both operands,
              __sub__ removes only the named symbols (evaluated to formulas)
 RD-TRANSFER  defs_out ⊇ gen ∪ (defs_in − kill), gen ⊇ (bound ∪ globals −
              deleted) ∪ params, kill ⊆ modified ∪ deleted; nodes without scope
              pass their input through
 RD-FLAG      revisit flag ⇔ out changed
 RD-DRIVER    worklist re-enqueues on change / first visit, all evaluated
 RD-ENTRY     defined-on-entry = union of the key sets of out[p] over *all*
              statement predecessors; for-targets annotated at the header node
 RD-CONSUMER  possibly-undefined = modified − defined_in − globals − nonlocals
 RD-ASDL      field types in the analysis' visitors
"""
import ast

from sa import core
from sa import pat
from sa import pycfg
from sa import rules_trav
from sa import tpl
from sa import rules_df
from sa import setalg
from sa.formula import atom, implies, equivalent, TRUE
from sa.props import C03 as _c03
from sa.props import C05 as _c05

RD = 'malt/pyct/static_analysis/reaching_definitions.py'
CF = 'malt/converters/control_flow.py'


def check(model, rep, tier):
  rep.not_decided = ('that the fixed point over-approximates the real last '
                     'writers of every read (soundness w.r.t. executions)')
  rep.touch(RD, CF)
  rep.rule('RD-JOIN', 'join over all predecessors', floor=1)
  rep.rule('RD-STATE', 'state algebra is union / difference', floor=3)
  rep.rule('RD-TRANSFER', 'out ⊇ gen ∪ (in − kill) with the right gen / kill', floor=4)
  rep.rule('RD-FLAG', 'revisit flag ⇔ out changed', floor=1)
  rep.rule('RD-DRIVER', 'worklist driver', floor=1)
  rep.rule('RD-ENTRY', 'defined-on-entry over all statement predecessors', floor=6)
  rep.rule('RD-CONSUMER', 'consumer subtracts exactly defined/global/nonlocal', floor=1)
  rep.rule('RD-ASDL', 'field types', floor=5)
  rep.rule('RD-ANNOT', 'every read is annotated, from the analyzer state of the '
           'scope that evaluates it', floor=6)

  vn = model.func(RD, 'Analyzer.visit_node')
  rules_df.check_join_loop(rep, 'RD-JOIN', vn, 'prev', 'out',
                           'a definition arriving over a dropped edge is lost')

  # ---------------------------------------------------------------- RD-STATE
  ns = model.cls(RD, '_NodeState')
  for op, want in (('__or__', 'union'), ('__sub__', 'difference')):
    m = ns.methods.get(op)
    if m is None:
      raise core.AnalysisError('_NodeState.%s not found' % op)
    other = m.params()[0]

    def at(e, other=other):
      t = core.norm(e)
      if t in ('self', 'self.value'):
        return 'SELF'
      if t in (other, other + '.value'):
        return 'OTHER'
      return None

    ev = setalg.Ev(model, m, at)
    ev.state_classes = {'_NodeState'}
    rets, _ = ev.run({})
    v = ev.merge_returns(rets)
    ok = isinstance(v, setalg.SetV)
    cex = None
    if ok:
      wantf = (atom('SELF') | atom('OTHER')) if want == 'union' else (
          atom('SELF') & ~atom('OTHER'))
      ok, cex = equivalent(v.f, wantf)
    rep.check(ok, 'RD-STATE', '%s:%s' % (m.site, want),
              '_NodeState.%s must be the per-symbol %s of its operands' % (op, want),
              {'formula': str(v.f) if isinstance(v, setalg.SetV) else repr(v),
               'counterexample': cex}, line=m.node.lineno,
              witness='a join that loses the symbols of one operand')
  rules_df.check_value_type(rep, 'RD-STATE', ns)
  orm = ns.methods['__or__']
  rep.check(pat.has(orm.node, '_R_.value[_S_].update(_O_)') and
            pat.has(orm.node, '_R_.value[_S_] = set(_O_)'), 'RD-STATE',
            '%s:definition-sets-united' % orm.site,
            'for a symbol present on both sides the definition sets must be '
            'united (update), not replaced', line=orm.node.lineno)

  # ---------------------------------------------------------------- RD-TRANSFER
  ev, rets = rules_df.eval_visit_node(model, vn, rules_df.df_atoms(vn), {'_NodeState'})
  pc, v, env = rules_df.final_env(rets)
  out = env.get('@self.out[node]')
  inn = env.get('@self.in_[node]')
  if not isinstance(out, setalg.SetV) or not isinstance(inn, setalg.SetV):
    raise core.AnalysisError('visit_node: stored in/out states not evaluated')
  join = atom('EXISTS[node.prev]') & atom('NB_OUT')
  hs = [a for a in out.f.atoms if a.startswith('OPAQUE[anno.hasanno')]
  has_scope = atom(hs[0]) if hs else TRUE
  B, G, D, M, P = map(atom, ['BOUND', 'GLOBALS', 'DELETED', 'MODIFIED', 'PARAMS'])
  checks = [
      ('gen-bound-and-globals', (B | G) & ~D, 'every name the statement binds '
       '(or declares global) and does not delete must be defined afterwards'),
      ('gen-params', P, 'parameters are defined at the arguments node'),
      ('pass-through', join & ~M & ~D, 'a definition reaching the statement '
       'survives unless the statement modifies or deletes that very symbol'),
  ]
  for name, premise, why in checks:
    o, cex = implies(premise & has_scope, out.f)
    rep.check(o, 'RD-TRANSFER', '%s:%s' % (vn.site, name),
              'defs_out misses symbols it must contain: %s' % why,
              {'counterexample': cex, 'formula': str(out.f)[:300]},
              line=vn.node.lineno,
              witness={'pass-through': 'del d[k] followed by a read of d: the '
                       'definition of d must survive'}.get(name, 'a read after '
                                                           'the statement'))
  o, cex = implies(join & ~has_scope, out.f) if hs else (True, None)
  rep.check(o, 'RD-TRANSFER', '%s:ignorable-nodes-identity' % vn.site,
            'nodes without a scope (break/continue/raise/pass) must pass their '
            'input through', {'counterexample': cex}, line=vn.node.lineno)
  rules_df.check_loop_target_kill(model, rep, 'RD-TRANSFER')
  o, cex = equivalent(inn.f, join)
  rep.check(o, 'RD-TRANSFER', '%s:in-is-the-join' % vn.site,
            'self.in_[node] must be exactly the joined predecessor state',
            {'counterexample': cex, 'formula': str(inn.f)}, line=vn.node.lineno)

  # ---------------------------------------------------------------- RD-FLAG / DRIVER
  rules_df.check_change_flag(rep, 'RD-FLAG', vn, 'out')
  rules_df.check_state_eq(model, rep, 'RD-FLAG', model.cls(RD, '_NodeState'))
  rules_df.check_state_encapsulated(model, rep, 'RD-TRANSFER', RD, model.cls(RD, '_NodeState'), 'value')
  rules_df.check_driver(model, rep, 'RD-DRIVER')
  ta = model.cls(RD, 'TreeAnnotator')
  vf = ta.methods['visit_FunctionDef']
  rep.check(pat.has(vf.node, '_A_.visit_forward()'), 'RD-DRIVER',
            '%s:forward' % vf.site, 'reaching definitions is a forward analysis',
            line=vf.node.lineno, nontrivial=False)

  # ---------------------------------------------------------------- RD-ENTRY
  ag = ta.methods.get('_aggregate_predecessors_defined_in')
  if ag is None:
    raise core.AnalysisError('_aggregate_predecessors_defined_in not found')
  loops = [n for n in ast.walk(ag.node) if isinstance(n, ast.For)]
  ok = len(loops) == 1
  facts = {}
  if ok:
    lp = loops[0]
    ap = ag.params()[0]
    facts = {'loop_over': core.norm(lp.iter), 'body': [core.norm(s) for s in lp.body]}
    lv = core.norm(lp.target)
    it = tpl.xnorm(ag, lp.iter, lp.iter)
    ok = it == 'self.current_analyzer.graph.stmt_prev[%s]' % ap and len(lp.body) == 1
    if ok:
      b = pat.match('_S_ |= set(self.current_analyzer.out[%s].value.keys())' % lv,
                    lp.body[0]) or pat.match(
                        '_S_.update(self.current_analyzer.out[%s].value.keys())' % lv,
                        lp.body[0])
      sets_ = [c for c in ast.walk(ag.node) if isinstance(c, ast.Call) and
               core.dotted(c.func) == 'anno.setanno' and len(c.args) == 3 and
               core.norm(c.args[0]) == ap and
               core.norm(c.args[1]) == 'anno.Static.DEFINED_VARS_IN']
      ok = b is not None and len(sets_) == 1 and core.norm(
          tpl.expand(ag, sets_[0].args[2], sets_[0], depth=1)) in (
              'frozenset(%s)' % b['_S_'], b['_S_'])
  rep.check(ok, 'RD-ENTRY', '%s:all-statement-predecessors' % ag.site,
            'defined-on-entry must unite the symbols of out[p] for every '
            'statement predecessor p (jump nodes included: they pass their '
            'input through)', facts, line=ag.node.lineno,
            witness='a statement entered through break / continue / raise with '
            'a variable bound only on that path')
  for h in ('visit_If', 'visit_For', 'visit_While', 'visit_Try', 'visit_ExceptHandler'):
    m = ta.methods.get(h)
    ok = m is not None and core.norm(m.node.body[0]) == \
        'self._aggregate_predecessors_defined_in(node)'
    rep.check(ok, 'RD-ENTRY', '%s:%s:annotates-entry' % (RD, h),
              '%s must record the defined-on-entry set' % h[6:],
              line=m.node.lineno if m else None)
  vfor = ta.methods['visit_For']
  fp = vfor.params()[0]
  body = vfor.node.body
  # in program order: remember the current CFG node, switch to the loop header
  # (node.iter), visit the target there, switch back -- whatever the locals are
  # called and whether the visit sits in a helper (new helpers are expanded)
  stage = 0
  saved = None
  for st in body:
    if stage == 0 and isinstance(st, ast.Assign) and core.norm(st.value) == \
        'self.current_cfg_node' and isinstance(st.targets[0], ast.Name):
      saved = st.targets[0].id
      stage = 1
    elif stage == 1 and isinstance(st, ast.Assign) and core.norm(st.targets[0]) == \
        'self.current_cfg_node' and tpl.xnorm(vfor, st.value, st) == \
        'self.current_analyzer.graph.index[%s.iter]' % fp:
      stage = 2
    elif stage == 2 and any(
        isinstance(c, ast.Call) and core.norm(c.func) == 'self.visit' and c.args and
        tpl.xnorm(vfor, c.args[0], st) == '%s.target' % fp for c in ast.walk(st)):
      stage = 3
    elif stage == 3 and isinstance(st, ast.Assign) and core.norm(st.targets[0]) == \
        'self.current_cfg_node' and core.norm(st.value) == saved:
      stage = 4
    elif stage in (2, 3) and any(isinstance(c, ast.Call) and core.norm(c.func) in (
        'self.visit', 'self.visit_block', 'self.generic_visit') for c in ast.walk(st)) and \
        stage == 2:
      break          # something else is visited under the header node first
  ok = stage == 4
  rep.check(ok, 'RD-ENTRY', '%s:for-target-at-header' % vfor.site,
            'the loop target must be annotated with the state of the loop header '
            'node (node.iter), where its assignment is recorded', line=vfor.node.lineno)

  # ---------------------------------------------------------------- RD-CONSUMER
  fi, ev2, v2, renv = _c03.eval_block_vars(model)
  und = v2.items[1] if isinstance(v2, setalg.TupleV) else None
  ok = isinstance(und, setalg.SetV)
  cex = None
  if ok:
    want = atom('MODIFIED') & ~atom('DEFINED_IN') & ~atom('FN.globals') & \
        ~atom('FN.nonlocals') & ~atom('is_composite')
    ok, cex = equivalent(und.f, want)
  rep.check(ok, 'RD-CONSUMER', '%s:possibly-undefined' % fi.site,
            'placeholders for undefined symbols must be created exactly for '
            'simple symbols modified in the statement that are not defined on '
            'entry and are neither global nor nonlocal',
            {'counterexample': cex, 'formula': str(und.f) if ok or und else None},
            line=fi.node.lineno)

  _c05.asdl_rule(model, rep, 'RD-ASDL', [RD])

  # ---------------------------------------------------------------- RD-ANNOT
  rules_trav.analysis_trav(model, rep, 'RD-ANNOT', RD, 'TreeAnnotator',
                           {('FunctionDef', 'type_params'): 'PEP 695, outside the subset'})
  # default values are evaluated by the defining scope: they must be visited
  # before the annotator switches to the nested function's analyzer
  ta = model.cls(RD, 'TreeAnnotator')
  vf = ta.methods.get('visit_FunctionDef')
  if vf is None:
    raise core.AnalysisError('reaching_definitions.TreeAnnotator.visit_FunctionDef not found')
  g = pycfg.CFG(vf.node)
  vp = vf.params()[0]
  switch = [i for i, (k, a) in enumerate(g.nodes) if k == 'stmt' and isinstance(
      a, ast.Assign) and core.norm(a.targets[0]) == 'self.current_analyzer' and
            isinstance(a.value, ast.Name) and any(
                isinstance(d, ast.Call) and core.dotted(d.func) == 'Analyzer'
                for d in (tpl.rdefs(vf.node).reaching(a, a.value.id) or [])
                if isinstance(d, ast.AST))]
  dflt = []
  for i in range(len(g.nodes)):
    for c in pycfg.calls_at(g, i):
      if core.dotted(c.func) in ('self.visit', 'self.visit_block', 'self.generic_visit') \
          and c.args and core.norm(c.args[0]) in (
              vp + '.args', vp + '.args.defaults', vp + '.args.kw_defaults'):
        dflt.append((i, core.norm(c.args[0])))
  ok = len(switch) == 1 and bool(dflt) and all(
      switch[0] in g.reachable(i) and i not in g.reachable(switch[0]) for i, _ in dflt)
  rep.check(ok, 'RD-ANNOT', '%s:defaults-under-the-defining-scope' % vf.site,
            'the default values of a nested function are evaluated by the '
            'defining scope when the def statement runs, but they are visited '
            'after the annotator switched to the nested function\'s own '
            'analyzer: a read in a default gets the (empty) definitions of the '
            'inner function', {'visits': [t for _, t in dflt],
                               'analyzer_switches': len(switch)},
            line=vf.node.lineno, witness='x = 1; def h(a=x): return a')

  rules_trav.cursor_scoped(model, rep, 'RD-ANNOT', RD, 'TreeAnnotator')

  # ---------------------------------------------------------------- dependencies
  rep.depends('C05', None,
              'reaching definitions are propagated along the edges of this graph: '
              'a missing edge loses the definitions that travel over it')
  rep.depends('C08', None,
              'definitions are generated from the modified / bound / parameter '
              'sets of the activity analysis: a store it does not visit (walrus '
              'targets can sit in any expression field) generates no definition')
