"""C11 — generated names never capture, shadow or clash with user names.

Every identifier the converter can put into generated code comes from one of
four sources, each enumerated completely:
 HYG-RESERVED  Namer.new_symbol(root, reserved) call sites: `reserved` must be
               `.referenced` of a scope annotation of the node being converted
               (or a recorded exception), and Scope.referenced must be computed
               on demand from read | bound | parent.referenced
 HYG-NAMER     new_symbol keeps trying while the candidate is in the namespace,
               in the reserved set or among the generated names (formula over the
               loop test, for *every* candidate), records and returns the result
 HYG-BIND      every parameter is recorded as bound, in the defining pass too
 HYG-BINDER    a literal identifier bound by a template must not share a scope
               with placeholders that can bring in user identifiers
 HYG-FREE      literal free names in templates and names in hand-built nodes
               must be in the allow-list {ag__} (builtins spelled by name are
               capturable by a user local of that name)
"""
import ast
import builtins
import keyword

from sa import core
from sa import formula
from sa import pat
from sa import rules_qn
from sa import facts
from sa import setalg
from sa import tpl
from sa.formula import atom, implies, TRUE

NAMING = 'malt/pyct/naming.py'
ACT = 'malt/pyct/static_analysis/activity.py'
ALLOWED_FREE = {'ag__'}

# new_symbol sites whose reserved set is not a scope's `referenced`, with reason
RESERVED_EXCEPTIONS = {
    'malt/pyct/transpiler.py:_PythonFnFactory.create':
        'factory names live in the generated module, outside the user function; '
        'the namer still avoids the function\'s globals and closure',
    'malt/pyct/transpiler.py:GenericTranspiler.transform_function':
        'entity name: generated against the function namespace, bound only as a '
        'local of the inner factory',
    'malt/converters/control_flow.py:ControlFlowTransformer._create_state_functions':
        'setter parameter: shares its scope only with the state variables, whose '
        'support symbols are reserved',
}


def check(model, rep, tier):
  rep.not_decided = 'differential behaviour at run time'
  rep.touch(NAMING, ACT)
  rep.rule('HYG-RESERVED', 'reserved set of every new_symbol call covers reads '
           'and bindings of the enclosing function and its parents', floor=22)
  rep.rule('HYG-NAMER', 'candidate rejected while in namespace / reserved / '
           'generated; result recorded', floor=4)
  rep.rule('HYG-BIND', 'parameters bound in, and scope names reserved against, the function\'s own scope', floor=5)
  rep.rule('HYG-BINDER', 'no literal binder next to user identifiers', floor=40)
  rep.rule('HYG-FREE', 'no capturable literal free name', floor=40)
  rep.rule('HYG-HIDDEN', 'names bound by constructs the scope analysis keeps out of '
           'its sets (comprehension targets, except-as names) still reach '
           'Scope.referenced, the set generated names are reserved against', floor=2)
  act = 'malt/pyct/static_analysis/activity.py'
  sc = model.cls(act, 'Scope')
  refp = sc.methods.get('referenced')
  ref_sets = {n.attr for n in ast.walk(refp.node) if isinstance(n, ast.Attribute) and
              isinstance(n.value, ast.Name) and n.value.id == 'self' and
              n.attr not in ('parent', 'referenced')} if refp else set()
  ts = model.func(act, 'ActivityAnalyzer._track_symbol')
  comp_ifs = [i for i in ast.walk(ts.node) if isinstance(i, ast.If) and
              '_Comprehension' in core.norm(i.test) and 'level' in core.norm(i.test)]
  ok = bool(comp_ifs) and bool(ref_sets)
  if ok:
    ok = all(any(isinstance(c, ast.Call) and isinstance(c.func, ast.Attribute) and
                 c.func.attr == 'add' and isinstance(c.func.value, ast.Attribute) and
                 c.func.value.attr in ref_sets and core.norm(c.func.value.value) == 'self.scope'
                 for st in i.body for c in ast.walk(st)) for i in comp_ifs)
  rep.check(ok, 'HYG-HIDDEN', '%s:comprehension-targets-reserved' % ts.site,
            'a comprehension target is kept out of every Scope set, so it is not '
            'in Scope.referenced either: a generated name (fscope, do_return, ...) '
            'can coincide with it, and generated code inside the comprehension '
            'then sees the user\'s variable', {'referenced_unions': sorted(ref_sets)},
            line=ts.node.lineno,
            witness='return [g(fscope) for fscope in xs]')
  eh = model.func(act, 'ActivityAnalyzer.visit_ExceptHandler')
  adds = {c.func.value.attr for c in ast.walk(eh.node) if isinstance(c, ast.Call) and
          isinstance(c.func, ast.Attribute) and c.func.attr == 'add' and
          isinstance(c.func.value, ast.Attribute) and
          core.norm(c.func.value.value) == 'self.scope'}
  rep.check(bool(adds & ref_sets), 'HYG-HIDDEN', '%s:except-names-reserved' % eh.site,
            'the name bound by `except E as name` is recorded as isolated only: it '
            'never reaches Scope.referenced of the function, so a generated name '
            'can coincide with it', {'recorded_in': sorted(adds),
                                     'referenced_unions': sorted(ref_sets)},
            line=eh.node.lineno,
            witness='except TypeError as do_return: return str(do_return)')
  rep.rule('HYG-SUPPORT', 'the support of a composite state variable contains '
           'every plain name in it (the setter parameter is reserved against '
           'the union of the supports)', floor=3)
  rules_qn.support(model, rep, 'HYG-SUPPORT')
  # the reserved sets are scope.referenced of the enclosing blocks: whatever a
  # statement records there must stay
  from sa.props import C08 as _c08
  rep.rule('HYG-SCOPE-GROWS', 'names recorded in a scope are never removed from it '
           '(reserved sets are read off the scopes)', floor=1)
  _c08.scope_grows(model, rep, 'HYG-SCOPE-GROWS')
  rep.depends('C08', ['BIND-EXH', 'PARAMS'],
              'a parameter recorded in the scope that defines a nested function hides '
              'that function\'s free reads from the enclosing scopes, whose referenced '
              'sets are the reserved sets', site_filter=lambda site: 'arg' in site)

  # ---------------------------------------------------------------- HYG-RESERVED
  n_sites = 0
  for m in model.modules.values():
    for fi in m.all_functions():
      for c in core.walk_no_nested(fi.node):
        if not (isinstance(c, ast.Call) and isinstance(c.func, ast.Attribute) and
                c.func.attr == 'new_symbol' and len(c.args) == 2):
          continue
        if 'namer' not in core.norm(c.func.value):
          continue
        n_sites += 1
        rep.touch(m.rel)
        root = core.norm(c.args[0])
        site = '%s:new_symbol(%s)' % (fi.site, root)
        res = c.args[1]
        exprs = _reserved_atoms(fi, res, c)
        # lower bound: the union must contain `referenced` of a scope of the
        # node; further operands only reserve more
        refs = [e for e in exprs if e.endswith('.referenced')]
        ok = bool(refs)
        scopes_ok = True
        if ok:
          # each scope must come from an annotation of the handler's node
          for e in refs:
            sv = e[:-len('.referenced')]
            if not sv.isidentifier():
              # the annotation read directly: anno.getanno(node, ..SCOPE).referenced
              if 'anno.getanno(' not in sv or 'SCOPE' not in sv.upper():
                scopes_ok = False
              continue
            ds = tpl.rdefs(fi.node).reaching(c, sv)
            if not ds or any(isinstance(d, tuple) or 'anno.getanno(' not in
                             core.norm(d) or 'SCOPE' not in core.norm(d).upper()
                             for d in ds):
              scopes_ok = False
        if ok and scopes_ok:
          rep.hold('HYG-RESERVED', site, {'reserved': exprs})
        elif fi.site in RESERVED_EXCEPTIONS:
          rep.hold('HYG-RESERVED', site, {'reserved': core.norm(res),
                                          'exception': RESERVED_EXCEPTIONS[fi.site]},
                   nontrivial=False)
        else:
          rep.violation(
              'HYG-RESERVED', site,
              'the reserved set handed to new_symbol is not the `referenced` set '
              'of a scope of the node being converted: a user name of the '
              'enclosing function can be chosen as generated name',
              {'reserved': core.norm(res), 'resolved': exprs}, line=c.lineno,
              witness='a user variable called %s (or a numbered variant)' % root)
  rep.unit('new_symbol call sites', n_sites)

  # Scope.referenced: on-demand formula
  sc = model.cls(ACT, 'Scope')
  ref = sc.methods.get('referenced')
  if ref is None:
    raise core.AnalysisError('Scope.referenced not found')

  def atom_of(e):
    t = core.norm(e)
    return {'self.read': 'READ', 'self.bound': 'BOUND', 'self.modified': 'MODIFIED',
            'self.parent.referenced': 'PARENT_REFERENCED'}.get(t)

  ev = setalg.Ev(model, ref, atom_of)
  rets, _ = ev.run({})
  ok = bool(rets)
  cex = None
  texts = []
  for pc, v, _ in rets:
    if not isinstance(v, setalg.SetV):
      ok = False
      texts.append(repr(v))
      continue
    texts.append(str(v.f))
    has_parent = 'parent is not None' in str(pc) and not str(pc).startswith('~')
    need = atom('READ') | atom('BOUND')
    o, cx = implies(need, v.f)
    if not o:
      ok, cex = False, cx
    extra = v.f.atoms - {'READ', 'BOUND', 'MODIFIED', 'PARENT_REFERENCED'}
    if extra:
      ok, cex = False, {'unexpected_inputs': sorted(extra)}
  parent_paths = [v for pc, v, _ in rets if isinstance(v, setalg.SetV) and
                  'PARENT_REFERENCED' in v.f.atoms]
  rep.check(ok and bool(parent_paths), 'HYG-RESERVED', '%s:formula' % ref.site,
            'Scope.referenced must be read | bound | parent.referenced, computed '
            'from the current sets (a scope is finalized before its parents are '
            'complete, so a snapshot misses names that occur later)',
            {'returns': texts, 'counterexample': cex}, line=ref.node.lineno,
            witness='a user name equal to a helper root that first occurs after '
            'the construct, or that is only assigned')
  cached = [n for n in ast.walk(ref.node) if isinstance(n, ast.Attribute) and
            isinstance(n.value, ast.Name) and n.value.id == 'self' and
            n.attr not in ('read', 'bound', 'modified', 'parent')]
  rep.check(not cached, 'HYG-RESERVED', '%s:no-snapshot' % ref.site,
            'Scope.referenced reads a stored attribute instead of the live sets',
            {'attributes': sorted({c.attr for c in cached})}, line=ref.node.lineno)

  # ---------------------------------------------------------------- the three
  # sites that reserve against something other than a scope (RESERVED_EXCEPTIONS)
  # each rely on one more fact; these are checked here
  from sa import family
  csf = model.func('malt/converters/control_flow.py',
                   'ControlFlowTransformer._create_state_functions')
  bvp = csf.params()[0]
  ok = False
  facts_ = {}
  for c in ast.walk(csf.node):
    if isinstance(c, ast.Call) and isinstance(c.func, ast.Attribute) and \
        c.func.attr == 'new_symbol' and len(c.args) == 2:
      uf = family.union_family(csf, c.args[1], c)
      facts_ = {'reserved': core.norm(c.args[1])[:80], 'as_union': uf}
      ok = uf == (bvp, 'N.support_set')
  rep.check(ok, 'HYG-SUPPORT', '%s:setter-parameter-reserved-against-supports' % csf.site,
            'the setter parameter shares its scope with every plain name that '
            'occurs in a state variable (self in self.x, d and k in d[k]): it '
            'must be reserved against the union of their support sets; the '
            'composite names themselves reserve nothing (new_symbol only looks '
            'at the name parts of simple names)', facts_, line=csf.node.lineno,
            witness='a user variable vars_ that occurs only as vars_.total = ... in an if')
  tfn = model.func('malt/pyct/transpiler.py', 'GenericTranspiler.transform_function')
  ok = False
  for c in ast.walk(tfn.node):
    if isinstance(c, ast.Call) and isinstance(c.func, ast.Attribute) and \
        c.func.attr == 'new_symbol' and c.args:
      root = tpl.expand(tfn, c.args[0], c)
      ok = isinstance(root, ast.Call) and core.norm(root.func) == 'self.get_transformed_name'
  api_gtn = model.func('malt/impl/api.py', 'PyToPy.get_transformed_name')
  rets_ = [r for r in ast.walk(api_gtn.node) if isinstance(r, ast.Return)]
  ok2 = len(rets_) == 1 and isinstance(rets_[0].value, ast.BinOp) and isinstance(
      rets_[0].value.left, ast.Constant) and str(rets_[0].value.left.value).startswith('ag__')
  rep.check(ok and ok2, 'HYG-RESERVED', '%s:entity-name-through-the-hook' % tfn.site,
            'the emitted function is named through the overridable '
            'get_transformed_name hook, which prefixes ag__: under its own name '
            'the generated def captures every use of that name in its body '
            '(a method called like a builtin it calls)',
            {'hook_used': ok, 'prefixing_override': ok2}, line=tfn.node.lineno,
            witness='def max(self, floor): ... max(self.values)')
  gns = model.func('malt/pyct/inspect_utils.py', 'getnamespace')
  gp = gns.params()[0]
  rets_ = [r for r in ast.walk(gns.node) if isinstance(r, ast.Return)]
  ok = False
  if rets_ and all(isinstance(r.value, ast.Name) for r in rets_) and len(
      {r.value.id for r in rets_}) == 1:
    nsn = rets_[0].value.id
    inits = [a for a in ast.walk(gns.node) if isinstance(a, ast.Assign) and
             core.norm(a.targets[0]) == nsn]
    ok = len(inits) == 1 and core.norm(inits[0].value) in (
        'dict(%s.__globals__)' % gp, '%s.__globals__.copy()' % gp,
        '{**%s.__globals__}' % gp)
  rep.check(ok, 'HYG-RESERVED', '%s:all-globals' % gns.site,
            'the namespace the Namer avoids must contain *every* global of the '
            'function: names read only from nested lambdas / defs are not in '
            'the function\'s own co_names, and the factory names are generated '
            'with an empty reserved set', line=gns.node.lineno,
            witness='a global called inner_factory read only inside a nested lambda')

  # ---------------------------------------------------------------- HYG-NAMER
  ns = model.func(NAMING, 'Namer.new_symbol')
  loops = [s for s in ns.node.body if isinstance(s, ast.While)]
  if len(loops) != 1:
    raise core.AnalysisError('Namer.new_symbol: expected one while loop')
  lp = loops[0]
  idx = ns.node.body.index(lp)
  params = ns.params()

  def atom_of2(e):
    t = core.norm(e)
    if t == 'self.global_namespace':
      return 'NAMESPACE'
    if t == 'self.generated_names':
      return 'GENERATED'
    if t == params[1]:
      return 'RESERVED'
    return None

  after = ns.node.body[idx + 1:]
  retn = [core.norm(x.value) for x in after if isinstance(x, ast.Return)]
  cand = retn[0] if len(retn) == 1 else 'new_name'   # the candidate variable
  env = {}
  ev2 = _NamerEv(model, ns, atom_of2, elem_names={cand})
  rets = []
  ev2.block(ns.node.body[:idx], env, TRUE, rets, 0)
  test = ev2.cond(lp.test, env)
  res_ok = atom('RESERVED') & _any_isinstance(test)
  checks = {
      'namespace': implies(atom('NAMESPACE'), test),
      'generated': implies(atom('GENERATED'), test),
      'reserved': implies(res_ok, test),
  }
  for nm, (o, cx) in checks.items():
    rep.check(o, 'HYG-NAMER', '%s:loop-rejects(%s)' % (ns.site, nm),
              'a candidate that is in the %s set is accepted: the loop test must '
              'reject it for every candidate, numbered ones included' % nm,
              {'loop_test': core.norm(lp.test), 'formula': str(test),
               'counterexample': cx}, line=lp.lineno,
              witness='globals `ag__f` and `ag__f_1` (root and its next variant '
              'both taken)')
  body_ok = any(isinstance(s, ast.Assign) and core.norm(s.targets[0]) == cand
                for s in lp.body)
  rec = any(isinstance(s, ast.Expr) and core.norm(s.value) ==
            'self.generated_names.add(%s)' % cand for s in after)
  ret = len(retn) == 1
  rep.check(body_ok and rec and ret, 'HYG-NAMER', '%s:records-result' % ns.site,
            'the accepted name must be recorded in generated_names and returned',
            {'recorded': rec, 'returned': ret}, line=ns.node.lineno,
            witness='two helpers generated from the same root in one function')

  # ---------------------------------------------------------------- HYG-BIND
  from sa import rules_trav as _rt
  va, vc = _rt.visit_arg_conditions(model)
  add_nodes = [1] * vc['n_bound']
  bad = []
  if vc['bound'] is None or not formula.implies(
      ~formula.atom('ANNOT') & formula.atom('HASQN'), vc['bound'])[0]:
    bad.append(str(vc['bound']))
  rep.check(not bad and bool(add_nodes), 'HYG-BIND', '%s:always-bound' % va.site,
            'a parameter is not recorded as bound in the function\'s own scope '
            'on some path of the declaration pass', {'paths_without_binding': bad},
            line=va.node.lineno, witness='a lambda whose parameter is called lscope')
  # names bound *inside* a function (the scope object name) must be reserved
  # against a scope of that function, which holds its parameters
  fm = model.module('malt/converters/functions.py')
  rep.touch(fm.rel)
  for hname in ('visit_Lambda', 'visit_FunctionDef'):
    h = model.cls(fm.rel, 'FunctionTransformer').methods[hname]
    calls = [c for c in ast.walk(h.node) if isinstance(c, ast.Call) and isinstance(
        c.func, ast.Attribute) and c.func.attr == 'new_symbol']
    ok = len(calls) == 1
    keytxt = None
    lam_ok = False
    if ok:
      leaves = _union_leaves(tpl.expand(h, calls[0].args[1], calls[0]))
      keytxt = [core.norm(l) for l in leaves]
      ok = any(t.endswith('.referenced') and ('NodeAnno.BODY_SCOPE' in t or
                                              'NodeAnno.ARGS_AND_BODY_SCOPE' in t)
               for t in keytxt)
      # nested lambdas share this function's scope object: their parameter
      # names must be reserved as well
      for l in leaves:
        if isinstance(l, ast.Call) and core.dotted(l.func):
          r = model.resolve(fm, l.func)
          if r and r[0] == 'func':
            src = core.norm(r[1].node)
            lam_ok = 'ast.Lambda' in src and all(k in src for k in (
                'posonlyargs', '.args', 'kwonlyargs', 'vararg', 'kwarg')) and \
                '.arg' in src
            # every parameter of every nested lambda is collected: the helper
            # yields <p>.arg for every non-None p of the five parameter groups
            # of every Lambda found by ast.walk (loops, guard clauses and
            # comprehensions are all read as generator levels)
            from sa import collect
            hf = r[1]
            hp = hf.params()[0] if hf.params() else 'node'
            ys, problems = collect.yields(hf.node)
            groups = set()
            skips_root = []
            shape_ok = bool(ys) and not problems
            for levels, elt, _acc in ys:
              if len(levels) != 2:
                shape_ok = False
                continue
              l1, l2 = levels
              t1, t2 = l1['target'], l2['target']

              def at1(e, t1=t1):
                t = core.norm(e)
                if t == 'isinstance(%s, ast.Lambda)' % t1:
                  return 'LAMBDA'
                if t == '%s is %s' % (t1, hp):
                  return 'SELF'
                return None
              c1 = formula.TRUE
              for pol, t in l1['conds']:
                f_ = formula.bool_formula(t, at1)
                c1 = c1 & (f_ if pol == 'T' else ~f_)
              L, S = formula.atom('LAMBDA'), formula.atom('SELF')
              ok1 = core.norm(l1['iter']) == 'ast.walk(%s)' % hp and (
                  formula.equivalent(c1, L & ~S)[0] or formula.equivalent(c1, L)[0])
              if formula.equivalent(c1, L & ~S)[0]:
                skips_root.append(True)
              c2 = formula.TRUE
              for pol, t in l2['conds']:
                f_ = formula.bool_formula(
                    t, lambda e, t2=t2: 'NONE' if core.norm(e) == t2 + ' is None' else None)
                c2 = c2 & (f_ if pol == 'T' else ~f_)
              ok2 = formula.equivalent(c2, ~formula.atom('NONE'))[0] or (
                  formula.equivalent(c2, formula.TRUE)[0])
              if not (ok1 and ok2 and core.norm(elt) == t2 + '.arg'):
                shape_ok = False
                continue
              got = {x.attr for x in ast.walk(l2['iter']) if isinstance(x, ast.Attribute)
                     and core.norm(x.value) == t1 + '.args'}
              # without the None filter only the list-valued groups are safe --
              # unless the optional ones are filtered where they are listed:
              # ... + [a for a in (n.args.vararg, n.args.kwarg) if a is not None]
              if not formula.equivalent(c2, ~formula.atom('NONE'))[0]:
                filtered = set()
                for lc_ in ast.walk(l2['iter']):
                  if isinstance(lc_, (ast.ListComp, ast.GeneratorExp)) and len(
                      lc_.generators) == 1 and isinstance(
                          lc_.generators[0].target, ast.Name) and isinstance(
                              lc_.generators[0].iter, (ast.Tuple, ast.List)):
                    v_ = lc_.generators[0].target.id
                    if core.norm(lc_.elt) == v_ and [core.norm(i_) for i_ in
                                                     lc_.generators[0].ifs] == [
                                                         '%s is not None' % v_]:
                      filtered |= {x.attr for x in lc_.generators[0].iter.elts
                                   if isinstance(x, ast.Attribute) and
                                   core.norm(x.value) == t1 + '.args'}
                got -= ({'vararg', 'kwarg'} - filtered)
              groups |= got
            lam_ok = lam_ok and shape_ok and {'posonlyargs', 'args', 'kwonlyargs',
                                              'vararg', 'kwarg'} <= groups
            # the tree searched: the function being converted (a helper that
            # skips its root must be given exactly that node, or the lambda that
            # is the root of what it is given goes unreserved)
            hp0 = h.params()[0]

            class _Vis(ast.NodeTransformer):
              def visit_Call(self, c_):
                self.generic_visit(c_)
                if core.norm(c_.func) in ('self.generic_visit', 'self.visit') and \
                    len(c_.args) == 1:
                  return c_.args[0]
                return c_
            arg0 = core.norm(_Vis().visit(tpl.expand(h, l.args[0], calls[0]))) \
                if l.args else None
            lam_ok = lam_ok and (arg0 == hp0 or (not skips_root and arg0 in (
                hp0 + '.body', hp0)))
    rep.check(lam_ok, 'HYG-BIND', '%s:nested-lambda-parameters-reserved' % h.site,
              'lambdas nested in the function get no scope object of their own: '
              'generated calls in their bodies name the enclosing function\'s '
              'scope object, so that name must be kept apart from the nested '
              'lambdas\' parameter names', {'reserved': keytxt}, line=h.node.lineno,
              witness='key = lambda fscope: abs(fscope) inside a converted function')
    rep.check(ok, 'HYG-BIND', '%s:reserved-against-own-scope' % h.site,
              'the generated scope-object name is bound inside the function '
              '(with ... as / lambda parameter): it must be reserved against a '
              'scope of that function, which contains the function\'s own '
              'parameters, not against the defining statement\'s scope',
              {'reserved': keytxt}, line=h.node.lineno,
              witness='lambda lscope: lscope * 2 converted as its own entity')

  # ---------------------------------------------------------------- templates
  sites = [s for s in tpl.find_sites(model) if s.fi.module.rel != 'malt/pyct/templates.py']
  n_t = 0
  for s in sites:
    if s.unresolved is not None:
      continue
    for ti, t in enumerate(s.templates):
      n_t += 1
      tsite = '%s:template[%s]' % (s.fi.site, _tkey(t))
      # ---- HYG-FREE
      free = {n for n in t.literal_free if n not in ALLOWED_FREE and
              not keyword.iskeyword(n) and n != tpl.FMT and
              n not in ('True', 'False', 'None')}
      if not free:
        rep.hold('HYG-FREE', tsite, {'free_literals': sorted(t.literal_free)},
                 nontrivial=bool(t.literal_free))
      for n in sorted(free):
        rep.violation(
            'HYG-FREE', '%s:%s:free(%s)' % (s.fi.module.rel, s.fi.qualname, n),
            'generated code refers to `%s` by name; a user local, parameter or '
            'global of that name captures it' % n,
            {'template': t.text.strip()[:160], 'builtin': hasattr(builtins, n)},
            line=s.call.lineno,
            witness='a parameter called %s in a function using this construct' % n)
      # ---- HYG-BINDER
      problems = []
      for b in sorted(t.literal_binders):
        scope_fn = _binding_function(t, b)
        if scope_fn is None:
          problems.append((b, 'bound directly in the user\'s function scope'))
          continue
        # placeholders inside the same generated function
        inside = set()
        for n in ast.walk(scope_fn):
          if isinstance(n, ast.Name) and n.id in t.kwargs:
            inside.add(n.id)
          if isinstance(n, ast.arg) and n.arg in t.kwargs:
            inside.add(n.arg)
        risky = []
        for ph in sorted(inside):
          org = tpl.origin(model, s.fi, s.kwargs[ph], s.call)
          if not org <= {'namer', 'const'} and not all(
              o.startswith('literal:') or o in ('namer', 'const') for o in org):
            risky.append((ph, sorted(org)))
        if risky:
          problems.append((b, 'shares generated function %s with placeholders '
                           '%s' % (scope_fn.name, risky)))
      if not problems:
        rep.hold('HYG-BINDER', tsite, {'literal_binders': sorted(t.literal_binders)},
                 nontrivial=bool(t.literal_binders))
      for b, why in problems:
        rep.violation(
            'HYG-BINDER', '%s:%s:binder(%s)' % (s.fi.module.rel, s.fi.qualname, b),
            'the template binds the literal identifier `%s`, %s: a user '
            'variable of that name clashes' % (b, why),
            {'template': t.text.strip()[:200]}, line=s.call.lineno,
            witness='a state variable called %s' % b)
  rep.unit('templates', n_t)
  # hand-built Name / arg / FunctionDef nodes with literal identifiers
  n_hb = 0
  for m in model.modules.values():
    if m.rel in ('malt/pyct/pretty_printer.py',):
      continue
    for fi in m.all_functions():
      for c in core.walk_no_nested(fi.node):
        if isinstance(c, ast.Call) and core.dotted(c.func) in (
            'ast.Name', 'ast.arg', 'ast.FunctionDef', 'ast.alias') and \
            m.imports.get('ast') == 'ast':
          idarg = c.args[0] if c.args else None
          for k in c.keywords:
            if k.arg in ('id', 'arg', 'name'):
              idarg = k.value
          if isinstance(idarg, ast.Constant) and isinstance(idarg.value, str):
            n_hb += 1
            nm = idarg.value
            rep.check(nm in ALLOWED_FREE, 'HYG-FREE',
                      '%s:%s:hand-built(%s)' % (m.rel, fi.qualname, nm),
                      'a hand-built node names `%s` literally; a user local, '
                      'parameter or global of that name captures it' % nm,
                      {'expr': core.norm(c)}, line=c.lineno,
                      witness='a parameter called %s' % nm)
  rep.unit('hand-built literal names', n_hb)
  # ag__ itself: injected as parameter of the factory, exported by get_extra_locals
  xl = facts.extra_locals(model)
  gel = xl['func']
  ok = xl['alias'] == 'ag__'
  rep.check(ok, 'HYG-FREE', '%s:ag__-alias' % gel.site,
            'the operator module must be injected under the single documented '
            'alias ag__', line=gel.node.lineno, nontrivial=False)


def _tkey(t):
  import hashlib
  return hashlib.sha1(' '.join(t.text.split()).encode()).hexdigest()[:8]


def _binding_function(t, name):
  """Innermost generated FunctionDef/Lambda of the template that binds `name`
  as parameter / local / nested def; None if bound at template top level."""
  best = None

  def rec(node, fn):
    nonlocal best
    for ch in ast.iter_child_nodes(node):
      cur = fn
      if isinstance(ch, (ast.FunctionDef, ast.Lambda)):
        if isinstance(ch, ast.FunctionDef) and ch.name == name and fn is not None:
          best = best or fn
        if isinstance(ch, ast.FunctionDef) and ch.name == name and fn is None:
          return 'TOP'
        cur = ch
        for a in ast.walk(ch.args):
          if isinstance(a, ast.arg) and a.arg == name:
            best = ch
      if isinstance(ch, ast.Name) and ch.id == name and isinstance(
          ch.ctx, (ast.Store, ast.Del)):
        if fn is None:
          return 'TOP'
        best = best or fn
      r = rec(ch, cur)
      if r == 'TOP':
        return r
    return None

  if rec(t.tree, None) == 'TOP':
    return None
  return best


def _union_leaves(e):
  if isinstance(e, ast.BinOp) and isinstance(e.op, ast.BitOr):
    return _union_leaves(e.left) + _union_leaves(e.right)
  return [e]


def _reserved_atoms(fi, e, at):
  """Normalised leaves of a union expression, through local definitions."""
  if isinstance(e, ast.BinOp) and isinstance(e.op, ast.BitOr):
    return _reserved_atoms(fi, e.left, at) + _reserved_atoms(fi, e.right, at)
  if isinstance(e, ast.Name):
    ds = tpl.rdefs(fi.node).reaching(at, e.id)
    if ds and all(not isinstance(d, tuple) for d in ds):
      out = []
      for d in ds:
        out += _reserved_atoms(fi, d, d)
      return out
    return [e.id]
  return [core.norm(e)]


class _NamerEv(setalg.Ev):
  """new_symbol adds the *name parts* of each reserved element."""

  def stmt(self, s, env, pc, rets, depth):
    if isinstance(s, ast.Expr) and isinstance(s.value, ast.Call) and isinstance(
        s.value.func, ast.Attribute) and s.value.func.attr in ('update', 'add') \
        and s.value.args and isinstance(s.value.func.value, ast.Name):
      a = s.value.args[0]
      base = a
      while isinstance(base, ast.Attribute):
        base = base.value
      if isinstance(base, ast.Name) and isinstance(env.get(base.id), setalg.Elem):
        key = s.value.func.value.id
        cur = env.get(key)
        curf = cur.f if isinstance(cur, setalg.SetV) else setalg.FALSE
        env[key] = setalg.SetV(curf | pc)
        return pc
    return super().stmt(s, env, pc, rets, depth)


def _any_isinstance(test):
  f = None
  for a in sorted(test.atoms):
    if a.startswith('OPAQUE[isinstance('):
      f = atom(a) if f is None else (f | atom(a))
  return f if f is not None else TRUE
