"""C17 — generated code is a well-formed tree that loads as what to_code shows.

 TREE-CTOR    every ast.<Kind>(...) construction in malt/ is well formed for the
              interpreter grammar (known kind, known fields, required fields)
 TREE-COPY    replacement content handed back by ReplaceTransformer is a clean
              deep copy (or freshly built); CleanCopier rebuilds every node, list
              and tuple it descends into and only returns non-AST values as is
 TREE-CTX     replacements get the placeholder's context; ContextAdjuster
              restores its override around every child visit; nodes built with
              an unset ctx are only produced for template replacement
 TREE-TEXT    the text loaded is the text mapped: load_ast uses one `source`
              value for writing the module and for the source map; unparse only
              strips whole statements; to_code forwards every option to to_graph
"""
import ast

from sa import core
from sa import fieldtypes
from sa import formula
from sa import pat
from sa import rules_qn
from sa import pycfg
from sa import tpl

TPL = 'malt/pyct/templates.py'
AU = 'malt/pyct/ast_util.py'
PARSER = 'malt/pyct/parser.py'
LOADER = 'malt/pyct/loader.py'
API = 'malt/impl/api.py'
TRANSPILER = 'malt/pyct/transpiler.py'
QN = 'malt/pyct/qual_names.py'


def check(model, rep, tier):
  rep.not_decided = ('that ast.unparse / ast.parse round-trip every program '
                     '(stdlib behaviour); compile() of the generated tree')
  rep.touch(TPL, AU, PARSER, LOADER, API, QN)
  rep.rule('TREE-CTOR', 'AST constructions well formed per ASDL', floor=45)
  rep.rule('TREE-COPY', 'replacements are clean copies; copier rebuilds', floor=8)
  rep.rule('TREE-CTX', 'context adjustment and restoration', floor=7)
  rep.rule('TREE-TEXT', 'text loaded = text mapped = text shown', floor=9)
  rep.rule('TREE-LITERAL', 'literal parts of qualified names are parser-produced '
           'constants (they are printed back as ast.Constant)', floor=1)
  rep.rule('TREE-NONEMPTY', 'no generated compound statement has an empty '
           'statement list (statement handlers never delete; shortened user '
           'blocks get a `pass`)', floor=30)
  from sa import rules_nonempty
  rules_nonempty.check(model, rep, 'TREE-NONEMPTY')

  # ---------------------------------------------------------------- TREE-CTOR
  n = 0
  for m in model.modules.values():
    for call, kind in fieldtypes.constructions(m):
      n += 1
      probs = fieldtypes.check_construction(call, kind)
      fn = _enclosing(m, call)
      site = '%s:%s:ast.%s(%s)' % (m.rel, fn, kind, ','.join(
          [k.arg or '**' for k in call.keywords]) or '%dpos' % len(call.args))
      rep.check(not probs, 'TREE-CTOR', site,
                'malformed AST construction: %s' % '; '.join(probs),
                {'expr': core.norm(call)[:120]}, line=call.lineno,
                witness='any program that makes the converter build this node: '
                'unparse / compile of the generated tree fails',
                nontrivial=bool(call.args or call.keywords))
  rep.unit('ast constructions', n)

  # ---------------------------------------------------------------- TREE-COPY
  rt = model.cls(TPL, 'ReplaceTransformer')
  prep = rt.methods.get('_prepare_replacement')
  if prep is None:
    raise core.AnalysisError('ReplaceTransformer._prepare_replacement not found')
  cc = [c for c in ast.walk(prep.node) if isinstance(c, ast.Call) and
        core.dotted(c.func) == 'ast_util.copy_clean']
  rets = [r for r in ast.walk(prep.node) if isinstance(r, ast.Return)]
  rd = tpl.rdefs(prep.node)
  # the key parameter, by role: the one self.replacements is subscripted with
  keyps = [p_ for p_ in prep.params() if any(
      isinstance(x, ast.Subscript) and core.norm(x.value) == 'self.replacements' and
      core.norm(x.slice) == p_ for x in ast.walk(prep.node))]
  if len(keyps) != 1:
    raise core.AnalysisError('_prepare_replacement: key parameter not identified')
  keyp = keyps[0]
  key_index = prep.params().index(keyp)
  ok = len(cc) == 1 and tpl.xnorm(prep, cc[0].args[0], cc[0]) == \
      'self.replacements[%s]' % keyp
  def derives(e, at, depth=0):
    """e is the clean copy, or a list built of it (at: a node of the statement)"""
    if e is cc[0]:
      return True
    if isinstance(e, ast.List):
      return bool(e.elts) and all(derives(x, at, depth) for x in e.elts)
    if isinstance(e, ast.Name) and depth < 4:
      ds = rd.reaching(at, e.id) or []
      return bool(ds) and all(
          not isinstance(d, tuple) and (
              (isinstance(d, ast.List) and all(isinstance(x, ast.Name) and x.id == e.id
                                               for x in d.elts)) or
              derives(d, d, depth + 1)) for d in ds)
    return False
  if ok:
    ok = bool(rets) and all(r.value is not None and derives(r.value, r.value) for r in rets)
  rep.check(ok, 'TREE-COPY', '%s:returns-clean-copy' % prep.site,
            'every value returned by _prepare_replacement must derive from '
            'ast_util.copy_clean(replacement): handing out the caller\'s node '
            'makes one node object occur twice in the tree',
            {'returns': [core.norm(r) for r in rets]}, line=prep.node.lineno,
            witness='a placeholder used twice in one template (state_vars)')
  EXC = {'visit_arg': 'ast.arg replacements are built fresh by the only producer '
                      '(_wrap_into_factory) and the placeholder occurs once'}
  for name, h in rt.methods.items():
    if not name.startswith('visit_'):
      continue
    raw = set()
    for a in ast.walk(h.node):
      if isinstance(a, ast.Assign) and 'self.replacements[' in core.norm(a.value) \
          and isinstance(a.targets[0], ast.Name):
        raw.add(a.targets[0].id)
    leaks = []
    for r in ast.walk(h.node):
      if isinstance(r, ast.Return) and r.value is not None:
        for x in ast.walk(r.value):
          if isinstance(x, ast.Name) and x.id in raw:
            # allowed: <raw>.id / getattr(<raw>, ...) reads of scalar fields
            par = _parent(r.value, x)
            if isinstance(par, ast.Attribute) and par.attr in ('id', 'arg'):
              continue
            if isinstance(par, ast.Call) and core.dotted(par.func) == 'getattr':
              continue
            leaks.append(core.norm(r))
    site = '%s:no-raw-replacement' % h.site
    if name in EXC:
      rep.hold('TREE-COPY', site, {'exception': EXC[name], 'raw_returns': leaks},
               nontrivial=False)
      continue
    rep.check(not leaks, 'TREE-COPY', site,
              '%s returns the replacement object itself instead of a clean copy'
              % name, {'returns': leaks}, line=h.node.lineno,
              witness='the same replacement node spliced in at two places')
  cp = model.func(AU, 'CleanCopier.copy')
  prm = cp.params()[0]
  g = pycfg.CFG(cp.node)
  bad_rets = []
  for ri in g.nodes_where(lambda k, a: k == 'return'):
    r = g.nodes[ri][1]
    v = r.value
    mand = [(core.norm(g.nodes[t][1]), l) for t, l in g.mandatory_edges(ri)]
    if isinstance(v, ast.Name) and v.id == prm:
      # returning the input itself: only for non-AST leaf values
      if ('not isinstance(%s, ast.AST)' % prm, 'T') not in mand or \
          ('isinstance(%s, list)' % prm, 'F') not in mand or \
          ('isinstance(%s, tuple)' % prm, 'F') not in mand:
        bad_rets.append((core.norm(r), mand))
  rep.check(not bad_rets, 'TREE-COPY', '%s:only-leaf-values-shared' % cp.site,
            'CleanCopier.copy may hand back its argument only when it is not a '
            'list, tuple or AST node', {'offending': bad_rets}, line=cp.node.lineno,
            witness='a replacement containing a node kind the copier shares')
  comp_ok = pat.has(cp.node, 'return [self.copy(_N_) for _N_ in %s]' % prm) and \
      pat.has(cp.node, 'return tuple((self.copy(_N_) for _N_ in %s))' % prm)
  n1, b1 = pat.first(cp.node, '_D_[_F_] = self.copy(getattr(%s, _F_))' % prm)
  rec_ok = b1 is not None and pat.has(
      cp.node, 'for _F_ in %s._fields:\n  __' % prm) is not None and \
      pat.has(cp.node, '_NEW_ = type(%s)(**_D_)' % prm, {'_D_': b1['_D_']})
  loops = [l for l in ast.walk(cp.node) if isinstance(l, ast.For) and
           core.norm(l.iter) == prm + '._fields']
  rec_ok = rec_ok and len(loops) == 1 and not any(
      isinstance(x, (ast.Break, ast.Return)) for x in ast.walk(loops[0]))
  if not rec_ok:
    # the field table as one comprehension: {f: self.copy(getattr(n, f)) for f in
    # n._fields if not f.startswith('__') and hasattr(n, f)}
    for a_ in ast.walk(cp.node):
      if isinstance(a_, ast.Assign) and isinstance(a_.value, ast.DictComp) and len(
          a_.value.generators) == 1 and isinstance(a_.targets[0], ast.Name):
        dc, gen_ = a_.value, a_.value.generators[0]
        if not isinstance(gen_.target, ast.Name) or core.norm(gen_.iter) != prm + '._fields':
          continue
        t_ = gen_.target.id
        conds_ = set()
        for i_ in gen_.ifs:
          for v_ in (i_.values if isinstance(i_, ast.BoolOp) and isinstance(
              i_.op, ast.And) else [i_]):
            conds_.add(core.norm(v_))
        rec_ok = core.norm(dc.key) == t_ and core.norm(dc.value) == \
            'self.copy(getattr(%s, %s))' % (prm, t_) and conds_ <= {
                "not %s.startswith('__')" % t_, 'hasattr(%s, %s)' % (prm, t_)} and \
            pat.has(cp.node, '_NEW_ = type(%s)(**%s)' % (prm, a_.targets[0].id)) is not None
  rep.check(comp_ok and rec_ok, 'TREE-COPY', '%s:rebuilds-recursively' % cp.site,
            'lists and tuples must be rebuilt element-wise and every node '
            'reconstructed from copies of all its fields', {}, line=cp.node.lineno)

  # ---------------------------------------------------------------- TREE-CTX
  vn = rt.methods['visit_Name']
  nprm = vn.params()[0]
  b1 = None
  for a_ in ast.walk(vn.node):
    if isinstance(a_, ast.Assign) and len(a_.targets) == 1 and isinstance(
        a_.targets[0], ast.Name) and tpl.xnorm(vn, a_.value, a_) == \
        'ContextAdjuster(type(%s.ctx))' % nprm:
      b1 = {'_A_': a_.targets[0].id}
  b2 = None
  for a_ in ast.walk(vn.node):
    if isinstance(a_, ast.Assign) and isinstance(a_.value, ast.Call) and core.norm(
        a_.value.func) == 'self._prepare_replacement' and isinstance(
            a_.targets[0], ast.Name):
      ka = a_.value.args[key_index] if len(a_.value.args) > key_index else next(
          (k.value for k in a_.value.keywords if k.arg == keyp), None)
      if ka is not None and core.norm(ka) == nprm + '.id':
        b2 = {'_NN_': a_.targets[0].id}
  ok = b1 is not None and b2 is not None
  if ok:
    loops = [l for l in ast.walk(vn.node) if isinstance(l, ast.For) and
             core.norm(l.iter) == b2['_NN_']]
    ok = len(loops) == 1 and not any(isinstance(x, (ast.Break, ast.Continue))
                                     for x in ast.walk(loops[0]))
    if ok:
      t = core.norm(loops[0].target)
      ok = pat.has(loops[0], "if hasattr(%s, 'ctx'):\n  %s.visit(%s)" % (
          t, b1['_A_'], t)) or pat.has(loops[0], '%s.visit(%s)' % (b1['_A_'], t))
      # the loop itself runs for every non-empty replacement: whether one
      # element has a ctx says nothing about the others (a Call next to a Name)
      pc = formula.path_condition(vn.node, loops[0])
      ok = ok and not any(pol != 'C' and 'hasattr(' in core.norm(tst) for pol, tst in pc)
  rep.check(ok, 'TREE-CTX', '%s:adjusts-every-replacement' % vn.site,
            'each replacement that has a ctx must be adjusted to the '
            'placeholder\'s context', line=vn.node.lineno,
            witness='a name placeholder in a Store position')
  # parallel_walk (source map): list fields may hold None (kw_defaults of a
  # keyword-only parameter without default, the key of `**d` in a dict display)
  pw = model.func(AU, 'parallel_walk')
  whiles = [w for w in ast.walk(pw.node) if isinstance(w, ast.While)]
  okw = len(whiles) == 1
  factsw = {}
  if okw:
    wl = whiles[0]
    pops = [a.targets[0].id for a in wl.body if isinstance(a, ast.Assign) and isinstance(
        a.value, ast.Call) and isinstance(a.value.func, ast.Attribute) and
            a.value.func.attr == 'pop' and isinstance(a.targets[0], ast.Name)]
    okw = len(pops) == 2
  if okw:
    nv, ov = pops

    def none_case(e):
      """truth of a test when both popped values are None"""
      if isinstance(e, ast.BoolOp):
        vs = [none_case(v) for v in e.values]
        if any(v is None for v in vs):
          return None
        return all(vs) if isinstance(e.op, ast.And) else any(vs)
      if isinstance(e, ast.UnaryOp) and isinstance(e.op, ast.Not):
        v = none_case(e.operand)
        return None if v is None else (not v)
      if isinstance(e, ast.Name):
        x = tpl.expand(pw, e, e, depth=1)
        if not isinstance(x, ast.Name):
          return none_case(x)
      if isinstance(e, ast.Compare) and len(e.ops) == 1 and isinstance(
          e.ops[0], (ast.Eq, ast.NotEq, ast.Is, ast.IsNot)):
        l = core.norm(tpl.expand(pw, e.left, e, depth=1))
        r = core.norm(tpl.expand(pw, e.comparators[0], e, depth=1))
        names = ('%s.__class__.__name__' % nv, '%s.__class__.__name__' % ov,
                 'type(%s)' % nv, 'type(%s)' % ov, '%s.__class__' % nv, '%s.__class__' % ov)
        if l in names and r in names:
          return isinstance(e.ops[0], (ast.Eq, ast.Is))
      t = core.norm(e)
      if t.startswith('isinstance(%s, ' % nv) or t.startswith('isinstance(%s, ' % ov):
        return 'NoneType' in t
      if t in ('%s is None' % nv, '%s is None' % ov):
        return True
      if t in ('%s is not None' % nv, '%s is not None' % ov):
        return False
      if t in ('%s.__class__.__name__ != %s.__class__.__name__' % (nv, ov),
               'type(%s) != type(%s)' % (nv, ov), 'type(%s) is not type(%s)' % (nv, ov)):
        return False
      return None
    raising = [i for i in wl.body if isinstance(i, ast.If) and any(
        isinstance(x, ast.Raise) for b in i.body for x in ast.walk(b))]
    verdicts = [none_case(i.test) for i in raising]
    # ... and the None pair is skipped before its fields are looked at
    fields_loop = [i for i, st in enumerate(wl.body) if isinstance(st, ast.For) and
                   core.norm(st.iter) == nv + '._fields']
    skipped = False
    if fields_loop:
      for st in wl.body[:fields_loop[0]]:
        if isinstance(st, ast.If) and none_case(st.test) is True and any(
            isinstance(x, ast.Continue) for x in st.body):
          skipped = True
    factsw = {'raise_tests_on_None_pair': verdicts, 'skipped_before_fields': skipped}
    okw = bool(raising) and all(v is False for v in verdicts) and skipped
  rep.check(okw, 'TREE-TEXT', '%s:none-elements' % pw.site,
            'two trees that both hold None at the same place of a list field are '
            'consistent: parallel_walk must neither reject the pair nor look at '
            'its fields', factsw, line=pw.node.lineno,
            witness='def f(a, *, key): ...  /  {**a, "k": 1}')
  ca = model.cls(TPL, 'ContextAdjuster')
  cv = ca.methods.get('visit')
  if cv is None:
    raise core.AnalysisError('ContextAdjuster.visit not found')
  # the override lives in the attribute __init__ stores its parameter in
  ci = ca.methods.get('__init__')
  ovs = [a.targets[0].attr for a in ast.walk(ci.node) if isinstance(a, ast.Assign) and
         isinstance(a.targets[0], ast.Attribute) and core.norm(a.targets[0].value) == 'self'
         and isinstance(a.value, ast.Name) and a.value.id in ci.params()] if ci else []
  if len(ovs) != 1:
    raise core.AnalysisError('ContextAdjuster.__init__ no longer stores one override')
  OV = 'self.' + ovs[0]

  def applies_override(fi, depth=0):
    """fi sets <node>.ctx = <override>() (itself, or through a method of the class)"""
    if not fi.params():
      return False
    p = fi.params()[0]
    for a in ast.walk(fi.node):
      if isinstance(a, ast.Assign) and core.norm(a.targets[0]) == p + '.ctx' and \
          tpl.xnorm(fi, a.value, a) == OV + '()':
        return True
      if isinstance(a, ast.Call) and isinstance(a.func, ast.Attribute) and \
          core.norm(a.func.value) == 'self' and a.func.attr in ca.methods and \
          [core.norm(x) for x in a.args] == [p] and not a.keywords and depth < 2 and \
          not a.func.attr.startswith('visit') and a.func.attr != 'generic_visit':
        if applies_override(ca.methods[a.func.attr], depth + 1):
          return True
    return False
  g = pycfg.CFG(cv.node)
  save = restore = disp = None
  for i, (k, a) in enumerate(g.nodes):
    if isinstance(a, ast.Assign) and core.norm(a.value) == OV \
        and isinstance(a.targets[0], ast.Name):
      save = (i, a.targets[0].id)
    if isinstance(a, ast.Assign) and any(
        isinstance(c, ast.Call) and isinstance(c.func, ast.Attribute) and
        c.func.attr == 'visit' and isinstance(c.func.value, ast.Call) and
        core.dotted(c.func.value.func) == 'super' for c in ast.walk(a.value)):
      disp = i
  if save:
    for i, (k, a) in enumerate(g.nodes):
      if isinstance(a, ast.Assign) and core.norm(a.targets[0]) == \
          OV and core.norm(a.value) == save[1]:
        restore = i
  ok = save is not None and restore is not None and disp is not None
  if ok:
    dom = g.dominators(skip_labels=('exc',))
    ok = save[0] in dom[disp] and disp in dom[restore]
    # restore lies on every path from dispatch to the exit
    w = {restore: 1}
    rng = g.count_range(w, start=disp, skip_labels=('exc',))
    ok = ok and rng is not None and rng[0] >= 1
  rep.check(ok, 'TREE-CTX', '%s:override-restored' % cv.site,
            'ContextAdjuster.visit must save the override before dispatching to '
            'a child and restore it afterwards on every path: handlers of '
            'Attribute/Subscript/Call set it to Load for their children, and it '
            'would otherwise leak to later siblings', {}, line=cv.node.lineno,
            witness='state (box.v, total): the simple name after the composite '
            'gets ctx=Load in a Store position')
  for hname, want in (('visit_Attribute', 'ast.Load'), ('visit_Subscript', 'ast.Load')):
    h = ca.methods.get(hname)
    ok = h is not None and ('%s = %s' % (OV, want)) in core.norm(h.node) \
        and applies_override(h)
    rep.check(ok, 'TREE-CTX', '%s:%s:children-load' % (TPL, hname),
              'the object of an attribute / subscript is always read (Load)',
              line=h.node.lineno if h else None)
  # which kinds force their children to Load: only those whose children are read
  # whatever the node's own context (the object of an attribute / subscript);
  # a starred element, a tuple or a list hands its own context on
  forcing = sorted(nm[len('visit_'):] for nm, m_ in ca.methods.items()
                   if nm.startswith('visit_') and any(
                       isinstance(a_, ast.Assign) and core.norm(a_.targets[0]) == OV and
                       core.norm(a_.value) in ('ast.Load', 'ast.Store', 'ast.Del')
                       for a_ in ast.walk(m_.node)))
  rep.check(set(forcing) <= {'Attribute', 'Subscript'}, 'TREE-CTX',
            '%s:ContextAdjuster:children-forced-to-load' % TPL,
            'only Attribute and Subscript read their children regardless of their own '
            'context; a Starred / Tuple / List target passes its context on to its '
            'elements: forcing Load there turns a starred assignment target into a read',
            {'forcing_kinds': forcing}, line=ca.node.lineno,
            witness='for head, *tail in rows:  ->  (head, *ag__.ld(tail)) = itr')
  # expression kinds that hold a binding target while being evaluated themselves:
  # the override (Load, from the placeholder position) must not reach the target
  # (a kind without a handler of its own is dispatched to generic_visit: an
  # override of generic_visit that clears the override under
  # `isinstance(node, <tuple of kinds>)` before it descends is the same barrier)
  gv = ca.methods.get('generic_visit')
  table_kinds = set()
  if gv is not None:
    gp = gv.params()[0]
    gvv = gv.view()
    for a_ in ast.walk(gvv):
      if isinstance(a_, ast.Assign) and core.norm(a_.targets[0]) == OV and isinstance(
          a_.value, ast.Constant) and a_.value.value is None:
        ks_ = set()
        for pol, tst in formula.path_condition(gvv, a_):
          if pol == 'T' and isinstance(tst, ast.Call) and core.dotted(tst.func) == \
              'isinstance' and len(tst.args) == 2 and core.norm(tst.args[0]) == gp:
            ks_ |= {(core.dotted(k) or '?').split('.')[-1] for k in (
                tst.args[1].elts if isinstance(tst.args[1], ast.Tuple) else [tst.args[1]])}
        # the clearing statement precedes the descent
        desc_ = [c for c in ast.walk(gvv) if isinstance(c, ast.Call) and 'generic_visit' in
                 core.norm(c.func) and c.lineno > a_.lineno]
        if desc_:
          table_kinds |= ks_
  for kind, fld in (('NamedExpr', 'target'), ('comprehension', 'target')):
    h = ca.methods.get('visit_' + kind)
    if h is None and kind in table_kinds:
      rep.hold('TREE-CTX', '%s:ContextAdjuster:barrier(%s.%s)' % (TPL, kind, fld))
      continue
    ok = h is not None
    if ok:
      hg = pycfg.CFG(h.node)
      clears = [i for i, (k, a) in enumerate(hg.nodes) if isinstance(a, ast.Assign) and
                core.norm(a.targets[0]) == OV and isinstance(
                    a.value, ast.Constant) and a.value.value is None]
      descends = [i for i in range(len(hg.nodes)) if any(
          core.dotted(c.func) in ('self.generic_visit', 'self.visit')
          for c in pycfg.calls_at(hg, i))]
      dom = hg.dominators()
      ok = bool(clears) and bool(descends) and all(
          any(c in dom.get(d, ()) for c in clears) for d in descends)
    rep.check(ok, 'TREE-CTX', '%s:ContextAdjuster:barrier(%s.%s)' % (TPL, kind, fld),
              'the %s of a %s is a store wherever the expression stands: the '
              'context adjuster must drop the inherited override before it '
              'descends, otherwise a replacement placed in a Load position turns '
              'the target into a read' % (fld, kind),
              line=h.node.lineno if h else ca.node.lineno,
              witness='g((y := x + 1)) + y  ->  `ag__.ld(y) := ...` (SyntaxError '
              'when the generated module is loaded)')
  # unset ctx only for template replacement
  c2a = model.func(TPL, '_convert_to_ast')
  callers = []
  for m in model.modules.values():
    for fi in m.all_functions():
      for c in core.walk_no_nested(fi.node):
        if isinstance(c, ast.Call) and core.dotted(c.func):
          r = model.resolve(m, c.func)
          if r and r[0] == 'func' and r[1].node is c2a.node:
            callers.append(fi.site)
  ok = set(callers) <= {'%s:replace' % TPL, '%s:_convert_to_ast' % TPL}
  rep.check(ok and callers, 'TREE-CTX', '%s:unset-ctx-only-for-templates' % c2a.site,
            'nodes created with ctx=None must only be produced as template '
            'replacements (where the placeholder context is applied)',
            {'callers': sorted(set(callers))}, line=c2a.node.lineno)
  astcalls = []
  for m in model.modules.values():
    for fi in m.all_functions():
      for c in core.walk_no_nested(fi.node):
        if isinstance(c, ast.Call) and isinstance(c.func, ast.Attribute) and \
            c.func.attr == 'ast' and not c.args and m.rel not in (QN,):
          astcalls.append(fi.site)
  rep.check(set(astcalls) <= {'%s:_convert_to_ast' % TPL}, 'TREE-CTX',
            'malt:QN.ast()-callers', 'QN.ast() leaves ctx unset; it may only be '
            'used by the template machinery', {'callers': sorted(set(astcalls))})

  # ---------------------------------------------------------------- TREE-TEXT
  la = model.func(LOADER, 'load_ast')
  rd = tpl.rdefs(la.node)
  ls = [c for c in ast.walk(la.node) if isinstance(c, ast.Call) and
        core.dotted(c.func) == 'load_source']
  sm = [c for c in ast.walk(la.node) if isinstance(c, ast.Call) and
        core.dotted(c.func) == 'origin_info.create_source_map']
  ok = len(ls) == 1 and len(sm) == 1
  if ok:
    d1 = rd.reaching(ls[0], core.norm(ls[0].args[0]))
    d2 = rd.reaching(sm[0], core.norm(sm[0].args[1]))
    ok = d1 is not None and d2 is not None and len(d1) == 1 and [id(x) for x in d1] \
        == [id(x) for x in d2] and core.dotted(d1[0].func) == 'parser.unparse' and \
        core.norm(sm[0].args[0]) == 'nodes' and core.norm(d1[0].args[0]) == 'nodes'
  rep.check(ok, 'TREE-TEXT', '%s:one-source-value' % la.site,
            'the string written to the module file and the string handed to the '
            'source map must be the same value, unparsed from the same nodes',
            line=la.node.lineno)
  lsf = model.func(LOADER, 'load_source')
  wr = [c for c in ast.walk(lsf.node) if isinstance(c, ast.Call) and
        isinstance(c.func, ast.Attribute) and c.func.attr == 'write']
  rep.check(len(wr) == 1 and core.norm(wr[0].args[0]) == lsf.params()[0],
            'TREE-TEXT', '%s:writes-source-verbatim' % lsf.site,
            'the module file must contain the source verbatim',
            {'writes': [core.norm(w) for w in wr]}, line=lsf.node.lineno)
  # ... encoded as its first line declares (parser.unparse prefixes
  # `# coding=utf-8`): the file object the text is written to is opened with that
  # encoding, not with the locale's
  openers = [c for c in ast.walk(lsf.node) if isinstance(c, ast.Call) and core.dotted(
      c.func) in ('tempfile.NamedTemporaryFile', 'open', 'io.open', 'os.fdopen',
                  'codecs.open', 'tempfile.TemporaryFile')]
  enc = []
  for c in openers:
    kw_ = {k.arg: k.value for k in c.keywords}
    e_ = kw_.get('encoding')
    mode_ = kw_.get('mode') or (c.args[1] if len(c.args) > 1 and core.dotted(c.func) != \
                                'tempfile.NamedTemporaryFile' else None)
    binary = isinstance(mode_, ast.Constant) and 'b' in str(mode_.value)
    enc.append((core.dotted(c.func), e_.value.lower().replace('_', '-') if isinstance(
        e_, ast.Constant) and isinstance(e_.value, str) else ('binary' if binary else None)))
  rep.check(bool(enc) and all(e in ('utf-8', 'utf8') for _, e in enc), 'TREE-TEXT',
            '%s:written-as-utf-8' % lsf.site,
            'the generated module declares `# coding=utf-8`; the file must be '
            'written with that encoding, or the text the interpreter loads differs '
            'from the text that was mapped (or cannot be written at all) under a '
            'non-UTF-8 locale', {'openers': [(f_, str(e_)) for f_, e_ in enc]},
            line=lsf.node.lineno, witness='a non-ASCII string literal, LC_ALL=C')
  up = model.func(PARSER, 'unparse')
  edits = []
  tainted = set()

  def is_t(e):
    for x in ast.walk(e):
      if isinstance(x, ast.Call) and core.dotted(x.func) == 'ast.unparse':
        return True
      if isinstance(x, ast.Name) and x.id in tainted:
        return True
    return False

  for _ in range(4):
    for a in ast.walk(up.node):
      if isinstance(a, ast.Assign) and is_t(a.value):
        for t in a.targets:
          for x in ast.walk(t):
            if isinstance(x, ast.Name):
              tainted.add(x.id)
      if isinstance(a, (ast.For, ast.comprehension)) and is_t(a.iter):
        for x in ast.walk(a.target):
          if isinstance(x, ast.Name):
            tainted.add(x.id)
      if isinstance(a, ast.Call) and isinstance(a.func, ast.Attribute) and \
          a.func.attr in ('append', 'extend') and isinstance(
              a.func.value, ast.Name) and any(is_t(x) for x in a.args):
        tainted.add(a.func.value.id)
  for a in ast.walk(up.node):
    if isinstance(a, ast.Call) and isinstance(a.func, ast.Attribute) and is_t(
        a.func.value):
      attr = a.func.attr
      if attr == 'strip' and not a.args:
        continue
      if attr in ('append', 'extend'):
        continue
      edits.append(core.norm(a))
    if isinstance(a, ast.Call) and core.dotted(a.func) in (
        're.sub', 'textwrap.dedent', 'textwrap.indent') and any(
            is_t(x) for x in a.args):
      edits.append(core.norm(a))
  rets = [core.norm(r.value) for r in ast.walk(up.node) if isinstance(r, ast.Return)]
  rets_ok = len(rets) == 1 and pat.match("'\\n'.join(_C_)", [
      r.value for r in ast.walk(up.node) if isinstance(r, ast.Return)][0]) is not None
  rep.check(not edits and rets_ok, 'TREE-TEXT',
            '%s:no-line-edits' % up.site,
            'unparse may only strip whole statements and join them with '
            'newlines: editing printed lines changes multi-line string constants, '
            'so the loaded text no longer re-parses to the transformed tree',
            {'edits': edits, 'returns': rets}, line=up.node.lineno,
            witness='a docstring line ending in blanks')
  tc = model.func(API, 'to_code')
  tg = [c for c in ast.walk(tc.node) if isinstance(c, ast.Call) and
        core.dotted(c.func) == 'to_graph']
  ps = tc.params()
  ok = len(tg) == 1
  if ok:
    passed = {k.arg: core.norm(k.value) for k in tg[0].keywords}
    for i, a in enumerate(tg[0].args):
      passed[model.func(API, 'to_graph').params()[i]] = core.norm(a)
    ok = all(passed.get(p) == p for p in ps) and \
        set(ps) == set(model.func(API, 'to_graph').params())
  gs = [c for c in ast.walk(tc.node) if isinstance(c, ast.Call) and
        core.dotted(c.func) == 'inspect.getsource']
  ok = ok and len(gs) == 1 and bool(gs[0].args)
  if ok:
    # the argument is the to_graph call itself, directly or through a local
    ok = gs[0].args[0] is tg[0] or tpl.xnorm(tc, gs[0].args[0], gs[0]) == core.norm(tg[0])
  rep.check(ok,
            'TREE-TEXT', '%s:shows-the-loaded-module' % tc.site,
            'to_code must convert with exactly the options it was given and '
            'return the source of the function to_graph loaded',
            {'forwarded': passed if tg else None, 'params': ps}, line=tc.node.lineno,
            witness='to_code(f, experimental_optional_features=Feature.LISTS)')

  rules_qn.literal(model, rep, 'TREE-LITERAL')

  # the function to_code prints is the loaded one only while it has no
  # __wrapped__ attribute (inspect.getsource unwraps)
  chain = [model.func(API, 'to_graph'), model.func(API, '_convert_actual'),
           model.func(API, 'autograph_artifact'),
           model.func(TRANSPILER, 'PyToPy.transform_function'),
           model.func(TRANSPILER, '_PythonFnFactory.instantiate')]
  for fi in chain:
    bad = []
    for x in core.walk_no_nested(fi.node):
      if isinstance(x, ast.Attribute) and x.attr == '__wrapped__' and isinstance(
          x.ctx, ast.Store):
        bad.append(core.norm(x))
      if isinstance(x, ast.Call):
        d = core.dotted(x.func) or ''
        if d in ('functools.wraps', 'functools.update_wrapper'):
          bad.append(d)
        # generic attribute copies: __dict__.update(...), vars(f).update(...),
        # setattr with a computed name
        if isinstance(x.func, ast.Attribute) and x.func.attr == 'update' and (
            (isinstance(x.func.value, ast.Attribute) and x.func.value.attr == '__dict__')
            or (isinstance(x.func.value, ast.Call) and core.dotted(
                x.func.value.func) == 'vars')):
          bad.append(core.norm(x)[:70])
        if d == 'setattr' and len(x.args) >= 2 and not isinstance(x.args[1], ast.Constant):
          bad.append(core.norm(x)[:70])
        if d == 'setattr' and len(x.args) >= 2 and isinstance(x.args[1], ast.Constant) \
            and x.args[1].value == '__wrapped__':
          bad.append(core.norm(x)[:70])
      if isinstance(x, ast.Assign) and any(
          isinstance(t, ast.Attribute) and t.attr == '__dict__' for t in x.targets):
        bad.append(core.norm(x)[:70])
    rep.check(not bad, 'TREE-TEXT', '%s:loaded-function-gets-no-__wrapped__' % fi.site,
              'the function object returned by to_graph must not acquire '
              '__wrapped__ (explicitly, through functools.wraps, or by copying '
              'the attributes of the original wholesale): to_code prints '
              'inspect.getsource(to_graph(f)), which follows __wrapped__ back to '
              'the unconverted source', {'constructs': bad}, line=fi.node.lineno,
              witness='to_code of a function decorated with functools.wraps')

  # a converter that replaces a node of a kind that also occurs as a binding or
  # deletion target (Name, Attribute, Subscript, Starred, List, Tuple) by a
  # generated expression must do so in Load context only: `[a, b] = v` with the
  # list replaced by a call is `ag__.new_list([a, b]) = v`
  CTX_KINDS = ('Name', 'Attribute', 'Subscript', 'Starred', 'List', 'Tuple')
  n_ctxh = 0
  for c_ in sorted(model.classes(), key=lambda c: c.site):
    if not c_.module.rel.startswith('malt/converters/') or not c_.is_ast_visitor():
      continue
    for k_ in CTX_KINDS:
      h_ = c_.methods.get('visit_' + k_)
      if h_ is None:
        continue
      v_ = h_.view()
      prm_ = h_.params()[0]
      reps_ = [x for x in ast.walk(v_) if isinstance(x, ast.Call) and (
          core.dotted(x.func) or '').startswith('templates.replace')]
      if not reps_:
        continue
      n_ctxh += 1
      okc, facts_c = True, []
      for x in reps_:
        guarded = False
        for pol, tst in formula.path_condition(v_, x):
          for t_ in ([tst] if not (isinstance(tst, ast.BoolOp) and (
              (pol == 'T' and isinstance(tst.op, ast.And)) or
              (pol == 'F' and isinstance(tst.op, ast.Or)))) else tst.values):
            neg = False
            while isinstance(t_, ast.UnaryOp) and isinstance(t_.op, ast.Not):
              t_, neg = t_.operand, not neg
            if not (isinstance(t_, ast.Call) and core.dotted(t_.func) == 'isinstance'
                    and len(t_.args) == 2 and core.norm(t_.args[0]) in (
                        prm_ + '.ctx', "getattr(%s, 'ctx', None)" % prm_)):
              continue
            kinds = {core.dotted(k).split('.')[-1] for k in (
                t_.args[1].elts if isinstance(t_.args[1], ast.Tuple) else [t_.args[1]])}
            holds = (pol == 'T') != neg
            if (holds and kinds == {'Load'}) or (not holds and {'Store', 'Del'} <= kinds):
              guarded = True
        facts_c.append({'replacement_at_line': x.lineno, 'load_only': guarded})
        okc = okc and guarded
      rep.check(okc, 'TREE-CTX', '%s:replaces-loads-only' % h_.site,
                'a %s is also a binding / deletion target: replacing it by a generated '
                'expression outside Load context puts a call where the grammar wants '
                'a target -- the generated module does not compile' % k_,
                {'replacements': facts_c}, line=h_.node.lineno,
                witness='[a, b] = pair   /   for [a, b] in pairs: ...   (LISTS feature)')
  if n_ctxh < 3:
    raise core.AnalysisError('converter handlers of ctx-bearing node kinds not found')

  # ---------------------------------------------------------------- dependencies
  rep.depends('C09', ['IFACE-ERASE'],
              'the erased defaults are inserted into the tree directly (no template '
              'copy): each position needs a node object of its own')


def _enclosing(m, node):
  best = '<module>'
  for fi in m.all_functions():
    if any(x is node for x in ast.walk(fi.node)):
      best = fi.qualname
  return best


def _parent(root, target):
  for n in ast.walk(root):
    for ch in ast.iter_child_nodes(n):
      if ch is target:
        return n
  return None
