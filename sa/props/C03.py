"""C03 — emitted operator calls obey the operator calling contract.

 SEQ          names tuple, getter tuple and setter targets are order-preserving,
              filter-free images of ONE list value
 GETSET       getter: a single `return` of the state (composites through ldu);
              setter: declarations then one assignment to the same targets;
              ldu turns KeyError/AttributeError/NameError into Undefined
 CB-ARITY     parameter count of every generated callback = number of arguments
              the operator fallbacks call it with (from the event automata)
 OP-ROLE      each positional argument of the emitted operator call is the
              placeholder whose role matches the operator's parameter; counts equal
 NOUTS        nouts = len(state) - len(input_only), input_only ⊆ state, the sort
              key puts non-input-only first (same set)
 OPTS         for loops append iterate_names key/value in lock step; loop options
              come only from the node's own DIRECTIVES; directives attach to the
              innermost loop and the call is removed; rebuilt loop nodes keep
              DIRECTIVES / EXTRA_LOOP_TEST
"""
import ast

from sa import core
from sa import effects
from sa import pat
from sa import pycfg
from sa import rules_qn
from sa import rules_shared
from sa import setalg
from sa import tpl
from sa import formula
from sa.formula import atom, implies, equivalent, satisfiable

CF = 'malt/converters/control_flow.py'
OPCF = 'malt/operators/control_flow.py'
OPCE = 'malt/operators/conditional_expressions.py'
OPLOG = 'malt/operators/logical.py'
OPVAR = 'malt/operators/variables.py'
DIRS = 'malt/converters/directives.py'
BRK = 'malt/converters/break_statements.py'
TPL = 'malt/pyct/templates.py'

VISITORS = {'visit_If': 'if_stmt', 'visit_While': 'while_stmt',
            'visit_For': 'for_stmt'}


def _block_vars_atoms(aliases):
  def at(e):
    t = setalg.alias_text(e, aliases)
    if t.startswith('anno.getanno(') and 'anno.Static.DEFINED_VARS_IN' in t:
      return 'DEFINED_IN'
    if t.startswith('anno.getanno(') and 'anno.Static.LIVE_VARS_IN' in t:
      return 'LIVE_IN'
    if t.startswith('anno.getanno(') and 'anno.Static.LIVE_VARS_OUT' in t:
      return 'LIVE_OUT'
    return {
        'self.state[_Function].scope.nonlocals': 'FN.nonlocals',
        'self.state[_Function].scope.globals': 'FN.globals',
    }.get(t)
  return at


class BlockVars:
  """_get_block_vars evaluated to membership formulas (names derived from the
  structure of the function, not from what its locals are called)."""

  def __init__(self, model):
    fi = model.func(CF, 'ControlFlowTransformer._get_block_vars')
    self.fi = fi
    self.aliases = setalg.single_assignment_aliases(fi.node)
    # helper methods resolve their own aliases when inlined
    cls = fi.cls

    def at(e):
      for f in [fi] + [m for m in cls.methods.values()]:
        pass
      return _block_vars_atoms(self.all_aliases)(e)

    self.all_aliases = dict(self.aliases)
    for m in cls.methods.values():
      if m.name.startswith('_get_block'):
        self.all_aliases.update(setalg.single_assignment_aliases(m.node))
    ps = fi.params()
    self.ev = setalg.Ev(model, fi, at)
    env = {ps[1]: setalg.SetV(atom('MODIFIED')), ps[0]: setalg.Opaque('node')}
    rets, _ = self.ev.run(env)
    if len(rets) != 1 or not isinstance(rets[0][1], setalg.TupleV) or \
        len(rets[0][1].items) != 3:
      raise core.AnalysisError('_get_block_vars: expected one return of a 3-tuple')
    pc, v, renv = rets[0]
    self.state, self.undefined, self.nouts_val = v.items
    self.env = renv
    # nouts is a count: the number of state elements that are outputs.  The
    # input-only variables are the remaining state elements (no local name is
    # consulted: `len(a) - len(b)`, `len(outputs)`, ... all evaluate to a count)
    self.outputs = self.nouts_val.f if isinstance(self.nouts_val, setalg.CountV) else None
    self.input_only = None
    if self.outputs is not None and isinstance(self.state, setalg.SetV):
      self.input_only = setalg.SetV(self.state.f & ~self.outputs)


def eval_block_vars(model):
  """Compatibility wrapper: (fi, ev, TupleV(state, undefined, nouts), env with
  'input_only')."""
  bv = BlockVars(model)
  env = dict(bv.env)
  if bv.input_only is not None:
    env['input_only'] = bv.input_only
  return bv.fi, bv.ev, setalg.TupleV([bv.state, bv.undefined, bv.nouts_val]), env


def check(model, rep, tier):
  rep.not_decided = ('run-time values of composite state read through ldu; '
                     'behaviour of a particular backend')
  rep.touch(CF, OPCF, OPCE, OPLOG, OPVAR, DIRS, BRK, TPL)
  rep.rule('SEQ', 'names / getter / setter derive from one list, order kept, no '
           'filter', floor=6)
  rep.rule('GETSET', 'getter/setter template shape; ldu exception set', floor=4)
  rep.rule('CB-ARITY', 'callback parameter counts = fallback call arities', floor=9)
  rep.rule('OP-ROLE', 'operator call argument roles and counts', floor=20)
  rep.rule('NOUTS', 'output count and ordering', floor=3)
  rep.rule('OPTS', 'loop options and directives', floor=6)
  rep.rule('SHARED-MUT', 'module-level mutable objects are never mutated through '
           'an alias (directive tables / option nodes stay per loop)', floor=2)
  rep.rule('QN-SUPPORT', 'support_set is the structural fold over a composite '
           'name (decides which composites enter the state tuples)', floor=3)

  cls = model.cls(CF, 'ControlFlowTransformer')
  sites = tpl.find_sites(model, [CF])
  csf = model.func(CF, 'ControlFlowTransformer._create_state_functions')

  # ---------------------------------------------------------------- SEQ
  for vn, op in VISITORS.items():
    v = cls.methods.get(vn)
    if v is None:
      raise core.AnalysisError('%s not found' % vn)
    gcalls = [c for c in ast.walk(v.node) if isinstance(c, ast.Call) and
              core.norm(c.func) == 'self._create_state_functions']
    main = [s for s in sites if s.fi.node is v.node and 'symbol_names' in s.kwargs]
    if len(gcalls) != 1 or len(main) != 1:
      raise core.AnalysisError('%s: state function call / main template not found' % vn)
    statevar = core.norm(gcalls[0].args[0])
    sn = main[0].kwargs['symbol_names']
    if isinstance(sn, ast.Name):
      # a local that holds the tuple: its (single) definition
      defs0 = [a_ for a_ in ast.walk(v.node) if isinstance(a_, ast.Assign) and
               len(a_.targets) == 1 and core.norm(a_.targets[0]) == sn.id]
      if len(defs0) == 1:
        sn = defs0[0].value
    comp = sn.args[0] if isinstance(sn, ast.Call) and core.dotted(sn.func) == 'tuple' \
        and sn.args else sn
    ok = isinstance(comp, (ast.GeneratorExp, ast.ListComp)) and \
        len(comp.generators) == 1 and not comp.generators[0].ifs and \
        core.norm(comp.generators[0].iter) == statevar and \
        core.norm(comp.elt) == 'ast.Constant(str(%s))' % core.norm(
            comp.generators[0].target)
    rd = tpl.rdefs(v.node)
    d1 = rd.reaching(gcalls[0], statevar)
    # (the state list at the place where the names are computed: the template
    # call itself, or the assignment of the local that holds them)
    sn_at = main[0].call
    if isinstance(main[0].kwargs['symbol_names'], ast.Name):
      defs_ = [a_ for a_ in ast.walk(v.node) if isinstance(a_, ast.Assign) and
               len(a_.targets) == 1 and core.norm(a_.targets[0]) ==
               main[0].kwargs['symbol_names'].id]
      if len(defs_) == 1:
        sn_at = defs_[0].value
    d2 = rd.reaching(sn_at, statevar)
    same = d1 is not None and d2 is not None and [id(x) if not isinstance(
        x, tuple) else id(x[1]) for x in d1] == [id(x) if not isinstance(
            x, tuple) else id(x[1]) for x in d2]
    rep.check(ok and same, 'SEQ', '%s:symbol_names' % v.site,
              'the names tuple must be built from the very list handed to the '
              'state functions, element by element, without filter or reorder',
              {'state_list': statevar, 'symbol_names': core.norm(sn)},
              line=main[0].call.lineno,
              witness='a loop whose target is itself loop state: names one '
              'shorter than the getter tuple')
    nl = [c for c in ast.walk(v.node) if isinstance(c, ast.Call) and
          core.norm(c.func) == 'self._create_nonlocal_declarations']
    rep.check(len(nl) == 1 and core.norm(nl[0].args[0]) == statevar, 'SEQ',
              '%s:declarations-from-same-list' % v.site,
              'nonlocal declarations must be derived from the same state list',
              line=v.node.lineno)
  # inside _create_state_functions
  bv = csf.params()[0]
  st_main = [s for s in sites if s.fi.node is csf.node and 'state_vars' in s.kwargs]
  glist = core.norm(st_main[0].kwargs['guarded_state_vars']) if st_main and \
      'guarded_state_vars' in st_main[0].kwargs else None
  lm = tpl.listmap(csf.node, glist) if glist is not None else None
  ok = lm is not None and core.norm(lm[1]) == bv and isinstance(lm[0], ast.Name)
  rng = (1, 1) if ok else None
  rep.check(ok, 'SEQ', '%s:getter-list-one-per-variable' % csf.site,
            'the getter list must receive exactly one entry per state variable, '
            'in order', {'appends_per_iteration': rng}, line=csf.node.lineno)
  ok = len(st_main) == 1 and core.norm(st_main[0].kwargs['state_vars']) == \
      'tuple(%s)' % bv and glist is not None
  rep.check(ok, 'SEQ', '%s:setter-targets' % csf.site,
            'setter targets must be tuple(block_vars) and the getter must return '
            'the guarded list built from it', line=csf.node.lineno)

  # ---------------------------------------------------------------- GETSET
  if st_main:
    t = st_main[0].templates[0]
    fns = t.functions()
    ok = len(fns) == 2
    facts = {'template': t.text.strip()}
    if ok:
      gt, stt = fns
      ok = (not gt.args.args and len(gt.body) == 1 and isinstance(
          gt.body[0], ast.Return) and isinstance(gt.body[0].value, ast.Tuple) and
            [core.norm(x) for x in gt.body[0].value.elts] == ['guarded_state_vars']
            and len(stt.args.args) == 1 and len(stt.body) == 2 and
            core.norm(stt.body[0]) == 'nonlocal_declarations' and isinstance(
                stt.body[1], ast.Assign) and isinstance(
                    stt.body[1].targets[0], ast.Tuple) and
            [core.norm(x) for x in stt.body[1].targets[0].elts] == ['state_vars']
            and core.norm(stt.body[1].value) == stt.args.args[0].arg)
    rep.check(ok, 'GETSET', '%s:template' % csf.site,
              'getter: `return <state>,`; setter(arg): declarations, then '
              '`<state>, = arg`', facts, line=st_main[0].call.lineno,
              witness='write-then-read must return what was written')
  empty = [s for s in sites if s.fi.node is csf.node and 'state_vars' not in s.kwargs
           and s.api == 'replace' and any(t.functions() for t in s.templates)]
  ok = len(empty) == 1
  if ok:
    fns = empty[0].templates[0].functions()
    ok = len(fns) == 2 and core.norm(fns[0].body[0]) == 'return ()' and \
        isinstance(fns[1].body[0], ast.Pass) and len(fns[1].args.args) == 1
  rep.check(ok, 'GETSET', '%s:empty-state-template' % csf.site,
            'with no state: getter returns (), setter takes one argument and '
            'does nothing', line=csf.node.lineno)
  ldu_sites = [s for s in sites if s.fi.node is csf.node and any(
      'ag__.ldu' in t.text for t in s.templates)]
  ok = len(ldu_sites) == 1 and ldu_sites[0].templates[0].text.strip() == \
      'ag__.ldu(lambda: var_, name)' and lm is not None
  if ok:
    lv = core.norm(lm[0])
    elt = lm[2]
    # element = v when v is simple, the guarded read of v otherwise
    ok = isinstance(elt, ast.IfExp)
    if ok:
      t = core.norm(elt.test)
      simple, comp = (elt.body, elt.orelse) if t in (
          '%s.is_simple()' % lv, 'not %s.is_composite()' % lv) else (
              (elt.orelse, elt.body) if t in ('%s.is_composite()' % lv,
                                              'not %s.is_simple()' % lv) else (None, None))
      ok = simple is not None and core.norm(simple) == lv and \
          comp is ldu_sites[0].call and core.norm(ldu_sites[0].kwargs['var_']) == lv \
          and core.norm(ldu_sites[0].kwargs['name']) == 'ast.Constant(str(%s))' % lv
  rep.check(ok, 'GETSET', '%s:composites-through-ldu' % csf.site,
            'composite state must be read as ag__.ldu(lambda: <sym>, <name>)',
            line=csf.node.lineno)
  # ldu semantics (E5): value, or Undefined(name) exactly on Key/Attribute/NameError
  vm = model.module(OPVAR)
  funcs = {k: v.node for k, v in vm.functions.items()}
  spec = ast.parse('''
def ldu(load_v, name):
  try:
    return load_v()
  except (KeyError, AttributeError, NameError):
    return Undefined(name)
''').body[0]
  A = effects.automaton(funcs['ldu'], funcs, classes={'Undefined'})
  B = effects.automaton(spec, {'ldu': spec}, classes={'Undefined'})
  ok, cex = effects.equivalent(effects.dfa(*A), effects.dfa(*B))
  rep.check(ok, 'GETSET', '%s:ldu-event-language' % vm.functions['ldu'].site,
            'ldu must return the loaded value, or Undefined(name) exactly when '
            'the load raises KeyError / AttributeError / NameError',
            {'difference_after': cex}, line=funcs['ldu'].lineno,
            witness='attribute state on an object that does not have the '
            'attribute yet')

  # ---------------------------------------------------------------- CB-ARITY
  opm = model.module(OPCF)
  ofuncs = {k: v.node for k, v in opm.functions.items()}
  arities = {op: effects.callback_arities(ofuncs[op], ofuncs)
             for op in ('if_stmt', 'while_stmt', 'for_stmt')}
  DOC = {('if_stmt', 'body'): 0, ('if_stmt', 'orelse'): 0,
         ('while_stmt', 'test'): 0, ('while_stmt', 'body'): 0,
         ('for_stmt', 'extra_test'): 0, ('for_stmt', 'body'): 1,
         ('*', 'get_state'): 0, ('*', 'set_state'): 1}
  for (op, cb), want in DOC.items():
    if op == '*':
      continue
    got = arities[op].get(cb)
    rep.check(got == {want}, 'CB-ARITY', '%s:%s.%s' % (OPCF, op, cb),
              'the fallback of %s calls %s with %s argument(s); documented: %d' %
              (op, cb, sorted(got) if got else 'no', want), {'called_with': sorted(
                  got) if got else None}, line=ofuncs[op].lineno)
  # generated callbacks
  for vn, op in VISITORS.items():
    v = cls.methods[vn]
    main = [s for s in sites if s.fi.node is v.node and 'symbol_names' in s.kwargs][0]
    t = main.templates[0]
    call = [n for n in ast.walk(t.tree) if isinstance(n, ast.Call) and
            core.dotted(n.func) == 'ag__.' + op]
    if len(call) != 1:
      raise core.AnalysisError('%s: emitted %s call not found' % (vn, op))
    call = call[0]
    opdef = ofuncs[op]
    params = [a.arg for a in opdef.args.args]
    rep.check(len(call.args) == len(params) and not call.keywords, 'OP-ROLE',
              '%s:%s:argument-count' % (v.site, op),
              'ag__.%s is emitted with %d arguments; the operator takes %s' %
              (op, len(call.args), params), {'emitted': [core.norm(a) for a in
                                                         call.args]},
              line=main.call.lineno)
    defs = {f.name: f for f in t.functions()}
    for pname, arg in zip(params, call.args):
      an = core.norm(arg)
      site = '%s:%s:%s' % (v.site, op, pname)
      if pname in ('body', 'orelse', 'test'):
        d = defs.get(an)
        want_n = DOC[(op, pname)]
        okd = d is not None and len(d.args.args) == want_n
        rep.check(okd, 'CB-ARITY', '%s:generated-%s' % (v.site, pname),
                  'generated %s callback must take %d parameter(s) (the '
                  'fallback calls it that way)' % (pname, want_n),
                  {'def': core.norm(d.args) if d else None}, line=main.call.lineno)
        # role: the def holds the matching user code
        want_ph = {'body': 'body', 'orelse': 'orelse', 'test': 'test'}[pname]
        holds = d is not None and any(
            isinstance(n, ast.Name) and n.id == want_ph for n in ast.walk(d))
        src = main.kwargs.get(want_ph)
        okv = src is not None
        if okv:
          ds = tpl.rdefs(v.node).reaching(main.call, src.id) if isinstance(
              src, ast.Name) else None
          # the user fields the value can come from (`node.orelse`,
          # `node.orelse or [pass]`, a conditional expression over it, ...)
          p0 = v.params()[0]
          exprs = [src] + [d for d in (ds or []) if isinstance(d, ast.AST)]
          fields = {x.attr for e_ in exprs for x in ast.walk(e_)
                    if isinstance(x, ast.Attribute) and core.norm(x.value) == p0
                    and x.attr in ('body', 'orelse', 'test', 'iter', 'target')}
          okv = fields == {want_ph}
        rep.check(holds and okv, 'OP-ROLE', site,
                  'argument for `%s` must be the generated function that holds '
                  'the user\'s %s' % (pname, want_ph),
                  {'argument': an, 'holds': holds, 'source': core.norm(src)
                   if src is not None else None}, line=main.call.lineno)
      elif pname in ('cond', 'iter_'):
        src = main.kwargs.get(an)
        want = {'cond': 'node.test', 'iter_': 'node.iter'}[pname]
        rep.check(src is not None and core.norm(src) == want, 'OP-ROLE', site,
                  'argument for `%s` must be %s' % (pname, want),
                  {'argument': an}, line=main.call.lineno)
      elif pname in ('get_state', 'set_state'):
        src = main.kwargs.get(an)
        gc = [c for c in ast.walk(v.node) if isinstance(c, ast.Call) and
              core.norm(c.func) == 'self._create_state_functions'][0]
        pos = {'get_state': 2, 'set_state': 3}[pname]
        okr = src is not None and core.norm(src) == core.norm(gc.args[pos])
        rep.check(okr, 'OP-ROLE', site,
                  'argument for `%s` must be the name given to the generated '
                  '%s' % (pname, 'getter' if pos == 2 else 'setter'),
                  {'argument': core.norm(src) if src is not None else None,
                   'passed_to_state_functions': core.norm(gc.args[pos])},
                  line=main.call.lineno)
      elif pname == 'symbol_names':
        rep.check(isinstance(arg, ast.Tuple) and [core.norm(x) for x in arg.elts]
                  == ['symbol_names'], 'OP-ROLE', site,
                  'symbol_names must be the tuple of state names', line=main.call.lineno)
      elif pname in ('nouts', 'opts'):
        rep.check(an == pname and pname in main.kwargs, 'OP-ROLE', site,
                  '%s argument' % pname, line=main.call.lineno)
      elif pname == 'extra_test':
        rep.check(an == 'extra_test_name', 'OP-ROLE', site, 'extra_test argument',
                  line=main.call.lineno)
      else:
        rep.violation('OP-ROLE', site, 'unknown operator parameter %s' % pname)
  # getter/setter/extra_test arities
  if st_main:
    fns = st_main[0].templates[0].functions()
    rep.check(len(fns[0].args.args) == 0 and len(fns[1].args.args) == 1, 'CB-ARITY',
              '%s:generated-get/set_state' % csf.site,
              'get_state takes no argument, set_state exactly one', line=csf.node.lineno)
  vf = cls.methods['visit_For']
  et = [s for s in sites if s.fi.node is vf.node and 'extra_test_expr' in s.kwargs]
  ok = len(et) == 1 and len(et[0].templates[0].functions()) == 1 and \
      not et[0].templates[0].functions()[0].args.args
  rep.check(ok, 'CB-ARITY', '%s:generated-extra_test' % vf.site,
            'extra_test takes no argument', line=vf.node.lineno)
  # expression operators
  for rel, op, roles in ((OPCE, 'if_exp', 4), (OPLOG, 'and_', 2), (OPLOG, 'or_', 2),
                         (OPLOG, 'not_', 1)):
    od = model.func(rel, op)
    rep.check(len(od.node.args.args) == roles, 'OP-ROLE', '%s:%s:parameters' % (rel, op),
              '%s must take %d parameters' % (op, roles),
              {'params': [a.arg for a in od.node.args.args]}, line=od.node.lineno)
  ie = [s for s in tpl.find_sites(model, ['malt/converters/conditional_expressions.py'])]
  ok = False
  for s in ie:
    for t in s.templates:
      for n in ast.walk(t.tree):
        if isinstance(n, ast.Call) and core.dotted(n.func) == 'ag__.if_exp':
          a = [core.norm(x) for x in n.args]
          ok = a == ['test', 'lambda: true_expr', 'lambda: false_expr', 'expr_repr'] \
              and core.norm(s.kwargs['test']) == 'node.test' and \
              core.norm(s.kwargs['true_expr']) == 'node.body' and \
              core.norm(s.kwargs['false_expr']) == 'node.orelse'
  rep.check(ok, 'OP-ROLE', 'malt/converters/conditional_expressions.py:if_exp-roles',
            'if_exp(test, lambda: body, lambda: orelse, repr) with body/orelse '
            'not swapped', {}, witness='c if a else b')

  # ---------------------------------------------------------------- NOUTS
  fi, ev, v, renv = eval_block_vars(model)
  state, undefined, nouts = v.items if isinstance(v, setalg.TupleV) else (None,) * 3
  ok = isinstance(state, setalg.SetV) and isinstance(nouts, setalg.CountV)
  cex = None
  if ok:
    ok, cex = implies(nouts.f, state.f)
  rep.check(ok, 'NOUTS', '%s:input_only-subset-of-state' % fi.site,
            'nouts must count a subset of the state variables (0 <= nouts <= '
            'len): `len(state) - len(input_only)` is that count only when '
            'input_only is a subset of state',
            {'counterexample': cex, 'nouts': repr(nouts)[:200]}, line=fi.node.lineno)
  facts = {}
  ok = isinstance(state, setalg.SeqV) and isinstance(nouts, setalg.CountV)
  if ok:
    # some prefix of the segments is exactly the counted set, and every later
    # segment is disjoint from it
    segs = state.segs
    facts = {'segments': [str(g)[:120] for g in segs], 'counted': str(nouts.f)[:160]}
    ok = False
    for k in range(len(segs) + 1):
      pre = setalg.FALSE
      for g in segs[:k]:
        pre = pre | g
      post = setalg.FALSE
      for g in segs[k:]:
        post = post | g
      if equivalent(pre, nouts.f)[0] and not satisfiable(post & nouts.f):
        ok = True
        break
  else:
    facts = {'state': type(state).__name__, 'nouts': repr(nouts)[:160]}
  rep.check(ok, 'NOUTS', '%s:outputs-first' % fi.site,
            'the first nouts elements of the state list must be exactly the '
            'variables nouts counts: the list is ordered outputs first, and the '
            'ordering and the count use the same set', facts, line=fi.node.lineno,
            witness='an `if` that modifies an input-only variable sorting before '
            'an in/out variable')
  vi = cls.methods['visit_If']
  main = [s for s in sites if s.fi.node is vi.node and 'nouts' in s.kwargs][0]
  gb = [c for c in ast.walk(vi.node) if isinstance(c, ast.Call) and
        core.norm(c.func) == 'self._get_block_vars'][0]
  asg = [n for n in ast.walk(vi.node) if isinstance(n, ast.Assign) and n.value is gb]
  ok = len(asg) == 1 and isinstance(asg[0].targets[0], ast.Tuple) and \
      core.norm(main.kwargs['nouts']) == 'ast.Constant(%s)' % core.norm(
          asg[0].targets[0].elts[2])
  rep.check(ok, 'NOUTS', '%s:nouts-wired' % vi.site,
            'the emitted nouts must be the count computed by _get_block_vars',
            line=vi.node.lineno)

  # ---------------------------------------------------------------- OPTS
  optv = [core.norm(n.targets[0]) for n in ast.walk(vf.node)
          if isinstance(n, ast.Assign) and core.norm(n.value) ==
          'self._create_loop_options(%s)' % vf.params()[0]]
  ov = optv[0] if optv else 'opts'
  keys = [c for c in ast.walk(vf.node) if isinstance(c, ast.Call) and
          core.norm(c.func) == ov + '.keys.append']
  vals = [c for c in ast.walk(vf.node) if isinstance(c, ast.Call) and
          core.norm(c.func) == ov + '.values.append']
  other = [c for c in ast.walk(vf.node) if isinstance(c, ast.Call) and
           core.norm(c.func).startswith(ov + '.') and c not in keys + vals]
  ok = len(optv) == 1 and len(keys) == 1 and len(vals) == 1 and not other and \
      core.norm(keys[0].args[0]) == "ast.Constant('iterate_names')" and \
      (vf.params()[0] + '.target') in tpl.xnorm(vf, vals[0].args[0], vals[0])
  rep.check(ok, 'OPTS', '%s:iterate_names' % vf.site,
            'for loops must append the key iterate_names and its value (the '
            'loop target text) at the same position of the options dict',
            {'keys': [core.norm(c) for c in keys], 'values': [core.norm(c) for c in vals],
             'other': [core.norm(c) for c in other]}, line=vf.node.lineno)
  clo = model.func(CF, 'ControlFlowTransformer._create_loop_options')
  annos = [core.norm(c) for c in ast.walk(clo.node) if isinstance(c, ast.Call) and
           (core.dotted(c.func) or '').startswith('anno.')]
  cp = clo.params()[0]
  ok = all(('(%s, anno.Basic.DIRECTIVES' % cp) in a for a in annos) and len(annos) >= 1
  rets = [r for r in ast.walk(clo.node) if isinstance(r, ast.Return)]
  full = [r for r in rets if isinstance(r.value, ast.Call) and core.dotted(
      r.value.func) == 'ast.Dict' and any(k.arg == 'keys' and not (
          isinstance(k.value, ast.List) and not k.value.elts) for k in r.value.keywords)]
  okf = len(full) == 1
  # the options table is <the node's DIRECTIVES annotation>[set_loop_options]
  okf = okf and any(
      isinstance(n, ast.Subscript) and core.norm(n.slice) == 'directives.set_loop_options'
      and tpl.xnorm(clo, n.value, n).startswith(
          'anno.getanno(%s, anno.Basic.DIRECTIVES' % cp)
      for n in ast.walk(clo.node))
  rep.check(ok and okf, 'OPTS',
            '%s:own-directives-only' % clo.site,
            'loop options must be read from the loop node\'s own DIRECTIVES '
            'annotation (set_loop_options entry)', {'anno_calls': annos},
            line=clo.node.lineno)
  # a directive call may carry no option at all (`set_loop_options()`): the table
  # is then empty, and `ks, vs = zip(*table.items())` cannot be unpacked
  zs = []
  for a_ in ast.walk(clo.node):
    if isinstance(a_, ast.Assign) and isinstance(a_.targets[0], (ast.Tuple, ast.List)) and \
        isinstance(a_.value, ast.Call) and core.dotted(a_.value.func) == 'zip' and any(
            isinstance(x, ast.Starred) for x in a_.value.args):
      src_ = core.norm([x for x in a_.value.args if isinstance(x, ast.Starred)][0].value)
      base_ = src_.split('.items()')[0].split('.keys()')[0]
      guarded = any(pol == 'T' and core.norm(t_) in (base_, 'len(%s)' % base_,
                                                     'len(%s) > 0' % base_)
                    for pol, t_ in formula.path_condition(clo.node, a_))
      if not guarded:
        zs.append(core.norm(a_))
  rep.check(not zs, 'OPTS', '%s:empty-directive-table' % clo.site,
            'the options of a directive call without arguments form an empty table; '
            'unpacking zip(*table.items()) into keys and values fails on it and the '
            'conversion of the whole function is lost', {'unpacked': zs},
            line=clo.node.lineno, witness='while ...: set_loop_options(); ...')
  psd = model.func(DIRS, 'DirectivesTransformer._process_statement_directive')
  pp = psd.params()
  # (pure aliases such as `target = self.state[_LoopScope].ast_node` are removed by
  # the normalising pre-pass, sa/inline.py)
  ok = pat.has(psd.node, 'anno.setanno(self.state[_LoopScope].ast_node, '
               'anno.Basic.DIRECTIVES, _A_)') and pat.has(
                   psd.node, '_A_[%s] = _map_args(%s, %s)' % (pp[1], pp[0], pp[1])) and \
      pat.has(psd.node, '_A_ = anno.getanno(self.state[_LoopScope].ast_node, '
              'anno.Basic.DIRECTIVES, {})')
  rep.check(ok, 'OPTS', '%s:innermost-loop' % psd.site,
            'a loop directive must be recorded on the innermost enclosing loop '
            'node', line=psd.node.lineno)
  tvl = model.func(DIRS, 'DirectivesTransformer._track_and_visit_loop')
  src = core.norm(tvl.node)
  ok = 'self.state[_LoopScope].enter()' in src and \
      'self.state[_LoopScope].ast_node = node' in src and \
      'self.state[_LoopScope].exit()' in src
  dcls = model.cls(DIRS, 'DirectivesTransformer')
  ok = ok and all(core.norm(dcls.methods[h].node.body[-1]) ==
                  'return self._track_and_visit_loop(node)'
                  for h in ('visit_While', 'visit_For'))
  rep.check(ok, 'OPTS', '%s:loop-scope-per-loop' % tvl.site,
            'every while/for opens its own loop scope holding that node',
            line=tvl.node.lineno)
  ve = model.func(DIRS, 'DirectivesTransformer.visit_Expr')
  # the statement is dropped (return None) exactly when the callee is one of
  # the directive functions: a formula over the tests of visit_Expr
  from sa import formula as _fm
  dfuncs = sorted(f.name for f in model.module('malt/lang/directives.py').functions.values()
                  if not f.name.startswith('_'))

  def _dir_atom(e):
    if isinstance(e, ast.Compare) and len(e.ops) == 1 and isinstance(e.ops[0], ast.Is):
      d = core.dotted(e.comparators[0]) or ''
      if d.startswith('directives.') and d.split('.', 1)[1] in dfuncs:
        return 'IS[%s]' % d.split('.', 1)[1]
    return None
  cases = _fm.return_cases(ve.node, _dir_atom)
  f_none = _fm.FALSE
  for c, v in cases:
    # not emitted: the statement is deleted (None) or replaced by `pass`
    if v is None or (isinstance(v, ast.Constant) and v.value is None) or (
        isinstance(v, ast.Call) and core.dotted(v.func) == 'ast.Pass' and not v.args
        and not v.keywords):
      f_none = f_none | c
  missing = []
  anyd = _fm.FALSE
  for d in dfuncs:
    anyd = anyd | atom('IS[%s]' % d)
  for d in dfuncs:
    only = atom('IS[%s]' % d)
    for o in dfuncs:
      if o != d:
        only = only & ~atom('IS[%s]' % o)
    if not satisfiable(f_none & only):
      missing.append(d)
  o2, cex = implies(f_none, anyd)
  rep.check(not missing and o2 and len(dfuncs) >= 2, 'OPTS',
            '%s:directive-call-removed' % ve.site,
            'a statement is dropped from the generated code (deleted or '
            'replaced by pass) exactly when it calls a directive function (%s)' %
            ', '.join(dfuncs),
            {'not_removed': missing, 'removed_without_directive': cex},
            line=ve.node.lineno)
  # rebuilt loop nodes keep the annotations
  bcls = model.cls(BRK, 'BreakTransformer')
  for h, need in (('visit_While', ['DIRECTIVES']),
                  ('visit_For', ['DIRECTIVES', 'EXTRA_LOOP_TEST'])):
    fn = bcls.methods[h]
    g = pycfg.CFG(fn.node)
    for key in need:
      bad = []
      for ri in g.nodes_where(lambda k, a: k == 'return'):
        w = {i: 1 for i in range(len(g.nodes)) if any(
            (core.dotted(c.func) in ('anno.copyanno', 'anno.setanno')) and
            ('anno.Basic.' + key) in core.norm(c)
            for c in pycfg.calls_at(g, i))}
        rng = g.count_range(w, ends={ri}, skip_labels=())
        if not rng or rng[0] < 1:
          bad.append(g.nodes[ri][1].lineno)
      rep.check(not bad, 'OPTS', '%s:keeps(%s)' % (fn.site, key),
                'a rebuilt loop node must carry over the %s annotation on every '
                'path' % key, {'returns_without_copy': bad}, line=fn.node.lineno,
                witness='set_loop_options in a loop that also has a break')
      # ... and it must be copied *from the user's loop node* (the handler's
      # parameter, before it is rebound to the generated statements)
      srcs = []
      for c in core.walk_no_nested(fn.node):
        if isinstance(c, ast.Call) and core.dotted(c.func) == 'anno.copyanno' and \
            len(c.args) >= 3 and ('anno.Basic.' + key) in core.norm(c.args[2]):
          e = tpl.expand(fn, c.args[0], c)
          is_param = isinstance(e, ast.Name) and e.id == fn.params()[0]
          if is_param:
            # the name must still denote the parameter where the chain ends
            chain_at = c
            cur = c.args[0]
            for _ in range(6):
              if not isinstance(cur, ast.Name):
                break
              ds = tpl.rdefs(fn.node).reaching(chain_at, cur.id) or []
              if len(ds) == 1 and isinstance(ds[0], tuple) and ds[0][0] == 'param':
                break
              if len(ds) == 1 and isinstance(ds[0], ast.Name):
                cur, chain_at = ds[0], ds[0]
                continue
              is_param = False
              break
          srcs.append((core.norm(c.args[0]), is_param))
      rep.check(bool(srcs) and all(p for _, p in srcs), 'OPTS',
                '%s:copies(%s)-from-the-user-node' % (fn.site, key),
                'the %s annotation must be copied from the loop node the user '
                'wrote; a name that has been rebound to the generated statements '
                'carries no annotation and the copy silently does nothing' % key,
                {'sources': srcs}, line=fn.node.lineno,
                witness='while loop with set_loop_options and a break')
  pres = model.func(TPL, 'ReplaceTransformer.__init__')
  src = core.norm(pres.node)
  rep.check('anno.Basic.DIRECTIVES' in src and 'anno.Basic.EXTRA_LOOP_TEST' in src,
            'OPTS', '%s:preserved_annos' % pres.site,
            'template replacement must preserve DIRECTIVES and EXTRA_LOOP_TEST',
            line=pres.node.lineno)

  # order of the state: set_state assigns its targets left to right, so a symbol
  # that occurs in the subscript of a composite state variable has to come first
  gbv = model.func(CF, 'ControlFlowTransformer._get_block_vars')
  srt = [c for c in ast.walk(gbv.node) if isinstance(c, ast.Call) and
         core.dotted(c.func) == 'sorted' and any(k.arg == 'key' for k in c.keywords)]
  ok = len(srt) == 1
  facts = {}
  if ok:
    key = [k.value for k in srt[0].keywords if k.arg == 'key'][0]
    facts['key'] = core.norm(key)
    ok = isinstance(key, ast.Lambda) and any(
        isinstance(n, ast.Attribute) and n.attr in ('support_set', 'is_composite',
                                                    'is_simple', 'owner_set')
        for n in ast.walk(key.body))
  rep.check(ok, 'SEQ', '%s:state-order-respects-support' % gbv.site,
            'the state is sorted lexicographically (outputs first): `d[o.x]` sorts '
            'before `o.x`, so set_state((a, k)) stores a under the *old* o.x and '
            'get_state() then reads d[k]: a write followed by a read does not '
            'return what was written', facts, line=gbv.node.lineno,
            witness='if c: o.x = 1; d[o.x] = v')

  # directive arguments: every argument the user passed, positionally or by
  # keyword, is kept; only parameters left at UNSPECIFIED are dropped
  ma = model.func(DIRS, '_map_args')
  from sa import collect
  rets = [r for r in core.walk_no_nested(ma.node) if isinstance(r, ast.Return)]
  ys, problems = collect.yields(ma.node)
  facts = {}
  ok = len(rets) == 1
  if ok:
    acc = '<return>' if not isinstance(rets[0].value, ast.Name) else rets[0].value.id
    mine = [y for y in ys if y[2] == acc]
    ok = len(mine) == 1 and len(mine[0][0]) == 1
  if ok:
    levels, elt, _ = mine[0]
    lv = levels[0]
    names = lv['target'].split(',')
    src = core.norm(lv['iter'])
    facts['iterates'] = src
    facts['conditions'] = [(pol, core.norm(t)) for pol, t in lv['conds']]
    cf = formula.TRUE
    for pol, t in lv['conds']:
      f_ = formula.bool_formula(t, lambda e: 'UNSPEC' if len(names) == 2 and core.norm(
          e) == '%s is directives.UNSPECIFIED' % names[1] else None)
      cf = cf & (f_ if pol == 'T' else ~f_)
    # entries that are neither kept nor left at UNSPECIFIED must make the call
    # fail: they are appended to a list that is tested, and raised on, after the loop
    def _atoms(e):
      if len(names) == 2 and core.norm(e) == '%s is directives.UNSPECIFIED' % names[1]:
        return 'UNSPEC'
      return None
    rej = formula.FALSE
    for st_ in ast.walk(ma.node):
      if isinstance(st_, ast.Expr) and isinstance(st_.value, ast.Call) and isinstance(
          st_.value.func, ast.Attribute) and st_.value.func.attr == 'append' and \
          isinstance(st_.value.func.value, ast.Name):
        lst_ = st_.value.func.value.id
        raised = any(isinstance(i_, ast.If) and core.norm(i_.test) == lst_ and any(
            isinstance(x_, ast.Raise) for x_ in i_.body) for i_ in ma.node.body)
        if not raised:
          continue
        f2 = formula.TRUE
        for pol, t in formula.path_condition(ma.node, st_):
          if pol not in ('T', 'F'):
            continue
          b_ = formula.bool_formula(t, _atoms)
          f2 = f2 & (b_ if pol == 'T' else ~b_)
        rej = rej | f2
    cf = formula.TRUE
    for pol, t in lv['conds']:
      f_ = formula.bool_formula(t, _atoms)
      cf = cf & (f_ if pol == 'T' else ~f_)
    ok = len(names) == 2 and src.startswith('inspect.getcallargs(') and \
        src.endswith('.items()') and core.norm(elt) == '(%s, %s)' % tuple(names) and \
        formula.implies(~formula.atom('UNSPEC'), cf | rej)[0] and \
        formula.implies(cf, ~formula.atom('UNSPEC'))[0]
  rep.check(ok, 'OPTS', '%s:keeps-every-specified-argument' % ma.site,
            'the directive annotation must hold every bound argument of the '
            'directive call except those left at UNSPECIFIED', facts,
            line=ma.node.lineno,
            witness='set_loop_options(8, maximum_iterations=n): the positional '
            'argument must reach the loop options')

  # ---------------------------------------------------------------- SHARED-MUT
  rules_shared.selftest()
  rels = sorted(m.rel for m in model.modules.values() if m.rel.startswith(
      ('malt/converters/', 'malt/core/', 'malt/lang/')))
  rules_shared.check(model, rep, 'SHARED-MUT', rels)
  # ---------------------------------------------------------------- QN-SUPPORT
  rules_qn.support(model, rep, 'QN-SUPPORT')

  # ---------------------------------------------------------------- dependencies
  # ---------------------------------------------------------------- FOLD
  # and_ / or_ take zero-argument callables: the folds of n-ary boolean
  # operations and comparison chains hand every operand over as a lambda
  from sa import rules_fold
  rep.rule('FOLD', 'n-ary boolean operations and comparison chains are folded into '
           'nested operator calls whose operands are lambdas', floor=6)
  rules_fold.check(model, rep, 'FOLD')

  rep.depends('C11', ['HYG-SUPPORT'],
              'the setter assigns its targets through their own names: its parameter '
              'must not shadow a name that occurs in a composite target',
              site_filter=lambda site: 'setter-parameter' in site)
  rep.depends('C07', ['LV-TRANSFER', 'LV-CLOSURE', 'LV-BLOCK'],
              'nouts and the outputs-first order are computed from the LIVE_VARS_IN / '
              'LIVE_VARS_OUT annotations of the statement')
