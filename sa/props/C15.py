"""C15 — source recovery returns exactly the code of the function being converted.

 SRC-TEXT    taint from the source getters (getimmediatesource, linecache.getlines)
             to the parser: on the way the text may only be split into lines,
             have a prefix of a line's *own leading whitespace* removed, be joined
             and be prefixed with future imports.  Whole-text, context-free edits
             (str.replace, re.sub, textwrap.dedent, strip family, expandtabs)
             are violations: any pattern can occur inside a string or comment
 SRC-SLICE   a line slice on tainted text removes at most that line's own leading
             whitespace (bound derived from the line's own whitespace match)
 SRC-LAMBDA  every return of _parse_lambda is dominated by a `len(L) == 1` test
             of the list the node was unpacked from; all other paths raise; the
             candidate lists only grow inside their loops; the module is parsed
             whole
 SRC-NOSTATE no function on the source-recovery path touches module-level mutable
             state (a memo keyed by code object serves another function's text)
 SRC-GETTER  getimmediatesource uses findsource/getblock (never getsource, which
             follows __wrapped__) under the linecache lock; the linecache repair
             passes the namespace of the module that owns the file
"""
import ast

from sa import core
from sa import pat
from sa import pycfg
from sa import tpl

PARSER = 'malt/pyct/parser.py'
IU = 'malt/pyct/inspect_utils.py'

SOURCES = {'inspect_utils.getimmediatesource', 'linecache.getlines',
           'inspect.getsource', 'inspect.getsourcelines', 'inspect.findsource'}
BAD_METHODS = {'splitlines', 'replace', 'strip', 'lstrip', 'rstrip', 'expandtabs', 'translate',
               'removeprefix', 'removesuffix', 'lower', 'upper', 'format'}
BAD_FUNCS = {'re.sub', 're.subn', 'textwrap.dedent', 'textwrap.indent',
             'inspect.cleandoc'}
SINKS = {'parse', 'ast.parse'}


class Taint:
  """Forward taint through a function: which names hold (parts of) source text."""

  def __init__(self, model, fi, tainted_params=()):
    self.model = model
    self.fi = fi
    self.tainted = set(tainted_params)
    self.edits = []      # (node, description) context-free edits on tainted text
    self.slices = []     # Subscript nodes slicing tainted *lines*
    self.sinks = []      # calls to parse with a tainted argument
    self.calls = []      # (callee FuncInfo, tainted arg positions, call)
    self.ret_tainted = False
    changed = True
    rounds = 0
    while changed and rounds < 6:
      changed = False
      rounds += 1
      before = set(self.tainted)
      self._scan()
      changed = before != self.tainted

  def is_t(self, e):
    for n in ast.walk(e):
      if isinstance(n, ast.Name) and n.id in self.tainted:
        return True
      if isinstance(n, ast.Call) and core.dotted(n.func) in SOURCES:
        return True
    return False

  def _scan(self):
    self.edits, self.slices, self.sinks, self.calls = [], [], [], []
    for n in core.walk_no_nested(self.fi.node):
      if isinstance(n, ast.Assign):
        if self.is_t(n.value):
          for t in n.targets:
            for x in ast.walk(t):
              if isinstance(x, ast.Name):
                self.tainted.add(x.id)
      # text put into a collection taints the collection
      if isinstance(n, ast.Call) and isinstance(n.func, ast.Attribute) and \
          n.func.attr in ('append', 'extend', 'insert', 'add', 'appendleft') and \
          isinstance(n.func.value, ast.Name) and any(self.is_t(a) for a in n.args):
        self.tainted.add(n.func.value.id)
      if isinstance(n, ast.AugAssign) and isinstance(n.target, ast.Name) and \
          self.is_t(n.value):
        self.tainted.add(n.target.id)
      if isinstance(n, (ast.For, ast.comprehension)):
        if self.is_t(n.iter):
          for x in ast.walk(n.target):
            if isinstance(x, ast.Name):
              self.tainted.add(x.id)
      if isinstance(n, ast.Return) and n.value is not None and self.is_t(n.value):
        self.ret_tainted = True
      if isinstance(n, ast.Call):
        d = core.dotted(n.func)
        if isinstance(n.func, ast.Attribute) and n.func.attr in BAD_METHODS and \
            self.is_t(n.func.value):
          self.edits.append((n, '.%s() on recovered source text' % n.func.attr))
        if d in BAD_FUNCS and any(self.is_t(a) for a in n.args):
          self.edits.append((n, '%s() on recovered source text' % d))
        # compiled pattern: PATTERN.sub(repl, text) / .subn
        if isinstance(n.func, ast.Attribute) and n.func.attr in ('sub', 'subn') and \
            d not in BAD_FUNCS and any(self.is_t(a) for a in list(n.args)[1:] + [
                k.value for k in n.keywords if k.arg == 'string']):
          self.edits.append((n, 'regular-expression substitution on recovered '
                             'source text'))
        if d in SINKS and n.args and self.is_t(n.args[0]):
          self.sinks.append(n)
        if d and d not in SINKS:
          r = self.model.resolve(self.fi.module, n.func)
          if r and r[0] == 'func' and r[1].module.rel in (PARSER, IU):
            pos = [i for i, a in enumerate(n.args) if self.is_t(a)]
            if pos:
              self.calls.append((r[1], pos, n))
      if isinstance(n, ast.Subscript) and isinstance(n.slice, ast.Slice) and \
          isinstance(n.value, ast.Name) and n.value.id in self.tainted:
        self.slices.append(n)


def _candidate_provenance(pl, name, depth=0):
  """'all-spanning': every lambda of the searched statements whose line span
  contains the definition line, nothing else filtered; 'spanning+signature':
  that list narrowed by _node_matches_argspec; None: anything else."""
  from sa import collect
  ys, problems = collect.yields(pl.node)
  mine = [y for y in ys if y[2] == name]
  if len(mine) != 1:
    return None
  levels, elt, _ = mine[0]
  if not levels:
    return None
  inner = levels[-1]
  conds = [(pol, core.norm(t)) for pol, t in inner['conds']]

  def is_span(t):
    try:
      e = ast.parse(t, mode='eval').body
    except SyntaxError:
      return False
    return isinstance(e, ast.Compare) and len(e.ops) == 2 and all(
        isinstance(o, ast.LtE) for o in e.ops) and core.norm(e.comparators[0]) in (
            'def_line', '%s.__code__.co_firstlineno' % pl.params()[0])
  src = core.norm(inner['iter'])
  if len(conds) == 1 and conds[0][0] == 'T' and is_span(conds[0][1]):
    # over every lambda found: the source list is filled by an unfiltered walk
    srcs = [y for y in ys if y[2] == src]
    if len(srcs) == 1 and all(
        "isinstance(" in core.norm(t) and 'ast.Lambda' in core.norm(t)
        for pol, t in srcs[0][0][-1]['conds']) and len(srcs[0][0][-1]['conds']) == 1:
      return 'all-spanning'
    return None
  if len(conds) == 1 and conds[0][0] == 'T' and conds[0][1].startswith(
      '_node_matches_argspec(') and depth < 2:
    if _candidate_provenance(pl, src, depth + 1) == 'all-spanning':
      return 'spanning+signature'
  return None


def check(model, rep, tier):
  rep.not_decided = ('structural equality of the recovered tree for every '
                     'layout; behaviour of tokenize / inspect (trusted)')
  rep.touch(PARSER, IU)
  rep.rule('SRC-TEXT', 'no context-free edit of recovered source text on the way '
           'to the parser', floor=3)
  rep.rule('SRC-SLICE', 'line slices remove only the line\'s own leading '
           'whitespace', floor=1)
  rep.rule('SRC-LAMBDA', 'lambda returned only when unique; lists only grow; '
           'whole-module parse', floor=5)
  rep.rule('SRC-NOSTATE', 'source recovery keeps no module-level state', floor=5)
  rep.rule('SRC-GETTER', 'immediate source via findsource/getblock under the '
           'lock; linecache repaired with the owning module', floor=3)

  # ---------------------------------------------------------------- SRC-TEXT
  pe = model.func(PARSER, 'parse_entity')
  # (the function that produces the text is on the path as well)
  todo = [(pe, ()), (model.func(IU, 'getimmediatesource'), ())]
  seen = set()
  reaches_parser = {}
  analysed = []
  while todo:
    fi, tp = todo.pop()
    key = (fi.site, tuple(tp))
    if key in seen:
      continue
    seen.add(key)
    params = fi.params(skip_self=False)
    t = Taint(model, fi, [params[i] for i in tp if i < len(params)])
    analysed.append((fi, t))
    for callee, pos, call in t.calls:
      todo.append((callee, tuple(pos)))
  pl = model.func(PARSER, '_parse_lambda')
  t_pl = Taint(model, pl, ())
  analysed.append((pl, t_pl))
  # which functions' results reach the parser: in parse_entity the chain is
  # getimmediatesource -> dedent_block -> join -> parse; in _parse_lambda the
  # joined lines go to parse directly and _without_context's text does not.
  flows_to_parse = {pe.site: True, pl.site: True,
                    model.func(IU, 'getimmediatesource').site: True}
  t_pe = [t for f, t in analysed if f is pe][0]
  for callee, pos, call in t_pe.calls:
    # result of the call assigned to a name that later reaches parse()
    flows_to_parse[callee.site] = True
  for callee, pos, call in t_pl.calls:
    # only calls whose result is passed on to parse()
    used = False
    for n in ast.walk(pl.node):
      if isinstance(n, ast.Assign) and n.value is call:
        nm = core.norm(n.targets[0])
        used = any(core.dotted(s.func) in SINKS and nm in core.norm(s.args[0])
                   for s in t_pl.sinks)
    flows_to_parse[callee.site] = used
  # transitive: callees of functions whose result flows to parse
  changed = True
  while changed:
    changed = False
    for fi, t in analysed:
      if flows_to_parse.get(fi.site):
        for callee, pos, call in t.calls:
          if not flows_to_parse.get(callee.site):
            flows_to_parse[callee.site] = True
            changed = True
  n_fn = 0
  for fi, t in analysed:
    if not flows_to_parse.get(fi.site):
      rep.note('%s: handles source text that does not reach the parser' % fi.site)
      continue
    n_fn += 1
    if not t.edits:
      rep.hold('SRC-TEXT', '%s:no-context-free-edit' % fi.site,
               {'tainted_names': sorted(t.tainted)})
    for n, what in t.edits:
      rep.violation(
          'SRC-TEXT', '%s:%s' % (fi.site, _param_free(fi, n)[:60]),
          '%s: the edit is applied to the whole text without regard to token '
          'boundaries, so it also rewrites the inside of string literals and '
          'comments' % what, {'expr': core.norm(n)}, line=n.lineno,
          witness='a comment ending in a backslash; a raw / triple-quoted '
          'string containing backslash-newline')
  rep.unit('functions on the source-to-parser path', n_fn)
  sinks = sum(len(t.sinks) for f, t in analysed)
  rep.check(sinks >= 2, 'SRC-TEXT', '%s:reaches-parser' % PARSER,
            'recovered text no longer reaches parse() (matcher broken?)',
            {'sinks': sinks}, nontrivial=False)

  # ---------------------------------------------------------------- SRC-SLICE
  db = model.func(PARSER, 'dedent_block')
  t_db = [t for f, t in analysed if f is db]
  if not t_db:
    raise core.AnalysisError('dedent_block is not on the source path any more')
  t_db = t_db[0]
  rd = tpl.rdefs(db.node)
  n_sl = 0
  for sl in t_db.slices:
    line_var = sl.value.id
    n_sl += 1
    lo, hi = sl.slice.lower, sl.slice.upper
    site = '%s:%s' % (db.site, core.norm(sl))
    ok = False
    facts = {'slice': core.norm(sl)}
    gd0 = _guards(db.node, sl)
    from sa import formula as _f
    cf = _f.condition_formula(db.node, sl, lambda e: core.norm(e))
    if any(a.endswith('== tokenize.INDENT') and _f.implies(cf, _f.atom(a))[0]
           for a in cf.atoms):
      # an INDENT token consists of whitespace only (tokenize): token-aware edit
      rep.hold('SRC-SLICE', site, {'slice': core.norm(sl), 'token_aware': gd0})
      continue
    lox = tpl.expand(db, lo, sl) if lo is not None else None
    if hi is None and isinstance(lox, ast.BinOp) and isinstance(lox.op, ast.Sub):
      L, R = core.norm(lox.left), core.norm(lox.right)
      own_forms = ('len(_LEADING_WHITESPACE.match(%s).group())' % line_var,
                   'len(re.match(_LEADING_WHITESPACE, %s).group())' % line_var)
      own = L in own_forms and R.startswith('len(')
      # the cut is taken only when it is positive (a negative bound would cut
      # from the end of the line)
      from sa import formula as _f
      pos = False
      for pol, t in _f.path_condition(db.node, sl):
        tx = tpl.expand(db, t, t)
        tt = core.norm(tx)
        if pol == 'T' and tt in ('%s - %s > 0' % (L, R), '%s > %s' % (L, R)):
          pos = True
        if pol == 'F' and tt in ('%s - %s <= 0' % (L, R), '%s <= %s' % (L, R)):
          pos = True
      facts.update({'lower_bound': core.norm(lox), 'positive_guard': pos})
      ok = own and pos
    rep.check(ok, 'SRC-SLICE', site,
              'characters are cut from the start of a source line by an amount '
              'that is not bounded by that line\'s own leading whitespace: code '
              'on under-indented continuation lines is eaten', facts, line=sl.lineno,
              witness='a nested def with a bracket continuation line indented '
              'less than the def')
  rep.unit('line slices on source text', n_sl)
  # the lines that are cut and the lines of the re-generated text are paired by
  # position: both must be lines of the *same* text (same definition of the
  # variable that was tokenised)
  toks = [c for c in ast.walk(db.node) if isinstance(c, ast.Call) and core.dotted(c.func) in (
      'tokenize.generate_tokens', 'tokenize.tokenize')]
  src_tok = None
  for c in toks:
    for x in ast.walk(c):
      if isinstance(x, ast.Call) and core.dotted(x.func) in ('io.StringIO', 'StringIO') \
          and x.args and isinstance(x.args[0], ast.Name):
        src_tok = x.args[0]
  pairs = []
  for lp_ in ast.walk(db.node):
    if isinstance(lp_, ast.For) and isinstance(lp_.iter, ast.Call) and core.dotted(
        lp_.iter.func) == 'zip' and len(lp_.iter.args) == 2:
      for a_ in lp_.iter.args:
        if isinstance(a_, ast.Call) and isinstance(a_.func, ast.Attribute) and \
            a_.func.attr in ('split', 'splitlines') and isinstance(a_.func.value, ast.Name):
          pairs.append(a_.func.value)
  same = None
  if src_tok is not None and pairs:
    d_tok = rd.reaching(src_tok, src_tok.id)
    same = any(x.id == src_tok.id and rd.reaching(x, x.id) == d_tok and d_tok is not None
               for x in pairs)
  if toks and pairs:
    rep.check(bool(same), 'SRC-SLICE', '%s:paired-lines-of-one-text' % db.site,
              'the original lines are paired by position with the lines of the '
              're-generated token text: both must come from the same text (the one '
              'that was tokenised); a text changed in between (continuations '
              'unfolded) has a different number of lines',
              {'tokenised': core.norm(src_tok) if src_tok is not None else None,
               'paired': [core.norm(x) for x in pairs]}, line=db.node.lineno,
              witness='a string literal containing backslash-newline in an indented def')

  # ---------------------------------------------------------------- SRC-LAMBDA
  g = pycfg.CFG(pl.node)
  rets = g.nodes_where(lambda k, a: k == 'return')
  for ri in rets:
    r = g.nodes[ri][1]
    mand = g.mandatory_edges(ri)
    lens = []
    for (ti, lab) in mand:
      t = g.nodes[ti][1]
      if isinstance(t, ast.Compare) and isinstance(t.ops[0], ast.Eq) and \
          isinstance(t.left, ast.Call) and core.dotted(t.left.func) == 'len' and \
          isinstance(t.comparators[0], ast.Constant) and \
          t.comparators[0].value == 1 and lab == 'T':
        lens.append(core.norm(t.left.args[0]))
    # the returned node is taken from that list: unpacked `(x, ..), = L`, or L[0]
    unpack = None
    v = r.value
    first = core.norm(v.args[0]) if isinstance(v, ast.Call) and v.args else None
    for n in ast.walk(pl.node):
      if isinstance(n, ast.Assign) and isinstance(n.targets[0], ast.Tuple) and \
          len(n.targets[0].elts) == 1 and first and first in core.norm(n.targets[0]):
        if g.node_of(n) is not None and g.node_of(n) in g.dominators().get(ri, ()):
          unpack = core.norm(n.value)
      # `x, lo, hi = L[0]`
      if isinstance(n, ast.Assign) and isinstance(n.targets[0], ast.Tuple) and first and \
          first in [core.norm(e_) for e_ in n.targets[0].elts] and isinstance(
              n.value, ast.Subscript) and isinstance(n.value.slice, ast.Constant) and \
          n.value.slice.value in (0, -1) and isinstance(n.value.value, ast.Name):
        if g.node_of(n) is not None and g.node_of(n) in g.dominators().get(ri, ()):
          unpack = core.norm(n.value.value)
    if unpack is None and isinstance(v, ast.Call):
      subs = {core.norm(x.value) for a_ in v.args for x in ast.walk(a_)
              if isinstance(x, ast.Subscript) and isinstance(x.slice, ast.Constant)
              and x.slice.value in (0, -1) and isinstance(x.value, ast.Name)}
      if len(subs) == 1:
        unpack = subs.pop()
    ok = unpack is not None and unpack in lens and isinstance(v, ast.Call) and \
        core.dotted(v.func) == '_without_context'
    # ... and that list is the set of *all* lambdas whose span contains the
    # definition line, or that set narrowed by the signature test
    prov = _candidate_provenance(pl, unpack) if unpack else None
    if ok and prov not in ('all-spanning', 'spanning+signature'):
      ok = False
    rep.check(ok, 'SRC-LAMBDA', '%s:return(%s)' % (pl.site, unpack or core.norm(v)[:40]),
              'a lambda node is returned on a path where it is not established '
              'that exactly one candidate exists: a different lambda could be '
              'silently substituted', {'dominating_len_tests': lens,
                                       'unpacked_from': unpack}, line=r.lineno,
              witness='two lambdas on one line with identical signatures')
  rep.check(len(rets) >= 2, 'SRC-LAMBDA', '%s:returns' % pl.site,
            'expected the unique-candidate and unique-signature returns',
            {'returns': len(rets)}, nontrivial=False)
  # fall-through impossible: all other paths raise
  falls = [p for p, _ in g.preds()[g.exit] if g.nodes[p][0] != 'return']
  rep.check(not falls, 'SRC-LAMBDA', '%s:other-paths-raise' % pl.site,
            '_parse_lambda can finish without returning or raising',
            {'fallthrough_from': [g.nodes[p][0] for p in falls]}, line=pl.node.lineno)
  raises = [n for n in ast.walk(pl.node) if isinstance(n, ast.Raise)]
  excs = [tpl.expand(pl, x.exc, x) if x.exc is not None else None for x in raises]
  ok = len(raises) >= 2 and all(
      isinstance(x, ast.Call) and core.dotted(x.func) ==
      'errors.UnsupportedLanguageElementError' for x in excs)
  rep.check(ok, 'SRC-LAMBDA', '%s:explicit-error' % pl.site,
            'ambiguity / no match must raise UnsupportedLanguageElementError',
            {'raises': [core.norm(x.exc)[:60] for x in raises]}, line=pl.node.lineno)
  # accumulating lists only grow inside loops
  lists = [core.norm(n.targets[0]) for n in pl.node.body if isinstance(n, ast.Assign)
           and isinstance(n.value, ast.List) and not n.value.elts]
  for L in lists:
    bad = []
    for loop in [n for n in ast.walk(pl.node) if isinstance(n, (ast.For, ast.While))]:
      for n in ast.walk(loop):
        if isinstance(n, (ast.Assign, ast.AugAssign)) and any(
            core.norm(t) == L for t in (n.targets if isinstance(n, ast.Assign)
                                        else [n.target])):
          bad.append(core.norm(n))
        if isinstance(n, ast.Call) and isinstance(n.func, ast.Attribute) and \
            core.norm(n.func.value) == L and n.func.attr in (
                'clear', 'pop', 'remove', '__delitem__'):
          bad.append(core.norm(n))
    rep.check(not bad, 'SRC-LAMBDA', '%s:list-only-grows(%s)' % (pl.site, L),
              'the candidate list %s is reassigned or shrunk inside a loop: '
              'lambdas in earlier statements are dropped from the search and a '
              'wrong single candidate can be returned unchecked' % L,
              {'writes': bad}, line=pl.node.lineno,
              witness='`a = lambda v: v * 2; b = lambda v, d: v + d` on one line')
  rep.unit('candidate lists', len(lists))
  # whole-module parse
  pc = [c for c in ast.walk(pl.node) if isinstance(c, ast.Call) and
        core.dotted(c.func) == 'parse']
  ok = len(pc) == 1
  if ok:
    x = tpl.xnorm(pl, pc[0].args[0], pc[0])
    ok = x.startswith("''.join(linecache.getlines(")
  rep.check(ok, 'SRC-LAMBDA', '%s:whole-module-parse' % pl.site,
            'the lambda must be located in the parse of the unmodified, whole '
            'source file', line=pl.node.lineno)

  # the lambdas are gathered from *every* statement that starts at or before
  # the definition line: the root handed to ast.walk is the variable of an
  # iteration over those statements, not one statement picked beforehand
  walks = [c for c in ast.walk(pl.node) if isinstance(c, ast.Call) and
           core.dotted(c.func) == 'ast.walk' and len(c.args) == 1 and
           isinstance(c.args[0], ast.Name)]
  roots_ok = bool(walks)
  roots = []
  for w in walks:
    x = w.args[0].id
    bound_by_iteration = False
    for n in ast.walk(pl.node):
      if isinstance(n, ast.For) and isinstance(n.target, ast.Name) and n.target.id == x \
          and any(y is w for b in n.body for y in ast.walk(b)):
        bound_by_iteration = True
      if isinstance(n, (ast.GeneratorExp, ast.ListComp, ast.SetComp)):
        ts = [g.target.id for g in n.generators if isinstance(g.target, ast.Name)]
        if x in ts and any(y is w for y in ast.walk(n)):
          bound_by_iteration = True
    roots.append((x, bound_by_iteration))
    roots_ok = roots_ok and bound_by_iteration
  rep.check(roots_ok, 'SRC-LAMBDA', '%s:searches-every-preceding-statement' % pl.site,
            'a line can hold several statements (`a = lambda ..; b = lambda ..`): '
            'the candidate lambdas must come from all statements starting at or '
            'before the definition line; with one pre-selected statement a '
            'sibling lambda becomes the single candidate and is returned without '
            'the signature check', {'walk_roots': roots}, line=pl.node.lineno,
            witness='scale = lambda v, f=3: ...; negate = lambda v: -v  -- to_graph(scale)')

  # signature narrowing compares every parameter group with its counterpart
  nm = model.func(PARSER, '_node_matches_argspec')
  np_, fp_ = nm.params()[:2]
  pairs = set()
  for c in ast.walk(nm.node):
    if isinstance(c, ast.Compare) and len(c.ops) == 1 and isinstance(
        c.ops[0], (ast.NotEq, ast.Eq)):
      sides = [tpl.xnorm(nm, c.left, c), tpl.xnorm(nm, c.comparators[0], c)]
      spec = [x for x in sides if 'getfullargspec' in x or '__code__' in x]
      node_side = [x for x in sides if (np_ + '.args.') in x]
      if len(spec) == 1 and len(node_side) == 1:
        sattr = spec[0].split('getfullargspec(%s).' % fp_)[-1].rstrip(')') if \
            'getfullargspec' in spec[0] else spec[0].split('__code__.')[-1]
        fields = tuple(sorted({f for f in ('posonlyargs', 'args', 'vararg', 'kwarg',
                                           'kwonlyargs')
                               if ('%s.args.%s' % (np_, f)) in node_side[0] and not (
                                   f == 'args' and ('%s.args.args' % np_) not in
                                   node_side[0])}))
        pairs.add((sattr, fields))
  want = {('args', ('args', 'posonlyargs')), ('varargs', ('vararg',)),
          ('varkw', ('kwarg',)), ('kwonlyargs', ('kwonlyargs',)),
          ('co_posonlyargcount', ('posonlyargs',))}
  rep.check(want <= pairs, 'SRC-LAMBDA', '%s:compares-every-parameter-group' % nm.site,
            'when several lambdas share a line the candidate is chosen by '
            'signature: positional (positional-only included, and their count), '
            '*args, **kwargs and keyword-only names must each be compared with '
            'their own counterpart, or a different lambda is silently returned',
            {'comparisons': sorted(map(str, pairs)), 'missing': sorted(map(
                str, want - pairs))}, line=nm.node.lineno,
            witness='(lambda x, /, y: x - y), (lambda x, y: x + y) on one line; '
            'lambda *opts / lambda **opts')

  # ---------------------------------------------------------------- SRC-GETTER
  gs = model.func(IU, 'getimmediatesource')
  calls = [core.dotted(c.func) for c in ast.walk(gs.node) if isinstance(c, ast.Call)]
  withs = [core.norm(it.context_expr) for n in ast.walk(gs.node)
           if isinstance(n, ast.With) for it in n.items]
  ok = 'inspect.findsource' in calls and 'inspect.getblock' in calls and \
      'inspect.getsource' not in calls and 'inspect.getsourcelines' not in calls \
      and 'inspect.unwrap' not in calls
  rep.check(ok, 'SRC-GETTER', '%s:findsource+getblock' % gs.site,
            'the source of the object itself is needed: inspect.getsource '
            'follows __wrapped__ and returns the wrapped function instead',
            {'calls': calls}, line=gs.node.lineno,
            witness='a functools.wraps decorator')
  inside = all('_linecache_lock' in _c_with(gs.node, c) for c in ast.walk(gs.node)
               if isinstance(c, ast.Call) and core.dotted(c.func) in (
                   'inspect.findsource', '_fix_linecache_record'))
  rep.check(inside, 'SRC-GETTER', '%s:under-linecache-lock' % gs.site,
            'linecache repair and lookup must happen under the lock',
            {'withs': withs}, line=gs.node.lineno)
  fl = model.func(IU, '_fix_linecache_record')
  upd = [c for c in ast.walk(fl.node) if isinstance(c, ast.Call) and
         core.dotted(c.func) == 'linecache.updatecache']
  ok = len(upd) == 1
  facts = {}
  if ok:
    a = [core.norm(x) for x in upd[0].args]
    gd = _guards(fl.node, upd[0])
    facts = {'args': a, 'guards': gd}
    modvar = a[1][:-len('.__dict__')] if len(a) > 1 and a[1].endswith('.__dict__') \
        else None
    filex = tpl.xnorm(fl, upd[0].args[0], upd[0])
    ok = modvar is not None and filex == 'inspect.getfile(%s)' % fl.params()[0]
    if ok:
      hit = False
      for i in ast.walk(fl.node):
        if isinstance(i, ast.If) and any(x is upd[0] for st in i.body for x in ast.walk(st)):
          for c in ast.walk(i.test):
            if isinstance(c, ast.Compare) and isinstance(c.ops[0], ast.Eq):
              sides = {tpl.xnorm(fl, c.left, c), tpl.xnorm(fl, c.comparators[0], c)}
              if sides == {modvar + '.__file__', filex}:
                hit = True
      ok = hit
  rep.check(ok, 'SRC-GETTER', '%s:owning-module-namespace' % fl.site,
            'linecache must be refreshed with the namespace of the module '
            'whose __file__ is the object\'s file; obj.__module__ is what '
            'functools.wraps falsifies', facts, line=fl.node.lineno,
            witness='a wraps-wrapper from module A around a function of module '
            'B, A loaded by a zip/par loader')
  # future imports: joined in front, skipped by preamble_len
  fparam = pe.params()[1]
  ok = False
  for r in ast.walk(pe.node):
    if isinstance(r, ast.Return) and isinstance(r.value, ast.Tuple):
      c = tpl.expand(pe, r.value.elts[0], r, depth=1)
      if isinstance(c, ast.Call) and core.dotted(c.func) == 'parse' and (any(
          k.arg == 'preamble_len' and core.norm(k.value) == 'len(%s)' % fparam
          for k in c.keywords) or (len(c.args) == 2 and core.norm(c.args[1]) ==
                                   'len(%s)' % fparam)):
        # the text parsed is the joined (future statements + dedented source):
        # what the joined collection is made of, directly or through a local
        # list that is filled step by step
        x = tpl.xnorm(pe, c.args[0], r)
        parts = [x]
        jx = tpl.expand(pe, c.args[0], r, depth=1)
        if isinstance(jx, ast.Call) and isinstance(jx.func, ast.Attribute) and \
            jx.func.attr == 'join' and len(jx.args) == 1:
          for nm in [n_ for n_ in ast.walk(c.args[0]) if isinstance(n_, ast.Name)] + [
              n_ for n_ in ast.walk(jx.args[0]) if isinstance(n_, ast.Name)]:
            for m_ in ast.walk(pe.node):
              if isinstance(m_, ast.Call) and isinstance(m_.func, ast.Attribute) and \
                  m_.func.attr in ('append', 'extend') and core.norm(m_.func.value) == \
                  nm.id and m_.args:
                parts.append(tpl.xnorm(pe, m_.args[0], m_))
              if isinstance(m_, ast.Assign) and len(m_.targets) == 1 and core.norm(
                  m_.targets[0]) == nm.id:
                parts.append(tpl.xnorm(pe, m_.value, m_))
        ok = x.startswith("'\\n'.join(") and any('dedent_block(' in p_ for p_ in parts) \
            and any(fparam in p_ for p_ in parts)
  rep.check(ok, 'SRC-GETTER', '%s:preamble' % pe.site,
            'the future-import preamble must be skipped by exactly its length',
            line=pe.node.lineno)

  # the span of a candidate lambda is [smallest start line, largest end line]
  mins = [(a, b) for a, b in pat.find(pl.node, '_M_ = min(_M_, _X_)')]
  ok = len(mins) == 1
  facts = {}
  if ok:
    a, b = mins[0]
    x = a.value.args[1]
    srcs = []
    for nm in [n for n in ast.walk(x) if isinstance(n, ast.Name)]:
      ds = tpl.rdefs(pl.node).reaching(a, nm.id) or []
      for d in ds:
        if isinstance(d, ast.AST):
          srcs.append(core.norm(d))
    srcs.append(core.norm(x))
    facts['start_line_sources'] = sorted(set(srcs))
    ok = any("'lineno'" in t for t in srcs) and not any('end_lineno' in t for t in srcs)
  rep.check(ok, 'SRC-LAMBDA', '%s:span-starts-at-smallest-start-line' % pl.site,
            'the first line of a candidate lambda is the smallest *start* line of '
            'its nodes; taking end lines makes a lambda whose body starts on a '
            'later line drop out, and a sibling is returned through the '
            'single-candidate path', facts, line=pl.node.lineno,
            witness='f = lambda: (\n  compute(1))  next to another lambda')

  # ---------------------------------------------------------------- SRC-NOSTATE
  # recovery is a function of the function object: nothing on the path may keep
  # source text (or anything derived from it) in module-level state
  SAFE_CTORS = {'frozenset', 're.compile', 'threading.Lock', 'threading.RLock',
                'tuple', 'str', 'int', 'len', 'object',
                # factories of immutable record types / constant callables
                'collections.namedtuple', 'namedtuple', 'typing.NamedTuple',
                'operator.attrgetter', 'operator.itemgetter', 'operator.methodcaller'}
  stateful = {}
  for rel in (PARSER, IU):
    m = model.module(rel)
    for st in m.tree.body:
      tg = v = None
      if isinstance(st, ast.Assign) and len(st.targets) == 1 and isinstance(
          st.targets[0], ast.Name):
        tg, v = st.targets[0].id, st.value
      elif isinstance(st, ast.AnnAssign) and isinstance(st.target, ast.Name) and st.value:
        tg, v = st.target.id, st.value
      if tg is None:
        continue
      if isinstance(v, (ast.Dict, ast.List, ast.Set, ast.DictComp, ast.ListComp,
                        ast.SetComp)) or (isinstance(v, ast.Call) and (
                            core.dotted(v.func) or '') not in SAFE_CTORS and not (
                                core.dotted(v.func) or '').endswith('.count')):
        stateful[(rel, tg)] = core.norm(v)[:50]
  path_fns = [fi for fi, t in analysed] + [
      model.func(IU, 'getimmediatesource'), model.func(IU, '_fix_linecache_record')]
  seen_fn = set()
  for fi in path_fns:
    if fi.site in seen_fn:
      continue
    seen_fn.add(fi.site)
    used = sorted({n.id for n in core.walk_no_nested(fi.node) if isinstance(n, ast.Name)
                   and (fi.module.rel, n.id) in stateful})
    rep.check(not used, 'SRC-NOSTATE', '%s:no-module-state' % fi.site,
              'a function on the source-recovery path uses a module-level mutable '
              'object: recovered text (or a decision about it) outlives the call '
              'and can be served for a different function',
              {'module_state_used': {u: stateful[(fi.module.rel, u)] for u in used}},
              line=fi.node.lineno,
              witness='two functions with equal code objects (same layout in two '
              'files) and different defaults / decorators')


def _param_free(fi, node):
  """text of node with the function's parameters called by position (the key of
  a finding must not depend on how a parameter is spelled)"""
  import copy
  ps = {p: 'param%d' % (i + 1) for i, p in enumerate(fi.params(skip_self=False))}

  class R(ast.NodeTransformer):
    def visit_Name(self, x):
      if x.id in ps:
        return ast.copy_location(ast.Name(id=ps[x.id], ctx=x.ctx), x)
      return x
  return core.norm(R().visit(copy.deepcopy(node)))


def _guards(fn, target):
  out = []

  def rec(stmts, acc):
    for s in stmts:
      if not any(x is target for x in ast.walk(s)):
        continue
      if isinstance(s, ast.If):
        if any(x is target for b in s.body for x in ast.walk(b)):
          return rec(s.body, acc + [('T', core.norm(s.test))])
        if any(x is target for b in s.orelse for x in ast.walk(b)):
          return rec(s.orelse, acc + [('F', core.norm(s.test))])
        return acc
      for f in ('body', 'orelse', 'finalbody'):
        blk = getattr(s, f, None)
        if isinstance(blk, list) and any(x is target for b in blk for x in ast.walk(b)):
          return rec(blk, acc)
      for h in getattr(s, 'handlers', []) or []:
        if any(x is target for b in h.body for x in ast.walk(b)):
          return rec(h.body, acc)
      return acc
    return acc

  return rec(fn.body, [])


def _c_with(fn, target):
  out = []
  for n in ast.walk(fn):
    if isinstance(n, ast.With) and any(x is target for b in n.body for x in ast.walk(b)):
      out += [core.norm(it.context_expr) for it in n.items]
  return out
