"""C01 — conversion preserves Python semantics under the default operators
(structural necessary conditions).

 EFFECT     each operator fallback has the callback-event language of the Python
            construct it stands for (DFA equivalence, through its dispatcher)
 ORDER      pass-order constraints computed from what passes emit / consume
 BLOCKS     every transformer that restructures statement lists routes every
            statement-list field of every in-scope statement kind through its
            block visitor
 ASDL       field-type discipline in converters, analyses and the CFG builder
 OPNAME     every ag__.X the converter can emit resolves in the namespace built
            by get_extra_locals and the emitted call binds to X's signature
 TPL-FLAG   control flags come first in conjunctions with user tests, are
            initialised before the construct that reads them, and loops that
            contain a lowered jump test the flag on every path
 UNDEF      Undefined placeholders only for names that are not defined, global
            or nonlocal, and placed before the operator call
 CLOSURE    free names of closures that reach a statement stay live
 HOIST-LAZY statement-level hoisting must respect laziness
 DUP-EVAL   a user expression reaches the generated code at most once
 NEW-BINDING templates assign only to fresh symbols or to the positions the user
            statement binds itself
"""
import ast
import textwrap

from sa import asdl
from sa import core
from sa import effects
from sa import facts
from sa import formula
from sa import pat
from sa import pycfg
from sa import rules_dup
from sa import rules_fold
from sa import rules_order
from sa import rules_stale
from sa import rules_trav
from sa import setalg
from sa import tpl
from sa import trav
from sa.formula import atom, implies, equivalent
from sa.props import C03 as _c03
from sa.props import C05 as _c05
from sa.props import C07 as _c07

CONV = 'malt/converters/'
API = 'malt/impl/api.py'
OPS = 'malt/operators/'

SPEC = textwrap.dedent('''
def while_stmt(test, body, get_state, set_state, symbol_names, opts):
  while test():
    body()

def if_stmt(cond, body, orelse, get_state, set_state, symbol_names, nouts):
  if cond:
    body()
  else:
    orelse()

def for_stmt(iter_, extra_test, body, get_state, set_state, symbol_names, opts):
  if extra_test is None:
    for t in iter_:
      body(t)
  elif extra_test():
    for t in iter_:
      body(t)
      if not extra_test():
        break

def and_(a, b):
  x = a()
  if x:
    return b()
  return x

def or_(a, b):
  x = a()
  if x:
    return x
  return b()

def not_(a):
  return not a

def eq(a, b):
  return a == b

def not_eq(a, b):
  return not (a == b)

def if_exp(cond, if_true, if_false, expr_repr):
  if cond:
    return if_true()
  return if_false()

def ret(self, value, did_return):
  if isinstance(value, variables.UndefinedReturnValue):
    return None
  return value
''')

OPERATORS = [
    (OPS + 'control_flow.py', 'if_stmt', None), (OPS + 'control_flow.py', 'while_stmt', None),
    (OPS + 'control_flow.py', 'for_stmt', None),
    (OPS + 'logical.py', 'and_', None), (OPS + 'logical.py', 'or_', None),
    (OPS + 'logical.py', 'not_', None), (OPS + 'logical.py', 'eq', None),
    (OPS + 'logical.py', 'not_eq', None),
    (OPS + 'conditional_expressions.py', 'if_exp', None),
    (OPS + 'function_wrappers.py', 'ret', 'FunctionScope'),
]
WITNESS = {
    'for_stmt': 'a for loop with break over a one-shot iterator: an extra '
                'element is consumed / the body runs once too often',
    'while_stmt': 'while c: ... with a side-effecting test',
    'and_': 'a and f() with a falsy a: f must not run, and the result is a',
    'or_': 'a or f() with a truthy a',
    'if_exp': 'x if c else y with side-effecting branches',
}

BLOCK_CLASSES = [
    (CONV + 'continue_statements.py', 'ContinueCanonicalizationTransformer',
     {('FunctionDef', 'body')}),
    (CONV + 'return_statements.py', 'ConditionalReturnRewriter', set()),
    (CONV + 'return_statements.py', 'ReturnStatementsTransformer', set()),
    (CONV + 'lists.py', 'ListTransformer', set()),
]
BLOCK_KINDS = ['FunctionDef', 'For', 'While', 'If', 'With', 'Try', 'ExceptHandler']


def _namespace(model):
  """Names reachable as ag__.<name> (what get_extra_locals exports)."""
  names = {}
  api = model.module(API)
  for n in list(api.functions) + list(api.classes) + list(api.imports) + list(api.assigns):
    names[n] = ('api', n)
  xl = facts.extra_locals(model)
  for k, v in xl['explicit'].items():
    names[k] = ('explicit', v)
  for src in xl['merged']:
    modname = src.split('.__dict__')[0]
    if modname.startswith('inspect.getmodule('):
      continue   # the api module itself (already added above)
    r = model.resolve(api, ast.parse(modname, mode='eval').body)
    if r and r[0] == 'module':
      m = r[1]
      for k in list(m.functions) + list(m.classes) + list(m.imports) + list(m.assigns):
        names[k] = ('module', m.rel)
  return names


def _resolve_def(model, origin, name):
  """FunctionDef / ClassDef node behind ag__.<name>, if it is a repo function."""
  api = model.module(API)
  kind, where = origin
  mod = api if kind == 'api' else (model.module(where) if kind == 'module' else None)
  if kind == 'explicit':
    r = model.resolve(api, ast.parse(where, mode='eval').body)
    if r and r[0] in ('func', 'class'):
      return r
    return None
  if mod is None:
    return None
  r = model._member(mod, name)
  if r and r[0] in ('func', 'class'):
    return r
  return None


def _binds(fn, call):
  a = fn.args
  pos = [x.arg for x in a.posonlyargs + a.args]
  if pos and pos[0] == 'self':
    pos = pos[1:]
  npos = len([x for x in call.args if not isinstance(x, ast.Starred)])
  if any(isinstance(x, ast.Starred) for x in call.args) or any(
      k.arg is None for k in call.keywords):
    return True, ''
  if npos > len(pos) and not a.vararg:
    return False, '%d positional arguments, signature takes %s' % (npos, pos)
  bound = set(pos[:npos])
  kwonly = [x.arg for x in a.kwonlyargs]
  for k in call.keywords:
    if k.arg in bound:
      return False, 'multiple values for %s' % k.arg
    if k.arg in pos or k.arg in kwonly or a.kwarg:
      bound.add(k.arg)
    else:
      return False, 'unexpected keyword %s' % k.arg
  required = pos[:len(pos) - len(a.defaults)]
  for r in required:
    if r not in bound:
      return False, 'missing argument %s' % r
  return True, ''


def check(model, rep, tier):
  rep.not_decided = ('correctness of the guard-propagation bookkeeping of the '
                     'jump lowerings on all nestings; value-level equivalence of '
                     'converted programs')
  rep.rule('EFFECT', 'operator fallbacks ≡ Python constructs as event languages',
           floor=10)
  rep.rule('BLOCKS', 'statement-list fields routed through the block visitor',
           floor=20)
  rep.rule('ASDL', 'field types', floor=120)
  rep.rule('OPNAME', 'emitted ag__ names resolve and bind', floor=25)
  rep.rule('TPL-FLAG', 'control flag discipline', floor=9)
  rep.rule('UNDEF', 'Undefined placeholders', floor=4)
  rep.rule('CLOSURE', 'free names of reaching closures stay live (state wiring)', floor=2)
  rep.rule('HOIST-LAZY', 'statement-level hoisting respects laziness', floor=1)
  rep.rule('NEW-BINDING', 'templates assign only to fresh symbols or to what the '
           'user statement itself binds', floor=15)
  rep.rule('STDLIB', 'standard-library names the package uses exist in the running '
           'interpreter', floor=1)
  rep.rule('ORIG-DEFS', 'user reads are marked by the presence of ORIG_DEFINITIONS '
           'and every marked read goes through ag__.ld', floor=3)
  rep.rule('LD-TRAV', 'the variable-access pass reaches every read of a variable '
           '(each becomes ag__.ld(x), which raises UnboundLocalError for '
           'Undefined)', floor=2)
  rep.rule('DUP-EVAL', 'a user expression is embedded in generated code at most '
           'once (template multiplicity; linear use in handlers)', floor=12)

  # ---------------------------------------------------------------- AUG-INPLACE
  rep.rule('AUG-INPLACE', 'the run-time fallback of an augmented item update is the '
           'augmented assignment itself (in-place for mutable elements)', floor=5)
  _aug_inplace(model, rep)

  # ---------------------------------------------------------------- EFFECT
  specf = {n.name: n for n in ast.parse(SPEC).body}
  for rel, name, cname in OPERATORS:
    rep.touch(rel)
    mod = model.module(rel)
    funcs = {k: v.node for k, v in mod.functions.items()}
    if cname:
      fn = model.cls(rel, cname).methods.get(name)
      fn = fn.node if fn else None
    else:
      fn = funcs.get(name)
    site = '%s:%s' % (rel, (cname + '.' if cname else '') + name)
    if fn is None:
      raise core.AnalysisError('operator %s not found' % site)
    try:
      A = effects.automaton(fn, funcs)
      B = effects.automaton(specf[name], specf)
      da, db = effects.dfa(*A), effects.dfa(*B)
      ok, cex = effects.equivalent(da, db)
    except effects.Unsupported as e:
      raise core.AnalysisError('%s: %s' % (site, e))
    rep.check(ok, 'EFFECT', site,
              'the Python fallback of %s does not behave like the construct it '
              'stands for: after the events %s the implementation and the '
              'reference disagree' % (name, cex[:-1] if cex else None),
              {'difference': cex, 'impl_states': da[3], 'reference_states': db[3]},
              line=fn.lineno, witness=WITNESS.get(name, 'see event trace'))
  # ld: Undefined read raises a NameError subclass, everything else is identity
  vm = model.module(OPS + 'variables.py')
  rep.touch(vm.rel)
  ld = vm.functions.get('ld')
  und = vm.classes.get('Undefined')
  ok = ld is not None and und is not None
  if ok:
    body = [core.norm(s) for s in ld.node.body if not (isinstance(
        s, ast.Expr) and isinstance(s.value, ast.Constant))]
    p = ld.params()[0]
    ok = body == ['if isinstance(%s, Undefined):\n    return %s.read()' % (p, p),
                  'return %s' % p]
    rd = und.methods.get('read')
    raises = [n for n in ast.walk(rd.node) if isinstance(n, ast.Raise)] if rd else []
    ok = ok and rd is not None and len(rd.node.body) == 1 and len(raises) == 1 and \
        isinstance(raises[0].exc, ast.Call) and core.dotted(raises[0].exc.func) in (
            'UnboundLocalError', 'NameError')
  rep.check(ok, 'EFFECT', '%s:ld' % vm.rel,
            'ld must return its argument unchanged, except that reading an '
            'Undefined placeholder raises a NameError (UnboundLocalError)',
            line=ld.node.lineno if ld else None,
            witness='reading a variable that was only assigned in a branch not '
            'taken')

  # ---------------------------------------------------------------- ORDER
  rules_order.check(model, rep, prop='C01')

  # ---------------------------------------------------------------- BLOCKS
  for rel, cname, exempt in BLOCK_CLASSES:
    rep.touch(rel)
    cls = model.cls(rel, cname)
    T = trav.HandlerTraversal(model, cls)
    # helpers that open a frame of converter state around the block visit: the
    # bookkeeping of the pass (does this block return / continue / pop?) is per
    # block, so every block has to go through one of them
    frame_helpers = []
    for hn, hfi in cls.methods.items():
      if hn.startswith('visit_'):
        continue
      calls = [c for c in core.walk_no_nested(hfi.node) if isinstance(c, ast.Call)]
      vb = [c for c in calls if core.dotted(c.func) == 'self.visit_block']
      opens = any(isinstance(c.func, ast.Attribute) and c.func.attr == 'enter' and
                  core.norm(c.func.value).startswith('self.state[') for c in calls) or \
          any(isinstance(w, ast.With) and any(core.norm(i.context_expr).startswith(
              'self.state[') for i in w.items) for w in ast.walk(hfi.node)) or \
          any(k.arg == 'before_visit' and core.norm(k.value).startswith('self.state[')
              and core.norm(k.value).endswith('.enter') for c in vb for k in c.keywords)
      if vb and opens:
        frame_helpers.append('via:' + hn)
    for P in BLOCK_KINDS:
      fields = [f for f, t, q in asdl.fields(P) if t == 'stmt' and q == '*']
      h = cls.find('visit_' + P)
      for f in fields:
        site = '%s:%s:%s.%s' % (rel, cname, P, f)
        if (P, f) in exempt:
          rep.hold('BLOCKS', site, {'exempt': 'the construct cannot occur '
                                    'directly in this block'}, nontrivial=False)
          continue
        if h is None:
          rep.violation(
              'BLOCKS', site,
              '%s has no handler for %s: its %s block is visited statement by '
              'statement without the pass\'s block post-processing, so guards / '
              'hoisted statements are placed outside the block' % (cname, P, f),
              witness={'ListTransformer': 'try: v = l.pop() / except IndexError'}.get(
                  cname, 'the lowered jump inside a %s block' % P))
          continue
        exits = T.analyse(h)
        bad = []
        for ex in exits:
          hows = ex.paths.get(f, set()) | (ex.paths.get(trav.ALL, set()))
          if not any(x.startswith('visit_block+') for x in hows):
            bad.append((ex.line, sorted(hows)))
          elif frame_helpers and not any(x in hows for x in frame_helpers):
            bad.append((ex.line, 'block visited without a fresh state frame (%s)'
                        % ', '.join(x[4:] for x in frame_helpers)))
        rep.check(not bad, 'BLOCKS', site,
                  'visit_%s does not pass %s.%s through the block visitor with '
                  'the pass\'s post-processing callback on every path' % (P, P, f),
                  {'exits': bad}, line=h.node.lineno,
                  witness='a statement after the lowered jump in that block is '
                  'not guarded / a hoisted statement leaves the block')

  # ---------------------------------------------------------------- ASDL
  rels = [r for r in model.by_rel if r.startswith(CONV)] + [
      'malt/pyct/static_analysis/liveness.py',
      'malt/pyct/static_analysis/reaching_definitions.py',
      'malt/pyct/static_analysis/activity.py', 'malt/pyct/cfg.py',
      'malt/core/converter.py', 'malt/pyct/transformer.py',
      'malt/core/unsupported_features_checker.py']
  rep.touch(*rels)
  _c05.asdl_rule(model, rep, 'ASDL', rels)

  # ---------------------------------------------------------------- OPNAME
  ns = _namespace(model)
  sites = [s for s in tpl.find_sites(model) if s.fi.module.rel != 'malt/pyct/templates.py']
  # every template call receives a template: a name without a reaching string
  # definition makes the converter itself fail (NameError / ValueError)
  rep.rule('TPL-RESOLVE', 'the template argument of every template call is bound '
           'to a template text on every path', floor=40)
  for s_ in sites:
    a0 = s_.call.args[0] if s_.call.args else None
    unbound = False
    if s_.unresolved is not None and isinstance(a0, ast.Name):
      ds = tpl.rdefs(s_.fi.node).reaching(s_.call, a0.id)
      unbound = ds is not None and not ds and a0.id not in s_.fi.module.assigns \
          and a0.id not in s_.fi.params(skip_self=False)
    key_ = '%s:template-argument(%s)' % (s_.fi.site, s_.api)
    if unbound:
      rep.violation('TPL-RESOLVE', key_,
                    'the template variable %s has no definition reaching this call: '
                    'the handler raises instead of converting the construct' % a0.id,
                    line=s_.call.lineno, witness='any program containing the construct')
    else:
      rep.hold('TPL-RESOLVE', key_, {'resolved': s_.unresolved is None}, nontrivial=False)
  seen = {}
  for s in sites:
    for t in s.templates:
      for n in ast.walk(t.tree):
        if isinstance(n, ast.Attribute) and isinstance(n.value, ast.Name) and \
            n.value.id == 'ag__':
          par_call = None
          for c in ast.walk(t.tree):
            if isinstance(c, ast.Call) and c.func is n:
              par_call = c
          seen.setdefault(n.attr, []).append((s, par_call))
  # the operator tables of logical_expressions (strings resolved at run time)
  lm = model.module(CONV + 'logical_expressions.py')
  for tab in ('LOGICAL_OPERATORS', 'EQUALITY_OPERATORS'):
    v = lm.assigns.get(tab)
    if isinstance(v, ast.Dict):
      for val in v.values:
        if isinstance(val, ast.Constant) and val.value.startswith('ag__.'):
          seen.setdefault(val.value[5:], []).append((None, None))
  for name, uses in sorted(seen.items()):
    site = 'malt:ag__.%s' % name
    if name not in ns:
      s0 = uses[0][0]
      rep.violation(
          'OPNAME', site,
          'generated code refers to ag__.%s, which the namespace built by '
          'get_extra_locals does not define' % name,
          {'emitted_by': s0.fi.site if s0 else 'operator table'},
          line=s0.call.lineno if s0 else None,
          witness='any program using the construct this template lowers: '
          'AttributeError at run time')
      continue
    r = _resolve_def(model, ns[name], name)
    probs = []
    for s0, call in uses:
      if call is None or r is None:
        continue
      fn = r[1].node if r[0] == 'func' else (
          r[1].methods['__init__'].node if r[0] == 'class' and '__init__' in
          r[1].methods else None)
      if r[0] == 'class' and fn is None:
        # namedtuple-style option classes: fields from the base call
        fields = _namedtuple_fields(r[1])
        if fields is not None:
          bad = [k.arg for k in call.keywords if k.arg not in fields]
          if bad or len(call.args) > len(fields):
            probs.append('%s: unknown field(s) %s' % (s0.fi.site, bad))
        continue
      if fn is None:
        continue
      ok, why = _binds(fn, call)
      if not ok:
        probs.append('%s: %s' % (s0.fi.site, why))
    rep.check(not probs, 'OPNAME', site,
              'an emitted call of ag__.%s does not bind to its signature: %s' %
              (name, '; '.join(probs)), {'defined_in': str(ns[name])},
              witness='TypeError when the generated code runs')
  rep.unit('distinct emitted ag__ names', len(seen))

  # ---------------------------------------------------------------- TPL-FLAG (post-processor)
  # the guards that follow a lowered continue / return are inserted by the
  # after_visit callback of visit_block: whether a block needs them is only known
  # while it is being visited (the first jump may sit inside it), so the callback
  # is handed over unconditionally by every block visit of these passes
  for rel_, cname_ in ((CONV + 'continue_statements.py', 'ContinueCanonicalizationTransformer'),
                       (CONV + 'return_statements.py', 'ConditionalReturnRewriter'),
                       (CONV + 'return_statements.py', 'ReturnStatementsTransformer')):
    cls_ = model.cls(rel_, cname_)
    if '_postprocess_statement' not in cls_.methods:
      continue
    for mname_, m_ in cls_.methods.items():
      for c_ in core.walk_no_nested(m_.node):
        if not (isinstance(c_, ast.Call) and core.norm(c_.func) == 'self.visit_block'):
          continue
        kws_ = {k.arg: k.value for k in c_.keywords}
        if 'after_visit' not in kws_ and len(c_.args) < 3:
          continue          # a block of non-statements (items, handlers)
        cb = kws_.get('after_visit', c_.args[2] if len(c_.args) > 2 else None)
        v_ = tpl.xnorm(m_, cb, c_) if cb is not None else None
        rep.check(v_ == 'self._postprocess_statement', 'TPL-FLAG',
                  '%s:%s:post-processor-unconditional' % (m_.site, core.norm(c_.args[0])
                                                          if c_.args else '?'),
                  'the statement post-processor must be passed to visit_block '
                  'whatever the state is when the block is entered: a jump found '
                  'inside the block changes the state while it is visited',
                  {'after_visit': v_}, line=c_.lineno,
                  witness='if a: (if b: continue); trailing()  -- trailing runs '
                  'although the original skipped it')
  # ---------------------------------------------------------------- TPL-FLAG
  n_conj = 0
  for s in sites:
    for t in s.templates:
      for n in ast.walk(t.tree):
        if isinstance(n, ast.BoolOp) and isinstance(n.op, ast.And):
          flags = []
          for i, v in enumerate(n.values):
            if isinstance(v, ast.UnaryOp) and isinstance(v.op, ast.Not) and \
                isinstance(v.operand, ast.Name) and v.operand.id in s.kwargs:
              org = tpl.origin(model, s.fi, s.kwargs[v.operand.id], s.call)
              if 'namer' in org or org == {'unknown'} or 'user' not in org:
                flags.append(i)
          users = [i for i, v in enumerate(n.values) if isinstance(v, ast.Name) and
                   v.id in s.kwargs and i not in flags]
          if flags and users:
            n_conj += 1
            rep.check(max(flags) < min(users), 'TPL-FLAG',
                      '%s:flag-first(%s)' % (s.fi.site, core.norm(n)),
                      'the generated control flag must be tested before the user '
                      'expression: after a lowered jump the user test must not '
                      'be evaluated again', {'template': t.text.strip()},
                      line=s.call.lineno,
                      witness='while it.has_next(): ... break -- the test has '
                      'side effects')
  rep.unit('flag conjunctions', n_conj)
  # break: flag initialised before the loop, break -> set flag; continue
  bsites = [s for s in sites if s.fi.module.rel == CONV + 'break_statements.py']
  for s in bsites:
    for t in s.templates:
      loops = [n for n in t.tree.body if isinstance(n, (ast.For, ast.While))]
      reads_flag = any(isinstance(n, ast.Name) and n.id == 'var_name' and isinstance(
          n.ctx, ast.Load) for l in loops for n in ast.walk(l))
      if loops and reads_flag:
        idx = t.tree.body.index(loops[0])
        init = [x for x in t.tree.body[:idx] if isinstance(x, ast.Assign) and
                core.norm(x) == 'var_name = False']
        rep.check(bool(init), 'TPL-FLAG', '%s:flag-initialised-before-loop' % s.fi.site,
                  'the break flag must be set to False before the loop that '
                  'tests it', {'template': t.text.strip()}, line=s.call.lineno)
  vb = [s for s in bsites if s.fi.name == 'visit_Break']
  ok = len(vb) == 1 and bool(vb[0].templates) and [core.norm(x) for x in vb[0].templates[0].tree.body] == [
      'var_name = True', 'continue']
  rep.check(ok, 'TPL-FLAG', '%sbreak_statements.py:BreakTransformer.visit_Break:lowering' % CONV,
            'break lowers to: set the flag, continue', line=vb[0].call.lineno if vb
            else None)
  # loops containing a lowered jump test the flag on every path
  for rel, cname, hname, what in (
      (CONV + 'break_statements.py', 'BreakTransformer', 'visit_While', 'break'),
      (CONV + 'break_statements.py', 'BreakTransformer', 'visit_For', 'break'),
      (CONV + 'return_statements.py', 'ReturnStatementsTransformer', 'visit_While', 'return'),
      (CONV + 'return_statements.py', 'ReturnStatementsTransformer', 'visit_For', 'return')):
    h = model.cls(rel, cname).methods[hname]
    g = pycfg.CFG(h.node)
    # the "a jump was lowered in this loop" test: either the block state's
    # return_used, or the second result of self._process_body(...)
    used_names = set()
    for a in ast.walk(h.node):
      if isinstance(a, ast.Assign) and isinstance(a.targets[0], ast.Tuple) and \
          len(a.targets[0].elts) == 2 and isinstance(a.targets[0].elts[1], ast.Name) \
          and isinstance(a.value, ast.Call) and \
          core.dotted(a.value.func) == 'self._process_body':
        used_names.add(a.targets[0].elts[1].id)

    def used_test(a):
      neg = isinstance(a, ast.UnaryOp) and isinstance(a.op, ast.Not)
      x = a.operand if neg else a
      if core.norm(x) == 'self.state[_Block].return_used' or (
          isinstance(x, ast.Name) and x.id in used_names):
        return 'F' if neg else 'T'
      return None

    used = [i for i, (k, a) in enumerate(g.nodes) if k == 'test' and used_test(a)]
    ok = len(used) == 1
    facts = {}
    if ok:
      pos_label = used_test(g.nodes[used[0]][1])
      start = [b for b, l in g.succ[used[0]] if l == pos_label]
      is_for = hname == 'visit_For'
      hsites = [s for s in sites if s.fi is h]

      def flag_loop_template(t):
        for n in ast.walk(t.tree):
          if isinstance(n, ast.While) and pat.match('not _F_ and _T_', n.test):
            return True
        b = t.tree.body
        return len(b) == 1 and isinstance(b[0], ast.Expr) and bool(
            pat.match('not _F_ and _T_', b[0].value))

      def installs(i):
        a = g.nodes[i][1]
        for c in pycfg.calls_at(g, i):
          if is_for and core.dotted(c.func) == 'anno.setanno' and \
              'EXTRA_LOOP_TEST' in core.norm(c):
            return True
          if not is_for:
            for s in hsites:
              if s.call is c and any(flag_loop_template(t) for t in s.templates):
                return True
        return False

      w = {i: 1 for i in range(len(g.nodes)) if installs(i)}
      rng = g.count_range(w, start=start[0], skip_labels=('exc',)) if start else None
      facts = {'installs_per_path': rng}
      ok = rng is not None and rng[0] >= 1
    rep.check(ok, 'TPL-FLAG', '%s:%s:%s:loop-tests-flag' % (rel, cname, hname),
              'a loop whose body contains a lowered %s must get the flag into '
              'its (extra) test on every path, also when the loop already has '
              'an extra test from another jump' % what, facts, line=h.node.lineno,
              witness='a for loop with both break and return: the return fires '
              'first and the loop keeps iterating')
  # return: "the if statement definitely returns" is claimed for the enclosing
  # block only when both arms do (the statements after the if are then moved
  # into the arm that does not return -- claimed wrongly, they are never run)
  crr = model.func(CONV + 'return_statements.py', 'ConditionalReturnRewriter.visit_If')
  cp_ = crr.params()[0]
  arms_ = {}
  for a_ in ast.walk(crr.node):
    if isinstance(a_, ast.Assign) and isinstance(a_.targets[0], ast.Tuple) and len(
        a_.targets[0].elts) == 2 and isinstance(a_.value, ast.Call) and core.norm(
            a_.value.func) == 'self._visit_statement_block' and len(a_.value.args) == 2 \
        and isinstance(a_.targets[0].elts[1], ast.Name):
      fld_ = core.norm(a_.value.args[1])
      if fld_ in (cp_ + '.body', cp_ + '.orelse'):
        arms_[a_.targets[0].elts[1].id] = fld_
  claims_ = [a_ for a_ in ast.walk(crr.node) if isinstance(a_, ast.Assign) and isinstance(
      a_.targets[0], ast.Attribute) and a_.targets[0].attr == 'definitely_returns'
             and core.norm(a_.targets[0].value) == 'self.state[_RewriteBlock]']
  if len(arms_) != 2 or not claims_:
    raise core.AnalysisError('ConditionalReturnRewriter.visit_If: arms / claim not found')

  def _tv(e, env):
    """truth value of a test under env (names of the two results); None: unknown"""
    if isinstance(e, ast.Name) and e.id in env:
      return env[e.id]
    if isinstance(e, ast.Constant):
      return bool(e.value)
    if isinstance(e, ast.UnaryOp) and isinstance(e.op, ast.Not):
      v_ = _tv(e.operand, env)
      return None if v_ is None else not v_
    if isinstance(e, ast.BoolOp):
      vs_ = [_tv(v_, env) for v_ in e.values]
      if isinstance(e.op, ast.And):
        return False if False in vs_ else (None if None in vs_ else True)
      return True if True in vs_ else (None if None in vs_ else False)
    return None
  okc, bad_ = True, []
  names_ = sorted(arms_)
  for cl_ in claims_:
    if not (isinstance(cl_.value, ast.Constant) and cl_.value.value is True):
      # the claim is a computed value: it must be the conjunction of both results
      for b0 in (True, False):
        for b1 in (True, False):
          env_ = dict(zip(names_, (b0, b1)))
          if _tv(cl_.value, env_) is not False and not (b0 and b1):
            okc = False
            bad_.append(env_)
      continue
    conds_ = formula.path_condition(crr.node, cl_)
    for b0 in (True, False):
      for b1 in (True, False):
        if b0 and b1:
          continue
        env_ = dict(zip(names_, (b0, b1)))
        feasible = all(_tv(t_, env_) in (None, pol_ == 'T') for pol_, t_ in conds_
                       if pol_ in ('T', 'F'))
        if feasible:
          okc = False
          bad_.append({arms_[k]: v for k, v in env_.items()})
  rep.check(okc, 'TPL-FLAG', '%s:returns-only-if-both-arms-return' % crr.site,
            'an if statement is reported to the enclosing block as "definitely '
            'returns" although one of its arms may fall through: the statements after '
            'the enclosing if are then moved into the other arm and never run on that '
            'path', {'claimed_when': bad_[:3]}, line=crr.node.lineno,
            witness='if a: (if b: return 1); x = 2   /   return x -- a and not b')
  # return: do_return initialised at function entry
  rf = [s for s in sites if s.fi.qualname == 'ReturnStatementsTransformer.visit_FunctionDef']
  ok = any([core.norm(x) for x in t.tree.body][:2] == [
      'do_return_var_name = False', 'retval_var_name = ag__.UndefinedReturnValue()']
           for s in rf for t in s.templates)
  rep.check(ok, 'TPL-FLAG', '%sreturn_statements.py:return-flag-initialised' % CONV,
            'do_return / retval must be initialised at function entry')
  vc = model.func(CONV + 'continue_statements.py',
                  'ContinueCanonicalizationTransformer._visit_loop_body')
  ok = False
  for st in [x for x in sites if x.fi is vc]:
    if not any(len(t.tree.body) == 1 and pat.match('_F_ = False', t.tree.body[0])
               for t in st.templates):
      continue
    for asg in ast.walk(vc.node):
      if isinstance(asg, ast.Assign) and asg.value is st.call and \
          isinstance(asg.targets[0], ast.Name):
        ok = ok or pat.has(vc.node, '_N_ = %s + _N_' % asg.targets[0].id)
  rep.check(ok, 'TPL-FLAG',
            '%s:continue-flag-reset-each-iteration' % vc.site,
            'the continue flag must be reset at the top of every iteration',
            line=vc.node.lineno)

  # ---------------------------------------------------------------- UNDEF
  fi, ev, v, renv = _c03.eval_block_vars(model)
  und = v.items[1] if isinstance(v, setalg.TupleV) else None
  ok = isinstance(und, setalg.SetV)
  cex = None
  if ok:
    ok, cex = implies(und.f, atom('MODIFIED') & ~atom('DEFINED_IN') &
                      ~atom('FN.globals') & ~atom('FN.nonlocals') &
                      ~atom('is_composite'))
  rep.check(ok, 'UNDEF', '%s:undefined-bound' % fi.site,
            'an Undefined placeholder must never be assigned to a name that is '
            'defined on entry, global, nonlocal or composite: it would '
            'overwrite a live value', {'counterexample': cex}, line=fi.node.lineno,
            witness='nonlocal n; if c: n = 1 -- n must keep its outer value '
            'when c is false')
  cfs = [s for s in sites if s.fi.module.rel == CONV + 'control_flow.py' and
         'undefined_assigns' in s.kwargs]
  for s in cfs:
    t = s.templates[0]
    names = [core.norm(x.value) if isinstance(x, ast.Expr) else (
        'def' if isinstance(x, ast.FunctionDef) else '?') for x in t.tree.body]
    try:
      iu = names.index('undefined_assigns')
      ic = [i for i, x in enumerate(t.tree.body) if isinstance(x, ast.Expr) and
            isinstance(x.value, ast.Call) and (core.dotted(x.value.func) or '')
            .startswith('ag__.')][0]
      ok = iu < ic
    except (ValueError, IndexError):
      ok = False
    rep.check(ok, 'UNDEF', '%s:placeholders-before-operator-call' % s.fi.site,
              'Undefined placeholders must be assigned before the operator call '
              '(the state getter reads them)', {'order': names}, line=s.call.lineno)

  # ---------------------------------------------------------------- CLOSURE
  vn, ev3, env3 = _c07.eval_liveness(model)
  rep.touch(_c07.LV)
  live_in = env3.get('@self.in_[node]')
  assume, reach = _c07.closure_context(live_in)
  if reach is None:
    rep.violation('CLOSURE', '%s:closure-rule' % vn.site, 'closure rule missing',
                  line=vn.node.lineno)
  else:
    FR, FB, FN = atom('FN.read'), atom('FN.bound'), atom('FN.nonlocals')
    for name, prem, wit in (
        ('read-only', reach & FR & ~FB, 'x assigned in an if, read only by a '
         'closure called afterwards'),
        ('nonlocal', reach & FR & FB & FN, 'x = 10 inside an if; the only later '
         'reader is a nested def that declares nonlocal x and rebinds it')):
      o, cex = implies(prem & assume, live_in.f)
      rep.check(o, 'CLOSURE', '%s:%s' % (vn.site, name),
                'a variable that a reaching local function reads or rebinds '
                '(nonlocal) must stay live, so that assignments to it inside '
                'if/for/while bodies are wired out as state',
                {'counterexample': cex}, line=vn.node.lineno, witness=wit)

  # ---------------------------------------------------------------- HOIST-LAZY
  lt = model.cls(CONV + 'lists.py', 'ListTransformer')
  hoists = 'stmt.pop_uses.append' in core.norm(lt.node) or any(
      'pop_uses.append' in core.norm(m.node) for m in lt.methods.values())
  lazy_kinds = ['BoolOp', 'IfExp', 'Lambda', 'ListComp', 'SetComp', 'DictComp',
                'GeneratorExp']
  unguarded = [k for k in lazy_kinds if lt.find('visit_' + k) is None]
  wt = lt.find('visit_While')
  test_in_stmt_ctx = wt is not None and 'node.test = self.visit(node.test)' in \
      core.norm(wt.node)
  rep.check(not hoists or (not unguarded and not test_in_stmt_ctx), 'HOIST-LAZY',
            '%slists.py:ListTransformer:pop-hoisting-ignores-laziness' % CONV,
            'the list converter hoists `x.pop()` into a statement placed in '
            'front of the enclosing statement, from any expression position: a '
            'pop in a while test is then evaluated once instead of on every '
            'iteration, a pop in a short-circuit / conditional operand '
            'unconditionally', {'lazy_kinds_without_guard': unguarded,
                                'while_test_visited_in_statement_context':
                                test_in_stmt_ctx},
            witness='while l.pop(): n += 1  (converted: infinite loop); '
            'c and l.pop()')

  # ---------------------------------------------------------------- STDLIB
  # every `<standard library module>.<name>` the package mentions exists in the
  # interpreter it runs on (the checker runs on that interpreter; only standard
  # library modules are imported here, never the package)
  import importlib as _il
  import sys as _sys
  std = set(_sys.stdlib_module_names)
  nref = 0
  for mod in model.modules.values():
    imps = {}
    for n in ast.walk(mod.tree):
      if isinstance(n, ast.Import):
        for a in n.names:
          top = a.name.split('.')[0]
          if top in std:
            imps[a.asname or top] = a.name if a.asname else top
    if not imps:
      continue
    shadow = {t.id for fi in mod.all_functions() for x in ast.walk(fi.node)
              if isinstance(x, (ast.Assign, ast.For, ast.arg))
              for t in ([x] if isinstance(x, ast.arg) else ast.walk(x))
              if isinstance(t, ast.Name) and isinstance(t.ctx, ast.Store)} | {
                  a.arg for fi in mod.all_functions() for a in ast.walk(fi.node)
                  if isinstance(a, ast.arg)}
    for n in ast.walk(mod.tree):
      if isinstance(n, ast.Attribute) and isinstance(n.value, ast.Name) and \
          n.value.id in imps and n.value.id not in shadow:
        nref += 1
        try:
          mm = _il.import_module(imps[n.value.id])
        except Exception:
          continue
        ok = hasattr(mm, n.attr)
        if not ok:
          try:
            _il.import_module(imps[n.value.id] + '.' + n.attr)
            ok = True
          except Exception:
            ok = False
        if not ok:
          rep.violation('STDLIB', '%s:%s.%s' % (mod.rel, imps[n.value.id], n.attr),
                        'the standard library of the running interpreter (%s) has no '
                        '%s.%s: the code path raises AttributeError' % (
                            _sys.version.split()[0], imps[n.value.id], n.attr),
                        line=n.lineno,
                        witness='any program reaching that line')
  rep.check(nref >= 300, 'STDLIB', 'malt:standard-library-references-resolve',
            'too few references were resolved (matcher broken?)', {'references': nref},
            nontrivial=False)

  # ---------------------------------------------------------------- ORIG-DEFS
  # "read that existed in the user's code" is encoded as the presence of the
  # ORIG_DEFINITIONS annotation (its value may well be empty: no definition
  # reaches a read after `del x`)
  ia = model.func(API, 'PyToPy.initial_analysis')
  dups = [c for c in core.walk_no_nested(ia.node) if isinstance(c, ast.Call) and
          core.dotted(c.func) == 'anno.dup']
  ok = len(dups) == 1 and len(dups[0].args) >= 2 and isinstance(dups[0].args[1], ast.Dict) \
      and any(core.norm(k) == 'anno.Static.DEFINITIONS' and
              core.norm(v) == 'anno.Static.ORIG_DEFINITIONS'
              for k, v in zip(dups[0].args[1].keys, dups[0].args[1].values))
  if ok:
    # after the reaching-definitions pass that produces DEFINITIONS
    g_ia = pycfg.CFG(ia.node)
    rdn = [i for i in range(len(g_ia.nodes)) if any(
        core.dotted(c.func) == 'reaching_definitions.resolve'
        for c in pycfg.calls_at(g_ia, i))]
    dn = [i for i in range(len(g_ia.nodes)) if any(c is dups[0] for c in pycfg.calls_at(g_ia, i))]
    ok = len(rdn) == 1 and len(dn) == 1 and rdn[0] in g_ia.dominators()[dn[0]]
  rep.check(ok, 'ORIG-DEFS', '%s:definitions-duplicated' % ia.site,
            'the initial analysis must copy DEFINITIONS to ORIG_DEFINITIONS after '
            'reaching definitions ran: the variable pass recognises user reads by '
            'that annotation', line=ia.node.lineno)
  dp = model.func('malt/pyct/anno.py', 'dup')
  sets = [c for c in core.walk_no_nested(dp.node) if isinstance(c, ast.Call) and
          core.dotted(c.func) == 'setanno']
  bad = []
  for c in sets:
    for pol, t in formula.path_condition(dp.node, c):
      while isinstance(t, ast.UnaryOp) and isinstance(t.op, ast.Not):
        t, pol = t.operand, ('F' if pol == 'T' else 'T')
      if not (pol == 'T' and isinstance(t, ast.Call) and core.dotted(t.func) == 'hasanno'):
        bad.append('%s[%s]' % (pol, core.norm(t) if isinstance(t, ast.AST) else t))
  rep.check(len(sets) == 1 and not bad, 'ORIG-DEFS', '%s:copies-on-presence' % dp.site,
            'anno.dup must copy an annotation whenever it is present, whatever '
            'its value: an empty DEFINITIONS tuple is a real annotation (a read '
            'no definition reaches) and must still mark the read as the user\'s',
            {'non_presence_guards': bad}, line=dp.node.lineno,
            witness='del x; return x  -- the read must raise UnboundLocalError, '
            'not return the Undefined placeholder')
  vn_ = model.func(CONV + 'variables.py', 'VariableAccessTransformer.visit_Name')
  src_ = core.norm(vn_.node)
  ok = pat.has(vn_.node, 'if not anno.hasanno(_N_, anno.Static.ORIG_DEFINITIONS):\n  return _N_') \
      and pat.has(vn_.node, "templates.replace_as_expression('ag__.ld(var_)', var_=_N_)")
  rep.check(ok, 'ORIG-DEFS', '%s:wraps-every-user-read' % vn_.site,
            'every Load of a name that carries ORIG_DEFINITIONS becomes '
            'ag__.ld(name)', line=vn_.node.lineno)

  # ---------------------------------------------------------------- LD-TRAV
  rules_trav.analysis_trav(
      model, rep, 'LD-TRAV', CONV + 'variables.py', 'VariableAccessTransformer', {
          ('AugAssign', 'target'): 'a name target is read through the '
          '`var_ = ag__.ld(var_)` statement the handler emits in front; other '
          'targets take the generic_visit branch (checked by the value field)'})

  # ---------------------------------------------------------------- DUP-EVAL
  csites = [s for s in sites if s.fi.module.rel.startswith(CONV) or
            s.fi.module.rel == 'malt/core/converter.py']
  na = rules_dup.multiplicity(model, rep, csites)
  cfuncs = [fi for m in model.modules.values() if m.rel.startswith(CONV)
            for fi in m.all_functions()]
  nb = rules_dup.linear_use(model, rep, csites, cfuncs)
  nn = rules_dup.new_binding(model, rep, csites, {
      CONV + 'control_flow.py:ControlFlowTransformer._create_undefined_assigns:store(var)':
      'the symbols come from _get_block_vars; rule UNDEF undefined-bound proves '
      'they are modified by the block and neither global nor nonlocal'})
  rep.unit('new-binding store placeholders', nn)
  rep.rule('SCOPE-MOVE', 'user expressions embedded in a generated lambda / def '
           'keep their bindings in the user\'s scope', floor=4)
  nm_ = rules_dup.scope_move(model, rep, csites)
  rep.unit('user expressions placed in generated functions', nm_)
  rep.unit('dup-eval placeholders', na)
  rep.unit('dup-eval handlers', nb)

  # ---------------------------------------------------------------- FRAME
  rep.rule('FRAME', 'manually entered converter-state frames are left on every '
           'path', floor=6)
  rules_trav.state_pairing(model, rep, 'FRAME', _rels if False else sorted(
      m.rel for m in model.modules.values() if m.rel.startswith(CONV)))

  # ---------------------------------------------------------------- STALE
  rep.rule('STALE', 'no handler embeds a child it read off the node before the '
           'visitor rewrote the node', floor=20)
  _rels = sorted(m.rel for m in model.modules.values() if m.rel.startswith(CONV))
  _sites = [x for x in tpl.find_sites(model) if x.fi.module.rel.startswith(CONV)]
  rules_stale.check(model, rep, 'STALE', _rels, _sites)

  # ---------------------------------------------------------------- FOLD
  rep.rule('FOLD', 'n-ary boolean operations and comparison chains are folded '
           'into nested operator calls over the converted operands, once each, '
           'in source order, lazily', floor=6)
  rules_fold.check(model, rep, 'FOLD')

  # ---------------------------------------------------------------- dependencies
  rep.depends('C02', ['SETSEL', 'TPL-NONLOCAL', 'HIDDEN-TEST'],
              'a variable the block binds (or deletes) that is missing from the state '
              'is a dead local of the generated branch / body function')
  rep.depends('C05', None,
              'the dataflow analyses that decide loop / branch state run on this graph')
  rep.depends('C06', None,
              'Undefined placeholders are emitted for symbols the reaching-definitions analysis reports as possibly undefined')
  rep.depends('C07', None,
              'a variable that liveness reports dead is dropped from the state of a functionalised block')
  rep.depends('C08', None,
              'every later analysis and every state tuple is computed from these read / modified / bound sets')
  rep.depends('C03', ['SEQ', 'GETSET', 'NOUTS', 'CB-ARITY', 'OP-ROLE'],
              'the default operators reach the variables of the function only through the emitted callbacks')
  rep.depends('C09', ['IFACE-ERASE', 'IFACE-INST', 'IFACE-BIND', 'IFACE-SELF', 'IFACE-ARGS'],
              'the converted function must accept the same calls in the same environment')
  rep.depends('C11', None,
              'a generated name that captures or shadows a user name changes which object the user name denotes')
  rep.depends('C13', ['CALL-ONCE', 'CALL-FAITHFUL', 'CALL-NODOUBLE', 'CALL-PARTIAL', 'CALL-OPTS'],
              'every call of the user goes through the call wrapper, at any depth')
  rep.depends('C14', ['BI-TABLE', 'BI-SIG', 'BI-FORWARD', 'BI-FRAME'],
              'calls of builtins are served by the substitutes')
  rep.depends('C17', ['TREE-NONEMPTY'],
              'a generated module with an empty block does not compile: the '
              'function does not convert at all')


def _aug_inplace(model, rep):
  """`x[i] += v` under LISTS becomes ag__.update_item_with_op(x, i, v, '<op>'):
  for every operator the converter emits, the Python fallback must perform the
  same *augmented* assignment on target[i] (`x[i] = x[i] + v` rebinds the element
  and loses the in-place update of a list / user object that has other
  references)."""
  conv = model.func('malt/converters/slices.py', 'SliceTransformer._process_single_update')
  emitted = set()
  for c in ast.walk(conv.node):
    if isinstance(c, ast.Call) and core.dotted(c.func) == 'isinstance' and len(c.args) == 2 \
        and isinstance(c.args[1], ast.Tuple) and all(
            (core.dotted(e) or '').startswith('ast.') for e in c.args[1].elts) and \
        {core.dotted(e).split('.')[1] for e in c.args[1].elts} <= {
            'Add', 'Sub', 'Mult', 'Div', 'Pow', 'Mod', 'FloorDiv', 'MatMult', 'BitOr',
            'BitAnd', 'BitXor', 'LShift', 'RShift'}:
      emitted |= {core.dotted(e).split('.')[1] for e in c.args[1].elts}
  if not emitted:
    raise core.AnalysisError('_process_single_update: emitted operator kinds not found')
  fb = model.func('malt/operators/slices.py', '_py_update_item_with_op')
  ps = fb.params(skip_self=False)
  tgt = '%s[%s]' % (ps[0], ps[1])
  handled = {}
  plain = []
  for st in ast.walk(fb.node):
    if isinstance(st, ast.Assign) and any(core.norm(t) == tgt for t in st.targets):
      plain.append(core.norm(st)[:70])
    if isinstance(st, ast.AugAssign) and core.norm(st.target) == tgt and \
        core.norm(st.value) == ps[2]:
      for pol, t in formula.path_condition(fb.node, st):
        if pol == 'T' and isinstance(t, ast.Compare) and len(t.ops) == 1 and isinstance(
            t.ops[0], ast.Eq) and core.norm(t.left) == ps[3] and isinstance(
                t.comparators[0], ast.Constant):
          handled[t.comparators[0].value] = type(st.op).__name__
  for kind in sorted(emitted):
    rep.check(handled.get(kind.lower()) == kind and not plain, 'AUG-INPLACE',
              '%s:%s' % (fb.site, kind.lower()),
              'the fallback for the emitted operator %r must be the augmented '
              'assignment `target[i] %s= x`' % (kind.lower(), {
                  'Add': '+', 'Sub': '-', 'Mult': '*', 'Div': '/', 'Pow': '**'}.get(kind, '?')),
              {'handled': handled, 'plain_assignments': plain}, line=fb.node.lineno,
              witness='rows[i] += [x] where rows[i] is also reachable through '
              'another reference (Feature.LISTS)')


def _namedtuple_fields(cls):
  for b in cls.node.bases:
    if isinstance(b, ast.Call) and core.dotted(b.func) in (
        'collections.namedtuple', 'namedtuple') and len(b.args) == 2:
      f = b.args[1]
      if isinstance(f, (ast.Tuple, ast.List)):
        return [e.value for e in f.elts if isinstance(e, ast.Constant)]
  return None
