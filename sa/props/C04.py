"""C04 — every overloadable construct is routed through its operator.

 TRAV     for each responsible pass V and construct kind K: V's handler of every
          node kind P dispatches every field of P that can (by the ASDL closure)
          contain a K, on every normal path (no override = generic_visit = all
          fields).  Covers "every syntactic context".
 RECURSE  the K-handler itself dispatches K's own fields that can contain K
 ROUTE    every exit of the K-handler returns generated code, except exits whose
          guard is one of the documented exceptions
 TABLE    logical operator table: And/Or/Not -> and_/or_/not_, Eq/NotEq under
          the EQUALITY_OPERATORS feature
 NOSKIP   nobody sets the SKIP_PROCESSING annotation (positive control fixture)
 ORDER    see sa/rules_order.py (a construct emitted by an earlier pass is still
          routed by the responsible later pass)
"""
import ast
import copy

from sa import asdl
from sa import core
from sa import formula
from sa import rules_fold
from sa import rules_order
from sa import rules_stale
from sa import tpl
from sa import trav

CONV = 'malt/converters/'
RESP = [
    (CONV + 'break_statements.py', 'BreakTransformer', {'Break'}),
    (CONV + 'continue_statements.py', 'ContinueCanonicalizationTransformer',
     {'Continue'}),
    (CONV + 'return_statements.py', 'ReturnStatementsTransformer', {'Return'}),
    (CONV + 'call_trees.py', 'CallTreeTransformer', {'Call'}),
    (CONV + 'control_flow.py', 'ControlFlowTransformer', {'If', 'While', 'For'}),
    (CONV + 'conditional_expressions.py', 'ConditionalExpressionTransformer',
     {'IfExp'}),
    (CONV + 'logical_expressions.py', 'LogicalExpressionTransformer',
     {'BoolOp', 'UnaryOp', 'Compare'}),
]

# node kinds outside the documented language scope (frozen, with reason)
OUT_OF_SCOPE = {
    'AsyncFunctionDef': 'async code is rejected/unsupported',
    'AsyncFor': 'async', 'AsyncWith': 'async', 'Await': 'async',
    'Match': 'match statements are not in the property class',
    'match_case': 'match', 'MatchValue': 'match', 'MatchSingleton': 'match',
    'MatchSequence': 'match', 'MatchMapping': 'match', 'MatchClass': 'match',
    'MatchStar': 'match', 'MatchAs': 'match', 'MatchOr': 'match',
    'TryStar': 'except* is not in the property class',
    'TypeAlias': 'type statements', 'TypeVar': 'type parameters',
    'ParamSpec': 'type parameters', 'TypeVarTuple': 'type parameters',
    'Module': 'conversion starts at a function', 'Interactive': 'n/a',
    'Expression': 'n/a', 'FunctionType': 'n/a',
}

# documented exceptions: (class, kind, field path) -> reason
TRAV_EXCEPTIONS = {
    ('CallTreeTransformer', 'With', 'items'):
        'documented: with-item expressions are not converted',
    ('CallTreeTransformer', 'FunctionDef', 'args.posonlyargs'):
        'parameter annotations are not a context the property lists',
    ('CallTreeTransformer', 'FunctionDef', 'args.args'): 'parameter annotations',
    ('CallTreeTransformer', 'FunctionDef', 'args.vararg'): 'parameter annotations',
    ('CallTreeTransformer', 'FunctionDef', 'args.kwonlyargs'): 'parameter annotations',
    ('CallTreeTransformer', 'FunctionDef', 'args.kwarg'): 'parameter annotations',
}
# a field that may stay unvisited only under a stated condition: (class, kind,
# field) -> (guards that must all hold where it is visited -- nothing else may
# keep the visit away --, reason)
TRAV_GUARDED_EXCEPTIONS = {
    ('CallTreeTransformer', 'FunctionDef', 'returns'): (
        {'%s.returns', 'self.state[_Function].level'},
        'the return annotation of the function being converted is evaluated where '
        'that function is defined, outside every converted function: no scope '
        'object exists there (nested functions: visited, in the enclosing scope)'),
}


def _guarded_exception_holds(h, fld, guards):
  """the one statement that dispatches h's field `fld` is reached exactly under
  the conjunction of `guards` (truth tests, %s = the handler's parameter)"""
  prm = h.params()[0]
  want = {g % prm if '%s' in g else g for g in guards}
  sts = [a for a in ast.walk(h.node) if isinstance(a, ast.Assign) and core.norm(
      a.targets[0]) == '%s.%s' % (prm, fld) and isinstance(a.value, ast.Call) and
         core.norm(a.value.func) in ('self.visit', 'self.visit_block')]
  if len(sts) != 1:
    return False
  got = set()
  for pol, t in formula.path_condition(h.node, sts[0]):
    if pol == 'T':
      for v in (t.values if isinstance(t, ast.BoolOp) and isinstance(t.op, ast.And) else [t]):
        got.add(core.norm(v))
    elif pol == 'F':
      return False
  return got == want


GLOBAL_FIELD_EXCEPTIONS = {
    'type_params': 'PEP 695 type parameters are outside the property class',
}

# documented pass-through exits of the Call handler: the guard must mention one
ROUTE_CALL_TOKENS = ["'ag__.'", 'function_context_name', "'pdb.set_trace'",
                     "'ipdb.set_trace'", "'breakpoint'", "'print'"]


def _canon(t, names):
  """Canonical form of a guard over the callee's qualified name: independent of
  local names (`names` maps a local to its role) and of tuple/set/== spelling."""
  if isinstance(t, ast.BoolOp) and isinstance(t.op, ast.And):
    return ('and', frozenset(_canon(v, names) for v in t.values))
  if isinstance(t, ast.UnaryOp) and isinstance(t.op, ast.Not):
    return ('not', _canon(t.operand, names))
  if isinstance(t, ast.Compare) and len(t.ops) == 1 and isinstance(t.left, ast.Name):
    role = names.get(t.left.id, t.left.id)
    c = t.comparators[0]
    if isinstance(t.ops[0], ast.Eq) and isinstance(c, ast.Constant):
      return ('in', role, frozenset([c.value]))
    if isinstance(t.ops[0], ast.In) and isinstance(c, (ast.Tuple, ast.List, ast.Set)) \
        and all(isinstance(e, ast.Constant) for e in c.elts):
      return ('in', role, frozenset(e.value for e in c.elts))
  if isinstance(t, ast.Call) and isinstance(t.func, ast.Attribute) and \
      t.func.attr == 'startswith' and isinstance(t.func.value, ast.Name) and len(t.args) == 1:
    role = names.get(t.func.value.id, t.func.value.id)
    a = t.args[0]
    if isinstance(a, ast.Constant):
      return ('prefix', role, a.value)
    if isinstance(a, ast.BinOp) and isinstance(a.op, ast.Add) and isinstance(
        a.right, ast.Constant):
      lt = core.norm(a.left)
      if lt == 'self.state[_Function].context_name':
        lt = 'FSCOPE'
      elif isinstance(a.left, ast.Name):
        lt = names.get(a.left.id, a.left.id)
      return ('prefix', role, (lt, a.right.value))
  return ('text', core.norm(t))


def _call_exceptions(h, guards):
  """The documented cases in which a call stays native, as exact predicates over
  the callee's qualified name (str of the QN annotation of node.func)."""
  p = h.params()[0]
  names = {}
  for a in core.walk_no_nested(h.node):
    if isinstance(a, ast.Assign) and len(a.targets) == 1 and isinstance(a.targets[0], ast.Name):
      v = core.norm(a.value)
      if v == "str(anno.getanno(%s.func, anno.Basic.QN, default=''))" % p:
        names[a.targets[0].id] = 'CALLEE'
      elif v == 'self.state[_Function].context_name':
        names[a.targets[0].id] = 'FSCOPE'
  # locals bound once to a plain attribute chain read through (user_options =
  # self.ctx.user.options)
  alias = {}
  count = {}
  for a in core.walk_no_nested(h.node):
    if isinstance(a, ast.Assign) and len(a.targets) == 1 and isinstance(a.targets[0], ast.Name):
      count[a.targets[0].id] = count.get(a.targets[0].id, 0) + 1
      v = a.value
      while isinstance(v, ast.Attribute):
        v = v.value
      if isinstance(v, ast.Name) and isinstance(a.value, ast.Attribute) and \
          a.targets[0].id not in names:
        alias[a.targets[0].id] = a.value

  class Sub(ast.NodeTransformer):
    def visit_Name(self, n):
      if n.id in alias and count.get(n.id) == 1:
        return self.visit(copy.deepcopy(alias[n.id]))
      return n

  def atom_of(e):
    c = _canon(e, names)
    if c[0] == 'in':
      f = formula.FALSE
      for v in sorted(c[2], key=repr):
        f = f | formula.atom(repr(('eq', c[1], v)))
      return f
    return repr(c)

  def eq(v):
    return formula.atom(repr(('eq', 'CALLEE', v)))
  allowed = formula.atom(repr(('prefix', 'CALLEE', 'ag__.'))) | \
      formula.atom(repr(('prefix', 'CALLEE', ('FSCOPE', '.')))) | \
      eq('pdb.set_trace') | eq('ipdb.set_trace') | eq('breakpoint') | \
      (eq('print') & ~formula.atom(repr(
          ('text', 'self.ctx.user.options.uses(converter.Feature.BUILTIN_FUNCTIONS)'))))
  f = formula.TRUE
  for pol, txt in guards:
    try:
      t = Sub().visit(ast.parse(txt, mode='eval').body)
    except SyntaxError:
      continue
    g = formula.bool_formula(t, atom_of)
    f = f & (g if pol == 'T' else ~g)
  # the callee's name is one string: two different constants exclude each other
  return formula.implies(f, allowed)[0]


def _no_overload_exception(h, guards):
  """`<x> is None` where x = self._overload_of(node.op): the operator has no
  overload (unary minus, invert ...)."""
  p = h.params()[0]
  names = set()
  for a in core.walk_no_nested(h.node):
    if isinstance(a, ast.Assign) and len(a.targets) == 1 and isinstance(
        a.targets[0], ast.Name) and core.norm(a.value) == 'self._overload_of(%s.op)' % p:
      names.add(a.targets[0].id)
  return any((pol == 'T' and txt in ['%s is None' % n for n in names]) or
             (pol == 'F' and txt in ['%s is not None' % n for n in names])
             for pol, txt in guards)


def _origin_of_return(model, fi, ex):
  if ex.value is None:
    return {'none'}
  return tpl.origin(model, fi, ex.value, ex.node)


def check(model, rep, tier):
  rep.not_decided = ('dynamic operator / construct counts on concrete programs; '
                     'comprehension clauses and with-items (documented exceptions)')
  rep.rule('TRAV', 'the responsible pass dispatches every field that can contain '
           'its construct, in every node kind, on every normal path', floor=150)
  rep.rule('RECURSE', 'the construct handler dispatches its own sub-fields that '
           'can contain the construct (nested occurrences)', floor=7)
  rep.rule('ROUTE', 'every exit of a construct handler returns generated code '
           'unless guarded by a documented exception', floor=12)
  rep.rule('TABLE', 'operator tables map And/Or/Not (and Eq/NotEq under the '
           'feature) to the matching overload', floor=5)
  rep.rule('NOSKIP', 'no code sets SKIP_PROCESSING', floor=1)

  for rel, cname, K in RESP:
    rep.touch(rel)
    cls = model.cls(rel, cname)
    if not cls.is_ast_transformer():
      raise core.AnalysisError('%s is not an ast.NodeTransformer' % cname)
    T = trav.HandlerTraversal(model, cls)
    # the Base.visit machinery must dispatch to visit_<Kind> / generic_visit:
    # (transformer.Base.visit calls super().visit) -- checked once below
    for P in sorted(asdl.FIELDS):
      if P in OUT_OF_SCOPE:
        continue
      need = [(f, t, q) for (f, t, q) in asdl.fields(P)
              if asdl.can_derive(t, K) and f not in GLOBAL_FIELD_EXCEPTIONS]
      if not need:
        continue
      h = cls.find('visit_' + P)
      rule = 'RECURSE' if P in K else 'TRAV'
      site = '%s:%s:visit_%s' % (rel, cname, P)
      if h is None:
        rep.hold(rule, site, {'handler': 'generic_visit (all fields)',
                              'fields': [f for f, _, _ in need]},
                 nontrivial=False)
        continue
      exits = T.analyse(h)
      if not exits:
        rep.hold(rule, site, {'handler': h.site, 'exits': 0})
        continue
      bad = []
      for ex in exits:
        S = ex.paths
        for (f, t, q) in need:
          if trav.covered(P, f, t, q, K, S):
            continue
          subs = trav.missing_subfields(t, K, S, f) if q != '*' and len(
              asdl.alts(t)) == 1 and asdl.fields(asdl.alts(t)[0]) else [f]
          subs = subs or [f]
          for sp in subs:
            if (cname, P, sp) in TRAV_EXCEPTIONS:
              continue
            if (cname, P, sp) in TRAV_GUARDED_EXCEPTIONS and _guarded_exception_holds(
                h, sp, TRAV_GUARDED_EXCEPTIONS[(cname, P, sp)][0]):
              continue
            bad.append((sp, ex))
      if bad:
        seen = set()
        for sp, ex in bad:
          key = (sp, ex.line)
          if key in seen:
            continue
          seen.add(key)
          ft = asdl.field(P, sp.split('.')[0])
          rep.violation(
              rule, '%s:field(%s)' % (site, sp),
              'visit_%s can finish (exit at line %s%s) without dispatching '
              '%s.%s, which can contain %s: an occurrence there stays native' %
              (P, ex.line, (' under ' + ' and '.join(
                  '%s[%s]' % (p, t) for p, t in ex.guards)) if ex.guards else '',
               P, sp, '/'.join(sorted(K))),
              {'traversed_on_that_path': sorted(ex.paths), 'handler': h.site},
              line=ex.line or h.node.lineno,
              witness='a %s placed inside the %s of a %s' %
              ('/'.join(sorted(K)), sp, P))
      else:
        rep.hold(rule, site, {
            'handler': h.site, 'exits': len(exits),
            'required_fields': [f for f, _, _ in need],
            'traversed': sorted(set.intersection(
                *[set(e.paths) for e in exits]))})
    rep.unit('responsible passes')

  # what a def statement evaluates when it runs (decorators, defaults, the return
  # annotation) is evaluated in the *enclosing* function: a call there is routed
  # with the enclosing function's scope object, so the call-tree pass must
  # dispatch those fields outside the frame it opens for the function itself
  ct = model.cls(CONV + 'call_trees.py', 'CallTreeTransformer')
  hfd = ct.methods.get('visit_FunctionDef')
  if hfd is None:
    raise core.AnalysisError('CallTreeTransformer.visit_FunctionDef not found')
  fp_ = hfd.params()[0]
  frames = [w for w in ast.walk(hfd.node) if isinstance(w, ast.With) and any(
      core.norm(i.context_expr).startswith('self.state[') for i in w.items)]
  inside = []
  for w in frames:
    for c in ast.walk(w):
      if isinstance(c, ast.Call) and core.norm(c.func) in ('self.visit', 'self.visit_block') \
          and c.args:
        a0 = core.norm(c.args[0])
        for fld in ('decorator_list', 'args.defaults', 'args.kw_defaults', 'returns'):
          if a0 == '%s.%s' % (fp_, fld) or a0.startswith('%s.%s[' % (fp_, fld)):
            inside.append(fld)
  rep.check(len(frames) == 1 and not inside, 'ROUTE',
            '%s:definition-time-fields-in-the-enclosing-frame' % hfd.site,
            'decorators, defaults and the return annotation of a nested def are '
            'evaluated by the def statement, in the enclosing function: converted '
            'inside the frame of the function itself, their calls name a scope object '
            'that does not exist yet', {'dispatched_inside_own_frame': sorted(set(inside))},
            line=hfd.node.lineno,
            witness='def f(x): def g(y) -> h(4): ...  -- NameError: fscope_1')

  # ---------------------------------------------------------------- ROUTE
  def route(rel, cname, kind, allow_tokens=(), allow_reason=''):
    cls = model.cls(rel, cname)
    h = cls.find('visit_' + kind)
    if h is None:
      rep.violation('ROUTE', '%s:%s:visit_%s' % (rel, cname, kind),
                    'the responsible pass has no handler for %s: the construct '
                    'is never rewritten' % kind)
      return
    T = trav.HandlerTraversal(model, cls)
    exits = T.analyse(h)
    for i, ex in enumerate(exits):
      org = _origin_of_return(model, h, ex)
      site = '%s:%s:visit_%s:exit(%s)' % (
          rel, cname, kind, ' & '.join('%s[%s]' % g for g in ex.guards) or 'final')
      passthrough = ('user' in org and 'generated' not in org) or org == {'none'}
      if not passthrough:
        rep.hold('ROUTE', site, {'returns': core.norm(ex.value)[:80],
                                 'origin': sorted(org)})
        continue
      gtxt = ' '.join(t for _, t in ex.guards)
      if callable(allow_tokens):
        ok = allow_tokens(h, ex.guards)
      else:
        ok = any(tok in gtxt for tok in allow_tokens)
      rep.check(ok, 'ROUTE', site,
                'visit_%s returns the user\'s node unchanged on a path that is '
                'not one of the documented exceptions (%s)' % (kind, allow_reason),
                {'guards': ex.guards, 'origin': sorted(org)}, line=ex.line,
                witness='any %s reaching that path stays native' % kind)

  route(CONV + 'break_statements.py', 'BreakTransformer', 'Break')
  route(CONV + 'continue_statements.py', 'ContinueCanonicalizationTransformer',
        'Continue')
  route(CONV + 'return_statements.py', 'ReturnStatementsTransformer', 'Return')
  route(CONV + 'call_trees.py', 'CallTreeTransformer', 'Call', _call_exceptions,
        'ag__ / function-scope calls, debugger entry, print without '
        'BUILTIN_FUNCTIONS')
  for k in ('If', 'While', 'For'):
    route(CONV + 'control_flow.py', 'ControlFlowTransformer', k)
  route(CONV + 'conditional_expressions.py', 'ConditionalExpressionTransformer',
        'IfExp')
  route(CONV + 'logical_expressions.py', 'LogicalExpressionTransformer', 'BoolOp')
  route(CONV + 'logical_expressions.py', 'LogicalExpressionTransformer', 'UnaryOp',
        _no_overload_exception, 'non-`not` unary operators have no overload')
  route(CONV + 'logical_expressions.py', 'LogicalExpressionTransformer', 'Compare')

  # the emitted operator of each construct handler
  want_ops = {
      ('control_flow.py', 'visit_If'): 'ag__.if_stmt',
      ('control_flow.py', 'visit_While'): 'ag__.while_stmt',
      ('control_flow.py', 'visit_For'): 'ag__.for_stmt',
      ('conditional_expressions.py', 'visit_IfExp'): 'ag__.if_exp',
      ('call_trees.py', 'visit_Call'): 'ag__.converted_call',
  }
  sites = tpl.find_sites(model)
  for (fname, meth), op in want_ops.items():
    found = False
    for s in sites:
      if s.fi.module.rel.endswith(fname) and s.fi.name == meth:
        for t in s.templates:
          for n in ast.walk(t.tree):
            if isinstance(n, ast.Call) and core.dotted(n.func) == op:
              found = True
    rep.check(found, 'ROUTE', '%s%s:%s:emits(%s)' % (CONV, fname, meth, op),
              '%s no longer emits a call to %s' % (meth, op), {})

  # ---------------------------------------------------------------- TABLE
  lm = model.module(CONV + 'logical_expressions.py')
  rep.touch(lm.rel)

  def table(name):
    v = lm.assigns.get(name)
    out = {}
    if isinstance(v, ast.Dict):
      for k, val in zip(v.keys, v.values):
        out[core.dotted(k)] = val.value if isinstance(val, ast.Constant) else None
    return out

  lo = table('LOGICAL_OPERATORS')
  eo = table('EQUALITY_OPERATORS')
  for k, want in (('ast.And', 'ag__.and_'), ('ast.Or', 'ag__.or_'),
                  ('ast.Not', 'ag__.not_')):
    rep.check(lo.get(k) == want, 'TABLE', '%s:LOGICAL_OPERATORS[%s]' % (lm.rel, k),
              '%s must map to %s' % (k, want), {'maps_to': lo.get(k)})
  for k, want in (('ast.Eq', 'ag__.eq'), ('ast.NotEq', 'ag__.not_eq')):
    rep.check(eo.get(k) == want, 'TABLE', '%s:EQUALITY_OPERATORS[%s]' % (lm.rel, k),
              '%s must map to %s' % (k, want), {'maps_to': eo.get(k)})
  ov = model.func(lm.rel, 'LogicalExpressionTransformer._overload_of')
  cls = model.cls(lm.rel, 'LogicalExpressionTransformer')
  # what _overload_of returns for each kind of operator and feature setting,
  # evaluated concretely on (kind, feature) over path-wise symbolic values
  from sa import pathsym
  opp = ov.params()[0]

  def _is_optype(e):
    return core.norm(e) in ('op_type', 'type(%s)' % opp) or (
        isinstance(e, ast.Name) and tpl.xnorm(ov, e, e) == 'type(%s)' % opp)

  def _val(e, kind, feat):
    """'L' / 'E' (an entry of the table), None, or '?'"""
    if isinstance(e, ast.Constant) and e.value is None:
      return None
    for tab, k in (('LOGICAL_OPERATORS', 'L'), ('EQUALITY_OPERATORS', 'E')):
      if isinstance(e, ast.Subscript) and core.norm(e.value) == tab and _is_optype(e.slice):
        return k if kind == k else '?'          # KeyError otherwise
      if isinstance(e, ast.Call) and core.norm(e.func) == tab + '.get' and e.args and \
          _is_optype(e.args[0]) and (len(e.args) == 1 or (
              isinstance(e.args[1], ast.Constant) and e.args[1].value is None)):
        return k if kind == k else None
    if isinstance(e, ast.IfExp):
      t = _tr(e.test, kind, feat)
      return '?' if t is None else _val(e.body if t else e.orelse, kind, feat)
    if isinstance(e, ast.BoolOp) and isinstance(e.op, ast.Or):
      for v in e.values:
        r = _val(v, kind, feat)
        if r == '?':
          return '?'
        if r is not None:
          return r
      return None
    return '?'

  def _tr(t, kind, feat):
    if isinstance(t, ast.BoolOp):
      vs = [_tr(v, kind, feat) for v in t.values]
      if isinstance(t.op, ast.And):
        return False if any(v is False for v in vs) else (
            True if all(v is True for v in vs) else None)
      return True if any(v is True for v in vs) else (
          False if all(v is False for v in vs) else None)
    if isinstance(t, ast.UnaryOp) and isinstance(t.op, ast.Not):
      v = _tr(t.operand, kind, feat)
      return None if v is None else (not v)
    if isinstance(t, ast.Compare) and len(t.ops) == 1:
      op = t.ops[0]
      if isinstance(op, (ast.In, ast.NotIn)) and _is_optype(t.left):
        tab = core.norm(t.comparators[0])
        r = {'LOGICAL_OPERATORS': kind == 'L', 'EQUALITY_OPERATORS': kind == 'E'}.get(tab)
        if r is None:
          return None
        return r if isinstance(op, ast.In) else (not r)
      if isinstance(op, (ast.Is, ast.IsNot)) and isinstance(
          t.comparators[0], ast.Constant) and t.comparators[0].value is None:
        v = _val(t.left, kind, feat)
        if v == '?':
          return None
        return (v is None) if isinstance(op, ast.Is) else (v is not None)
    if isinstance(t, ast.Call) and core.norm(t).endswith(
        '.uses(converter.Feature.EQUALITY_OPERATORS)'):
      return feat
    v = _val(t, kind, feat)          # truthiness of a looked-up entry
    if v != '?':
      return v is not None
    return None

  rets_ = [r for r in core.walk_no_nested(ov.node) if isinstance(r, ast.Return)]
  paths = []
  for r in rets_:
    val = r.value if r.value is not None else ast.Constant(None)
    if r.value is None:
      paths += [(c, ast.Constant(None)) for c, v in pathsym.path_values(
          ov.node, r, ast.Constant(None))]
    else:
      paths += pathsym.path_values(ov.node, r, r.value)
  answers = {}
  for kind in ('L', 'E', 'other'):
    for feat in (False, True):
      got = set()
      for conds, v in paths:
        ts = [_tr(t, kind, feat) for pol, t in conds]
        if any(x is None for x in ts):
          got.add('?')
          continue
        if all(x == (pol == 'T') for x, (pol, t) in zip(ts, conds)):
          got.add(_val(v, kind, feat))
      answers[(kind, feat)] = got
  unconditional_logical = answers[('L', False)] == {'L'} and answers[('L', True)] == {'L'}
  eq_under_feature = answers[('E', True)] == {'E'} and answers[('E', False)] == {None} \
      and answers[('other', True)] == {None} and answers[('other', False)] == {None}
  facts_ov = {'%s,feature=%s' % k: sorted(map(str, v)) for k, v in answers.items()}
  rep.check(unconditional_logical, 'TABLE', '%s:logical-unconditional' % ov.site,
            'and/or/not must get their overload regardless of options',
            facts_ov, line=ov.node.lineno)
  rep.check(eq_under_feature, 'TABLE', '%s:equality-under-feature' % ov.site,
            '==/!= get their overload exactly under the EQUALITY_OPERATORS '
            'feature; other operators get none', facts_ov, line=ov.node.lineno)

  # ---------------------------------------------------------------- NOSKIP
  def skip_setters(tree):
    out = []
    for n in ast.walk(tree):
      if isinstance(n, ast.Call) and isinstance(n.func, ast.Attribute) and \
          n.func.attr in ('setanno', 'copyanno') and any(
              'SKIP_PROCESSING' in core.norm(a) for a in n.args):
        out.append(n)
    return out

  fixture = core.VERIF / 'fixtures' / 'skip_processing_fixture.py'
  if not fixture.exists() or not skip_setters(ast.parse(fixture.read_text())):
    raise core.AnalysisError('NOSKIP positive control fixture does not match')
  hits = []
  for m in model.modules.values():
    for n in skip_setters(m.tree):
      hits.append('%s:%d %s' % (m.rel, n.lineno, core.norm(n)))
  rep.check(not hits, 'NOSKIP', 'malt:setanno(SKIP_PROCESSING)',
            'a node is marked SKIP_PROCESSING: every pass will leave its '
            'subtree unconverted', {'sites': hits},
            witness='any construct inside the marked subtree')
  # Base.visit honours SKIP_PROCESSING only; dispatch goes through NodeTransformer
  base = model.func('malt/pyct/transformer.py', 'Base.visit')
  sup = [c for c in ast.walk(base.node) if isinstance(c, ast.Call) and
         isinstance(c.func, ast.Attribute) and c.func.attr == 'visit' and
         isinstance(c.func.value, ast.Call) and core.dotted(c.func.value.func) == 'super']
  early = [r for r in ast.walk(base.node) if isinstance(r, ast.Return) and
           isinstance(r.value, ast.Name) and r.value.id == 'node']
  guards_ok = True
  for n in ast.walk(base.node):
    if isinstance(n, ast.If) and any(r in early for b in n.body for r in ast.walk(b)):
      if 'SKIP_PROCESSING' not in core.norm(n.test):
        guards_ok = False
  rep.check(len(sup) == 1 and guards_ok, 'NOSKIP',
            'malt/pyct/transformer.py:Base.visit:dispatch',
            'Base.visit must dispatch every node to the standard visitor and '
            'return early only for SKIP_PROCESSING', {'super_visit_calls': len(sup)},
            line=base.node.lineno)

  # ---------------------------------------------------------------- ORDER
  rules_order.check(model, rep, prop='C04')

  # ---------------------------------------------------------------- STALE
  rep.rule('STALE', 'no handler embeds a child it read off the node before the '
           'visitor rewrote the node', floor=20)
  _rels = sorted(m.rel for m in model.modules.values() if m.rel.startswith(CONV))
  _sites = [x for x in tpl.find_sites(model) if x.fi.module.rel.startswith(CONV)]
  rules_stale.check(model, rep, 'STALE', _rels, _sites)

  # ---------------------------------------------------------------- FOLD
  rep.rule('FOLD', 'n-ary boolean operations and comparison chains are folded '
           'into nested operator calls over the converted operands, once each, '
           'in source order, lazily', floor=6)
  rules_fold.check(model, rep, 'FOLD')

  # ---------------------------------------------------------------- dependencies
  rep.depends('C01', ['TPL-FLAG'],
              'break / continue / early return execute through the operators only if '
              'the flag they set is consulted: reset at the top of every iteration, '
              'tested first in the loop test and in the guards of the following '
              'statements')
  rep.depends('C10', ['CACHE-KEY'],
              'which constructs are routed depends on the option set; the code '
              'served from the cache must have been produced under the requested '
              'options')
  rep.depends('C20', ['OPT-FIELDS', 'OPT-EQHASH'],
              'option sets that differ in a feature must not compare equal as '
              'cache keys')
