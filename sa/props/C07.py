"""C07 — liveness (mechanism).

 LV-JOIN      live_out = union of in_[n] over all successors (both branches)
 LV-TRANSFER  live_in ⊇ read ∪ (live_out − kill), kill ⊆ modified ∪ deleted;
              out[node] ⊇ the join; ignorable nodes pass through; no in-place
              mutation of a Scope set on the default path
 LV-CLOSURE   every free name of a reaching local function is live-in, whatever
              the statement kills: read-only free names and names the function
              declares nonlocal; the reaching-function analysis joins over all
              predecessors, adds each def node and reports changes of its *out*
 LV-FLAG      revisit flag ⇔ in changed
 LV-DRIVER    worklist driver (backward)
 LV-BLOCK     block live-out = union of in_ over *all* statement successors;
              block live-in taken from the entry node of the compound statement
 LV-HEADER    activity records the for-target assignment in the scope attached
              to node.iter, the node the CFG uses as loop header
 LV-ASDL      field types
"""
import ast

from sa import core
from sa import pat
from sa import tpl
from sa import rules_df
from sa import rules_trav
from sa import setalg
from sa.formula import atom, implies, equivalent, TRUE
from sa.props import C05 as _c05

LV = 'malt/pyct/static_analysis/liveness.py'
RF = 'malt/pyct/static_analysis/reaching_fndefs.py'
ACT = 'malt/pyct/static_analysis/activity.py'
CFG = 'malt/pyct/cfg.py'


def eval_liveness(model):
  vn = model.func(LV, 'Analyzer.visit_node')
  ev, rets = rules_df.eval_visit_node(model, vn, rules_df.df_atoms(vn))
  pc, v, env = rules_df.final_env(rets)
  return vn, ev, env


def closure_context(live_in):
  """(assumption: node has a scope, default configuration; premise: some
  reaching non-lambda function exists) -- or (assume, None) if the rule is gone."""
  hs = [a for a in live_in.f.atoms if a.startswith('OPAQUE[anno.hasanno')]
  assume = atom(hs[0]) if hs else TRUE
  for a in live_in.f.atoms:
    if 'include_annotations' in a:
      # default configuration: include_annotations is True
      assume = assume & (~atom(a) if 'not self.include_annotations' in a else atom(a))
  ex = [a for a in live_in.f.atoms if a.startswith('EXISTS[') and 'DEFINED_FNS_IN' in a]
  if not ex:
    return assume, None
  reach = atom(ex[0])
  for a in live_in.f.atoms:
    if 'lamba_check' in a or 'ast.Lambda' in a:
      reach = reach & ~atom(a)
  return assume, reach


def check(model, rep, tier):
  rep.not_decided = ('that the fixed point over-approximates real future reads '
                     '(soundness w.r.t. executions)')
  rep.touch(LV, RF, ACT, CFG)
  rep.rule('LV-JOIN', 'join over all successors', floor=1)
  rep.rule('LV-TRANSFER', 'live_in ⊇ read ∪ (live_out − kill)', floor=5)
  rep.rule('LV-CLOSURE', 'free names of reaching local functions are live', floor=6)
  rep.rule('LV-FLAG', 'revisit flag ⇔ in changed', floor=1)
  rep.rule('LV-DRIVER', 'worklist driver', floor=2)
  rep.rule('LV-BLOCK', 'block-level live sets', floor=8)
  rep.rule('LV-HEADER', 'for header carries the target assignment', floor=2)
  rep.rule('LV-ASDL', 'field types', floor=8)
  rep.rule('LV-ANNOT', 'the annotators reach every statement (and every nested '
           'function) of the tree', floor=8)

  vn, ev, env = eval_liveness(model)
  rules_df.check_no_early_exit(rep, 'LV-CLOSURE', vn, ev)
  rules_df.check_join_loop(rep, 'LV-JOIN', vn, 'next', 'in_',
                           'a use on a dropped branch is lost')
  live_in = env.get('@self.in_[node]')
  live_out = env.get('@self.out[node]')
  if not isinstance(live_in, setalg.SetV) or not isinstance(live_out, setalg.SetV):
    raise core.AnalysisError('liveness visit_node: stored states not evaluated')
  join = atom('EXISTS[node.next]') & atom('NB_IN')
  hs = [a for a in live_in.f.atoms if a.startswith('OPAQUE[anno.hasanno')]
  has_scope = atom(hs[0]) if hs else TRUE
  cfgb = [a for a in live_in.f.atoms if 'include_annotations' in a]
  default_cfg = TRUE
  for a in cfgb:
    # default configuration: include_annotations=True  (atom is its negation)
    default_cfg = default_cfg & (~atom(a) if a.startswith('OPAQUE[not ') or
                                 'not self.include_annotations' in a else atom(a))
  R, M, D = atom('READ'), atom('MODIFIED'), atom('DELETED')
  assume = has_scope & default_cfg
  for name, premise, why, wit in (
      ('gen-read', R, 'whatever the statement reads is live before it',
       'x read by the statement'),
      ('pass-through', join & ~M & ~D, 'a symbol live after the statement stays '
       'live before it unless the statement rebinds or deletes that very symbol',
       'def scale(x): ... where the parameter x shadows a live outer x: the def '
       'statement must not kill the outer x'),
  ):
    o, cex = implies(premise & assume, live_in.f)
    rep.check(o, 'LV-TRANSFER', '%s:%s' % (vn.site, name),
              'live_in misses symbols it must contain: %s' % why,
              {'counterexample': cex, 'formula': str(live_in.f)[:300]},
              line=vn.node.lineno, witness=wit)
  o, cex = implies(join, live_out.f)
  rep.check(o, 'LV-TRANSFER', '%s:out-contains-join' % vn.site,
            'self.out[node] must contain everything live into a successor',
            {'counterexample': cex}, line=vn.node.lineno)
  o, cex = implies(join & ~has_scope, live_in.f) if hs else (True, None)
  rep.check(o, 'LV-TRANSFER', '%s:ignorable-nodes-identity' % vn.site,
            'break / continue / raise / pass nodes pass liveness through',
            {'counterexample': cex}, line=vn.node.lineno)
  inplace = [f for f in ev.facts if f[0] == 'inplace' and (
      f[1].startswith('node_scope') or f[1] in ('gen', 'kill'))]
  # gen -= annotations only under the non-default configuration
  nondefault = all('include_annotations' in core.norm(n.test)
                   for n in ast.walk(vn.node) if isinstance(n, ast.If) and any(
                       isinstance(x, ast.AugAssign) and core.norm(x.target) in (
                           'gen', 'kill') for x in n.body))
  rep.check(nondefault, 'LV-TRANSFER', '%s:no-scope-mutation-on-default-path' % vn.site,
            'the read/modified sets of a statement\'s scope must not be edited '
            'in place on the default path (they are shared with every other '
            'analysis)', {'inplace': inplace}, line=vn.node.lineno)

  rules_df.check_loop_target_kill(model, rep, 'LV-TRANSFER')

  # ---------------------------------------------------------------- LV-CLOSURE
  ex = [a for a in live_in.f.atoms if a.startswith('EXISTS[') and 'DEFINED_FNS_IN' in a]
  lam = [a for a in live_in.f.atoms if 'lamba_check' in a or 'Lambda' in a]
  if not ex:
    rep.violation('LV-CLOSURE', '%s:closure-rule' % vn.site,
                  'the closure rule is gone: free variables of reaching local '
                  'functions are no longer live', line=vn.node.lineno,
                  witness='x assigned, def f(): return x, then f() called later')
  else:
    reach = atom(ex[0])
    for a in lam:
      reach = reach & ~atom(a)
    FR, FB, FN = atom('FN.read'), atom('FN.bound'), atom('FN.nonlocals')
    for name, premise, wit in (
        ('read-only-free-name', reach & FR & ~FB,
         'a closure that only reads x, with x = x * 3 inside an if before it is '
         'called'),
        ('nonlocal-declared-name', reach & FR & FB & FN,
         'def inc(): nonlocal x; x += 1 -- and x assigned in a branch before '
         'inc() is called'),
    ):
      o, cex = implies(premise & assume, live_in.f)
      rep.check(o, 'LV-CLOSURE', '%s:%s' % (vn.site, name),
                'a free variable of a reaching local function must be live '
                'before the statement regardless of what the statement kills',
                {'counterexample': cex}, line=vn.node.lineno, witness=wit)
    loops = [l for l in ast.walk(vn.node) if isinstance(l, ast.For) and
             'anno.Static.DEFINED_FNS_IN' in tpl.xnorm(vn, l.iter, l.iter)]
    ok = len(loops) == 1 and pat.has(
        loops[0], '_S_ = anno.getanno(%s, annos.NodeAnno.ARGS_AND_BODY_SCOPE)' %
        core.norm(loops[0].target))
    rep.check(ok, 'LV-CLOSURE', '%s:uses-reaching-fndefs-and-function-scope' % vn.site,
              'the closure rule must iterate over DEFINED_FNS_IN and use each '
              'function\'s args+body scope', line=vn.node.lineno)
  # reaching function definitions (the analysis feeding the closure rule)
  rvn = model.func(RF, 'Analyzer.visit_node')
  rules_df.check_join_loop(rep, 'LV-CLOSURE', rvn, 'prev', 'out',
                           'a function definition reaching over a dropped edge '
                           'is forgotten')
  rules_df.check_change_flag(rep, 'LV-CLOSURE', rvn, 'out')
  rp = rvn.params()[0]
  # path-wise (sa/pathsym): the state stored into self.out[node] is <state in> +
  # node.ast_node on every path where the node is a def / lambda, and the state
  # in is _NodeState(self.external_defs) at the graph entry
  from sa import pathsym as _ps
  stores_ = [a for a in ast.walk(rvn.node) if isinstance(a, ast.Assign) and core.norm(
      a.targets[0]) == 'self.out[%s]' % rp]
  ok = len(stores_) == 1
  fn_kinds, entry_ok = set(), False

  def _fn_test(t):
    """kinds named by isinstance(node.ast_node, K) tests (one tuple or an `or`)"""
    ks = set()
    for x in (t.values if isinstance(t, ast.BoolOp) and isinstance(t.op, ast.Or) else [t]):
      if isinstance(x, ast.Call) and core.dotted(x.func) == 'isinstance' and len(
          x.args) == 2 and core.norm(x.args[0]) == rp + '.ast_node':
        ks |= {core.dotted(k).split('.')[-1] for k in (
            x.args[1].elts if isinstance(x.args[1], ast.Tuple) else [x.args[1]])}
      else:
        return None
    return ks

  def _leaves(v, conds):
    if isinstance(v, ast.IfExp):
      yield from _leaves(v.body, conds + [('T', v.test)])
      yield from _leaves(v.orelse, conds + [('F', v.test)])
    else:
      yield conds, v
  if ok:
    for conds0, val0 in _ps.path_values(rvn.node, stores_[0], stores_[0].value):
      for conds, val in _leaves(val0, list(conds0)):
        kinds_t = set()
        for pol, t in conds:
          ks = _fn_test(t)
          if ks is not None and pol == 'T':
            kinds_t |= ks
        txt = core.norm(val)
        if kinds_t:
          fn_kinds |= kinds_t
          if not (isinstance(val, ast.BinOp) and isinstance(val.op, ast.Add) and
                  core.norm(val.right) == rp + '.ast_node'):
            ok = False
        if any(pol == 'T' and core.norm(t) == '%s is self.graph.entry' % rp
               for pol, t in conds) and '_NodeState(self.external_defs)' in txt:
          entry_ok = True
  ok = ok and fn_kinds == {'Lambda', 'FunctionDef'} and entry_ok
  rep.check(ok, 'LV-CLOSURE', '%s:gen-function-nodes' % rvn.site,
            'every def / lambda node must add itself to the definitions flowing '
            'out; the entry starts from the enclosing function\'s definitions',
            line=rvn.node.lineno)
  rns = model.cls(RF, '_NodeState')
  rules_df.check_value_type(rep, 'LV-CLOSURE', rns)
  for op, want in (('__or__', 'union'), ('__add__', 'add')):
    m = rns.methods.get(op)
    if m is None:
      raise core.AnalysisError('reaching_fndefs._NodeState.%s missing' % op)
    mp = m.params()[0]
    n1, b1 = pat.first(m.node, '_R_ = _NodeState(self.value)')
    ok = b1 is not None and pat.has(m.node, 'return _R_', b1) and (pat.has(
        m.node, ('_R_.value.update(%s.value)' % mp) if want == 'union' else
        ('_R_.value.add(%s)' % mp), b1) or pat.has(
            m.node, ('_R_.value |= %s.value' % mp) if want == 'union' else
            ('_R_.value |= {%s}' % mp), b1))
    rep.check(ok, 'LV-CLOSURE', '%s:%s' % (m.site, want),
              'the state operator must build a new state containing the old one '
              '(no aliasing of the stored state)', line=m.node.lineno)
  rta = model.cls(RF, 'TreeAnnotator')
  rvisit = rta.methods['visit']
  vp = rvisit.params()[0]
  ok = pat.has(rvisit.node, 'anno.setanno(%s, anno.Static.DEFINED_FNS_IN, '
               'self.current_analyzer.in_[_C_].value)' % vp) and pat.has(
                   rvisit.node, '_X_ = anno.getanno(%s, anno.Basic.EXTRA_LOOP_TEST, '
                   'default=None)' % vp)
  rep.check(ok, 'LV-CLOSURE', '%s:annotates-every-cfg-node-and-hidden-tests' % rvisit.site,
            'DEFINED_FNS_IN must be attached to every CFG node, including the '
            'hidden extra loop test', line=rvisit.node.lineno)

  # ---------------------------------------------------------------- LV-FLAG / DRIVER
  rules_df.check_change_flag(rep, 'LV-FLAG', vn, 'in_')
  rules_df.check_driver(model, rep, 'LV-DRIVER')
  ta = model.cls(LV, 'TreeAnnotator')
  af = ta.methods['_analyze_function']
  rep.check(pat.has(af.node, '_A_.visit_reverse()'), 'LV-DRIVER',
            '%s:backward' % af.site, 'liveness is a backward analysis',
            line=af.node.lineno, nontrivial=False)

  # ---------------------------------------------------------------- LV-BLOCK
  from sa import family
  from sa import pathsym

  def setters(key):
    out = []
    for nm, fi_ in ta.methods.items():
      if nm.startswith('visit'):
        continue
      ps_ = fi_.params()
      if ps_ and any(isinstance(c, ast.Call) and core.dotted(c.func) == 'anno.setanno' and
                     len(c.args) == 3 and core.norm(c.args[0]) == ps_[0] and
                     core.norm(c.args[1]) == 'anno.Static.' + key
                     for c in ast.walk(fi_.node)):
        out.append(fi_)
    return out

  def check_out(fi_, bp, site):
    """LIVE_VARS_OUT of bp = union of in_[s] over all statement successors"""
    sets = [c for c in ast.walk(fi_.node) if isinstance(c, ast.Call) and
            core.dotted(c.func) == 'anno.setanno' and len(c.args) == 3 and
            tpl.xnorm(fi_, c.args[0], c) in (bp, 'self.generic_visit(%s)' % bp) and
            core.norm(c.args[1]) == 'anno.Static.LIVE_VARS_OUT']
    ok = len(sets) == 1
    facts = {}
    if ok:
      uf = family.union_family(fi_, sets[0].args[2], sets[0])
      facts = {'union_over': uf[0] if uf else None, 'of': uf[1] if uf else None}
      ok = uf is not None and uf[1] == 'self.current_analyzer.in_[N]' and uf[0] in (
          'self.current_analyzer.graph.stmt_next[%s]' % bp,
          'self.current_analyzer.graph.stmt_next[self.generic_visit(%s)]' % bp)
    rep.check(ok, 'LV-BLOCK', site,
              'the live-out of a compound statement is the union of the live-in '
              'of *all* its statement successors', facts, line=fi_.node.lineno,
              witness='zero-iteration loop followed by a read')

  def check_in(fi_, ip, ie, site):
    """LIVE_VARS_IN of ip = live-in of the entry ie (its CFG node, or its own
    LIVE_VARS_IN annotation when it is a compound statement without a node)"""
    class _V(ast.NodeTransformer):
      def visit_Call(self, c):
        self.generic_visit(c)
        if core.norm(c.func) == 'self.generic_visit' and len(c.args) == 1:
          return c.args[0]
        return c
    isets = [c for c in ast.walk(fi_.node) if isinstance(c, ast.Call) and
             core.dotted(c.func) == 'anno.setanno' and len(c.args) == 3 and
             core.norm(_V().visit(tpl.expand(fi_, c.args[0], c))) == ip and
             core.norm(c.args[1]) == 'anno.Static.LIVE_VARS_IN']
    vals_in = []
    # names bound by an assignment expression in a test (`(n := index.get(e)) is
    # not None`) stand for that value
    walrus = {}
    for w_ in ast.walk(fi_.node):
      if isinstance(w_, ast.NamedExpr) and isinstance(w_.target, ast.Name):
        walrus.setdefault(w_.target.id, []).append(w_.value)

    class _W(ast.NodeTransformer):
      def visit_Name(self, n_):
        if n_.id in walrus and len(walrus[n_.id]) == 1 and isinstance(n_.ctx, ast.Load):
          return tpl.expand(fi_, walrus[n_.id][0], walrus[n_.id][0])
        return n_
    for c in isets:
      for conds, v in pathsym.path_values(fi_.node, c, c.args[2]):
        arms = [_V().visit(_W().visit(v))]
        while any(isinstance(a, ast.IfExp) for a in arms):     # both arms of a choice
          arms = [b for a in arms for b in (
              (a.body, a.orelse) if isinstance(a, ast.IfExp) else (a,))]
        vals_in.extend(core.norm(a) for a in arms)
    idx_forms = ['self.current_analyzer.graph.index[%s]' % ie,
                 'self.current_analyzer.graph.index.get(%s)' % ie]
    allowed_in = {'anno.getanno(%s, anno.Static.LIVE_VARS_IN)' % ie}
    for ix in idx_forms:
      allowed_in |= {'frozenset(self.current_analyzer.in_[%s])' % ix,
                     'self.current_analyzer.in_[%s]' % ix}
    rep.check(bool(vals_in) and ie is not None and set(vals_in) <= allowed_in and
              any('in_[' in v for v in vals_in) and any('getanno' in v for v in vals_in),
              'LV-BLOCK', site,
              'the live-in of a compound statement is the live-in of its entry: of '
              'the entry\'s CFG node, or the LIVE_VARS_IN annotation of an entry '
              'that is itself a compound statement',
              {'values': sorted(set(vals_in)), 'entry': ie}, line=fi_.node.lineno,
              witness='try: whose first statement is an if / for / while')

  ENTRY = {'visit_If': '.test', 'visit_For': '.iter',
           'visit_While': '.test', 'visit_Try': '.body[0]',
           'visit_ExceptHandler': '.body[0]', 'visit_With': '.items[0]'}
  outs_, ins_ = setters('LIVE_VARS_OUT'), setters('LIVE_VARS_IN')
  if len(outs_) == 1 and len(ins_) == 1:
    # annotators as methods: their bodies once, and the handlers' calls
    blo, bli = outs_[0], ins_[0]
    check_out(blo, blo.params()[0], '%s:all-statement-successors' % blo.site)
    check_in(bli, bli.params()[0], (bli.params() + [None])[1],
             '%s:live-in-of-entry' % bli.site)
    for h, entry in ENTRY.items():
      m = ta.methods.get(h)
      ok = m is not None
      facts = {}
      if ok:
        # unconditional calls of the handler (helpers that are new are already
        # expanded; whether a call's value is used, returned or dropped is
        # immaterial: the annotations are side effects on the node)
        p = m.params()[0]
        calls = []
        for st in m.node.body:
          if isinstance(st, (ast.If, ast.For, ast.While, ast.Try)):
            continue
          calls += [c for c in ast.walk(st) if isinstance(c, ast.Call)]

        class _Same(ast.NodeTransformer):
          # generic_visit and the annotators hand back the node they were given
          def visit_Call(self, c):
            self.generic_visit(c)
            if core.norm(c.func) in ('self.generic_visit', 'self.' + blo.name,
                                     'self.' + bli.name) and c.args:
              return c.args[0]
            return c

        def ident(e, at):
          return core.norm(_Same().visit(tpl.expand(m, e, at)))
        texts = []
        for c in calls:
          f_ = core.norm(c.func)
          if f_ in ('self.generic_visit', 'self.' + blo.name, 'self.' + bli.name) and c.args:
            texts.append('%s(%s)' % (f_, ', '.join(ident(a, c) for a in c.args[:2])))
        facts = {'calls': texts}
        ok = ('self.%s(%s, %s%s)' % (bli.name, p, p, entry)) in texts and (
            h == 'visit_With' or blo is bli or ('self.%s(%s)' % (blo.name, p)) in texts) \
            and ('self.generic_visit(%s)' % p) in texts
      rep.check(ok, 'LV-BLOCK', '%s:%s:entry-node' % (LV, h),
                'live-in of %s must be read at its entry node (node%s) and its '
                'live-out recorded' % (h[6:], entry), facts,
                line=m.node.lineno if m else None)
  elif not outs_ and not ins_:
    # annotators written out in every handler (or expanded there by the
    # pre-pass): the same two rules, per handler
    for h, entry in ENTRY.items():
      m = ta.methods.get(h)
      if m is None:
        rep.violation('LV-BLOCK', '%s:%s:entry-node' % (LV, h), 'handler missing')
        continue
      p = m.params()[0]
      if h != 'visit_With':
        check_out(m, p, '%s:%s:all-statement-successors' % (LV, h))
      check_in(m, p, p + entry, '%s:%s:entry-node' % (LV, h))
  else:
    raise core.AnalysisError('block live-out / live-in annotators not identified')

  vis = ta.methods['visit']
  vp_ = vis.params()[0]
  ok = False
  for c_ in ast.walk(vis.node):
    if isinstance(c_, ast.Call) and core.dotted(c_.func) == 'anno.setanno' and \
        len(c_.args) == 3 and core.norm(c_.args[0]) == vp_ and \
        core.norm(c_.args[1]) == 'anno.Static.LIVE_VARS_IN':
      # the live-in of the statement's own CFG node (through locals)
      wal_ = {}
      for w_ in ast.walk(vis.node):
        if isinstance(w_, ast.NamedExpr):
          wal_.setdefault(w_.target.id, []).append(w_.value)

      class _W1(ast.NodeTransformer):
        def visit_Name(self, n_):
          if n_.id in wal_ and len(wal_[n_.id]) == 1 and isinstance(n_.ctx, ast.Load):
            return tpl.expand(vis, wal_[n_.id][0], wal_[n_.id][0])
          return n_
      import copy as _copy
      v_ = core.norm(_W1().visit(_copy.deepcopy(tpl.expand(vis, c_.args[2], c_))))
      ok = ok or v_ in (
          'frozenset(self.current_analyzer.in_[self.current_analyzer.graph.index[%s]])' % vp_,
          'self.current_analyzer.in_[self.current_analyzer.graph.index[%s]]' % vp_,
          'frozenset(self.current_analyzer.in_[self.current_analyzer.graph.index.get(%s)])'
          % vp_)
  rep.check(ok, 'LV-BLOCK', '%s:statement-live-in' % vis.site,
            'every statement with a CFG node gets its live-in set',
            line=vis.node.lineno)

  # statement-level successor sets come from the builder's forward edges
  _c05.mirror_rule(model, rep, 'LV-BLOCK')

  # ---------------------------------------------------------------- LV-HEADER
  avf = model.func(ACT, 'ActivityAnalyzer.visit_For')
  src = [core.norm(s) for s in avf.node.body]
  try:
    i_enter = src.index('self._enter_scope(False)')
    i_tgt = src.index('node.target = self.visit(node.target)')
    i_iter = src.index('node.iter = self.visit(node.iter)')
    i_rec = src.index('self._exit_and_record_scope(node.iter)')
    ok = i_enter < i_tgt < i_rec and i_enter < i_iter < i_rec
  except ValueError:
    ok = False
  rep.check(ok, 'LV-HEADER', '%s:target-in-iter-scope' % avf.site,
            'the assignment to the loop target must be recorded in the scope '
            'attached to node.iter (it kills the target at the loop header, also '
            'on the exit edge)', {'body': src[:6]}, line=avf.node.lineno,
            witness='for i in xs: ... followed by a read of a different i')
  cvf = model.func(CFG, 'AstToCfg.visit_For')
  ok = 'self.builder.enter_loop_section(node, node.iter)' in core.norm(cvf.node)
  rep.check(ok, 'LV-HEADER', '%s:iter-is-loop-header' % cvf.site,
            'the CFG must use node.iter as the loop header node', line=cvf.node.lineno)

  _c05.asdl_rule(model, rep, 'LV-ASDL', [LV, RF])

  # ---------------------------------------------------------------- LV-ANNOT
  STMT_KINDS = ('If', 'For', 'While', 'Try', 'With', 'FunctionDef', 'Lambda',
                'ExceptHandler', 'Expr', 'Assign', 'Return')
  for rel_, cn_ in ((LV, 'TreeAnnotator'), (RF, 'TreeAnnotator')):
    rules_trav.analysis_trav(model, rep, 'LV-ANNOT', rel_, cn_, {
        ('FunctionDef', 'type_params'): 'PEP 695, outside the subset'},
                             kinds=STMT_KINDS)

  # ---------------------------------------------------------------- dependencies
  rep.depends('C05', None,
              'liveness is propagated backwards along the edges of this graph')
  rep.depends('C08', None,
              'the gen set of a statement is the read set of the activity '
              'analysis: a read it does not visit is not live before it')
