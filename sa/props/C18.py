"""C18 — A-normal-form transformation preserves evaluation order and yields ANF.

 ANF-LAZY     every lazily / repeatedly evaluated construct (BoolOp, IfExp, Lambda,
              comprehensions, multi-operator Compare, While test, Assert, Await,
              YieldFrom, f-string parts) has a handler that only accepts it when no
              statement had to be extracted, or raises outright; the "nothing was
              extracted" test compares the pending count from *before* the visit
 ANF-ORDER    the order in which a node's fields are visited and named equals
              Python's evaluation order (frozen table from the language
              reference); children are named one at a time, not in a batch
 ANF-TRAV     every field that can hold an expression is visited (yields ANF)
 ANF-BLOCKS   statements extracted from a test / iter / with-item are flushed in
              front of the statement, and nothing pending crosses a block boundary
 ANF-CLASSES  pass-through / trivial class tables name live grammar classes
 ANF-GENSYM   temporaries get strictly increasing numbers
"""
import ast

from sa import asdl
from sa import core
from sa import fieldtypes
from sa import formula
from sa import pat
from sa import pycfg
from sa import tpl
from sa import trav

ANF = 'malt/pyct/common_transformers/anf.py'

# Python evaluation order of the expression-holding fields (language reference,
# "Evaluation order": left to right; an assignment evaluates the right-hand side
# before the targets; a dict display evaluates key_i before value_i, pairwise)
EVAL_ORDER = {
    'Call': ['func', 'args', 'keywords'],
    'BinOp': ['left', 'right'], 'UnaryOp': ['operand'],
    'Compare': ['left', 'comparators'],
    'Attribute': ['value'], 'Subscript': ['value', 'slice'],
    'Slice': ['lower', 'upper', 'step'],
    'List': ['elts'], 'Tuple': ['elts'], 'Set': ['elts'],
    'Dict': 'PAIRWISE(keys,values)',
    'Assign': ['value', 'targets'], 'AugAssign': ['target', 'value'],
    'Return': ['value'], 'Raise': ['exc', 'cause'], 'Delete': ['targets'],
    'Expr': ['value'], 'For': ['iter', 'target'], 'If': ['test'],
    'While': ['test'], 'With': ['items'], 'withitem': ['context_expr',
                                                       'optional_vars'],
    'Starred': ['value'], 'keyword': ['value'], 'Yield': ['value'],
}
LAZY = {
    'BoolOp': 'short-circuit', 'IfExp': 'one branch only', 'Lambda': 'body '
    'evaluated at call time', 'ListComp': 'clause bodies run per element',
    'SetComp': 'per element', 'DictComp': 'per element', 'GeneratorExp': 'lazy',
    'Assert': 'test skipped under -O, message only on failure',
    'Await': 'suspension point', 'YieldFrom': 'delegation',
    'JoinedStr': 'format spec', 'FormattedValue': 'format spec',
}


def check(model, rep, tier):
  rep.not_decided = ('run-time equivalence on concrete programs; behaviour under '
                     'arbitrary user configurations beyond the mechanisms checked')
  rep.touch(ANF)
  cls = model.cls(ANF, 'AnfTransformer')
  rep.rule('ANF-LAZY', 'lazy constructs rejected unless trivial', floor=14)
  rep.rule('ANF-ORDER', 'visit / naming order = evaluation order', floor=15)
  rep.rule('ANF-TRAV', 'every expression-holding field is visited', floor=10)
  rep.rule('ANF-BLOCKS', 'pending statements flushed before the statement; '
           'none crosses a block', floor=4)
  rep.rule('ANF-CLASSES', 'class tables name live grammar classes', floor=2)
  rep.rule('ANF-GENSYM', 'fresh, increasing temporaries', floor=1)

  def returns_helper(h, helper):
    rets = [r for r in ast.walk(h.node) if isinstance(r, ast.Return)]
    return bool(rets) and all(
        isinstance(r.value, ast.Call) and core.norm(r.value.func) == 'self.' + helper
        and core.norm(r.value.args[0]) == h.params()[0] for r in rets)

  def raises_always(h):
    g = pycfg.CFG(h.node)
    return g.exit not in g.reachable(skip_labels=('exc',))

  # ---------------------------------------------------------------- ANF-LAZY
  for kind, why in LAZY.items():
    h = cls.methods.get('visit_' + kind)
    site = '%s:AnfTransformer:lazy(%s)' % (ANF, kind)
    if h is None:
      rep.violation('ANF-LAZY', site,
                    '%s (%s) has no handler: its operands would be hoisted and '
                    'evaluated unconditionally' % (kind, why),
                    witness='flag and f(g(x)) / a if c else f(b)')
      continue
    ok = returns_helper(h, '_visit_trivial_only_expression') or returns_helper(
        h, '_visit_trivial_only_statement') or raises_always(h)
    rep.check(ok, 'ANF-LAZY', site,
              'visit_%s must accept the construct only when nothing had to be '
              'extracted from it (or reject it): %s' % (kind, why),
              {'body': core.norm(h.node)[:160]}, line=h.node.lineno,
              witness='a side-effecting call inside the lazy operand')
  def raise_formula(fn_node):
    """(condition under which fn_node raises, its raise statements)"""
    rs = [x for x in core.walk_no_nested(fn_node) if isinstance(x, ast.Raise)]
    f = formula.FALSE
    for x in rs:
      f = f | formula.condition_formula(fn_node, x, lambda e: core.norm(e))
    return f, rs

  def cfg_index(g, stmt):
    for i, (k, a) in enumerate(g.nodes):
      if a is stmt:
        return i
    return None

  cmp_h = cls.methods.get('visit_Compare')
  ok = False
  if cmp_h is not None:
    f, rs = raise_formula(cmp_h.node)
    p_ = cmp_h.params()[0]
    ok = bool(rs) and any(
        formula.equivalent(f, ~formula.atom('len(%s.%s) <= 1' % (p_, fld)))[0]
        for fld in ('ops', 'comparators'))
  rep.check(ok, 'ANF-LAZY', '%s:AnfTransformer:lazy(Compare-chain)' % ANF,
            'chained comparisons short-circuit and must be rejected',
            line=cmp_h.node.lineno if cmp_h else None)
  wh = cls.methods.get('visit_While')
  ok = False
  if wh is not None:
    g = pycfg.CFG(wh.node)
    ens = [i for i in range(len(g.nodes)) if any(
        core.norm(c.func) == 'self._ensure_node_in_anf' for c in pycfg.calls_at(g, i))]
    f, rs = raise_formula(wh.node)
    ri = [cfg_index(g, x) for x in rs]
    # the list that is tested must still hold what naming the test produced:
    # nothing between the naming and the rejection may have drained it
    drains = [i for i in range(len(g.nodes)) if any(
        core.norm(c.func) == 'self._consume_pending_statements'
        for c in pycfg.calls_at(g, i))]
    if ens and rs and None not in ri:
      dom = g.dominators(skip_labels=('exc',))
      ok = all(ens[0] in dom[i] for i in ri) and formula.equivalent(
          f, formula.atom('self._pending_statements'))[0] and not any(
              d in dom[i] for d in drains for i in ri)
  rep.check(ok, 'ANF-LAZY', '%s:AnfTransformer:lazy(While.test)' % ANF,
            'a while test is re-evaluated on every iteration: it must be '
            'rejected when naming it produced statements', line=wh.node.lineno
            if wh else None, witness='while f(g(x)): ...')
  for hname in ('_visit_trivial_only_expression', '_visit_trivial_only_statement'):
    h = cls.methods.get(hname)
    if h is None:
      raise core.AnalysisError('%s not found' % hname)
    # (private helpers expanded: the visit and the naming may sit in a helper)
    hv = h.view(keep=('_ensure_fields_in_anf', '_ensure_node_in_anf'))
    g = pycfg.CFG(hv)
    gv = [i for i in range(len(g.nodes)) if any(
        core.norm(c.func) == 'self.generic_visit' for c in pycfg.calls_at(g, i))]
    ens = [i for i in range(len(g.nodes)) if any(
        core.norm(c.func) == 'self._ensure_fields_in_anf' for c in pycfg.calls_at(g, i))]
    f, rs = raise_formula(hv)
    ri = [cfg_index(g, x) for x in rs]
    ok = len(gv) == 1 and len(ens) == 1 and bool(rs) and None not in ri
    facts = {}
    if ok:
      dom = g.dominators(skip_labels=('exc',))
      ok = all(gv[0] in dom[i] and ens[0] in dom[i] for i in ri)
      facts['raises_when'] = repr(f)
      if hname.endswith('expression'):
        # count taken before the visit
        cnt = [i for i, (k, a) in enumerate(g.nodes) if isinstance(a, ast.Assign)
               and core.norm(a.value) == 'len(self._pending_statements)']
        if len(cnt) == 1 and cnt[0] in dom[gv[0]]:
          k_ = core.norm(g.nodes[cnt[0]][1].targets[0])
          ok = ok and any(formula.equivalent(f, ~formula.atom(t_))[0] for t_ in (
              'len(self._pending_statements) == %s' % k_,
              '%s == len(self._pending_statements)' % k_,
              'len(self._pending_statements) <= %s' % k_))   # the list only grows
        else:
          ok = False
      else:
        asserts = [a for a in hv.body if isinstance(a, ast.Assert)]
        ok = ok and bool(asserts) and formula.equivalent(
            f, formula.atom('self._pending_statements'))[0]
    rep.check(ok, 'ANF-LAZY', '%s:%s:detects-extraction' % (ANF, hname),
              'the helper must compare the number of pending statements after '
              'visiting and naming with the number taken *before* the visit, '
              'and raise when it grew', facts, line=h.node.lineno,
              witness='config naming only nested calls: flag and f(g(x))')

  # ---------------------------------------------------------------- ANF-ORDER
  # batch algorithm: generic_visit(node) followed by _ensure_fields_in_anf(node)
  batch = []
  for name, h in cls.methods.items():
    calls = [core.norm(c.func) for c in ast.walk(h.node) if isinstance(c, ast.Call)]
    if 'self.generic_visit' in calls and 'self._ensure_fields_in_anf' in calls:
      batch.append(name)
  rep.check(not batch, 'ANF-ORDER', '%s:AnfTransformer:batch-visit-then-name' % ANF,
            'all children of a node are visited (hoisting their nested '
            'operations) before any child is named: an operation nested in a '
            'later operand runs before an earlier sibling operand',
            {'helpers': sorted(batch)}, line=cls.node.lineno,
            witness="f(a(), b(c())): original order f,a,b,c; transformed a,c,b,f")
  for kind, order in EVAL_ORDER.items():
    h = cls.methods.get('visit_' + kind)
    site = '%s:AnfTransformer:order(%s)' % (ANF, kind)
    fields = [f for f, t, q in asdl.fields(kind) if t not in asdl.PRIM and
              t not in ('expr_context', 'operator', 'unaryop', 'cmpop', 'boolop')]
    explicit = _explicit_order(h) if h is not None else []
    if order == 'PAIRWISE(keys,values)':
      ok = explicit == ['PAIRWISE']
      rep.check(ok, 'ANF-ORDER', site,
                'a dict display evaluates key1, value1, key2, value2 ...; the '
                'transformer names all keys before all values',
                {'fields': fields, 'explicit': explicit}, line=h.node.lineno if h
                else cls.node.lineno,
                witness='{t(1): t(2), t(3): t(4)}: 1,2,3,4 becomes 1,3,2,4')
      continue
    got = explicit + [f for f in fields if f not in explicit]
    want = [f for f in order if f in got]
    got_rel = [f for f in got if f in order]
    rep.check(got_rel == want, 'ANF-ORDER', site,
              'fields of %s are visited in the order %s; Python evaluates %s' %
              (kind, got_rel, want), {'explicit_in_handler': explicit,
                                      'grammar_order': fields},
              line=h.node.lineno if h else cls.node.lineno,
              witness={'Assign': "a[t('i')] = t('v'): v,i becomes i,v",
                       'Subscript': 'f()[g()]: base,index becomes index,base'}.get(
                           kind, 'side-effecting calls in both operands of %s' % kind))

  # ---------------------------------------------------------------- ANF-TRAV
  T = trav.HandlerTraversal(model, cls)
  K = set(asdl.EXPR_KINDS)
  for P in sorted(asdl.FIELDS):
    h = cls.methods.get('visit_' + P)
    if h is None or P in ('AsyncFor', 'AsyncWith', 'Await'):
      continue
    need = [(f, t, q) for (f, t, q) in asdl.fields(P)
            if asdl.can_derive(t, K) and f not in ('type_params', 'decorator_list',
                                                    'returns', 'annotation')]
    if not need:
      continue
    if raises_always(h):
      continue
    exits = T.analyse(h)
    for ex in exits:
      miss = [f for (f, t, q) in need if not trav.covered(P, f, t, q, K, ex.paths)]
      rep.check(not miss, 'ANF-TRAV', '%s:AnfTransformer:visit_%s%s' % (
          ANF, P, ':exit@%s' % ' & '.join('%s[%s]' % g_ for g_ in ex.guards)
          if ex.guards else ''),
                'visit_%s can finish without visiting %s: expressions there are '
                'left un-named' % (P, miss), {'visited': sorted(ex.paths)},
                line=ex.line or h.node.lineno,
                witness='a non-trivial expression in %s.%s' % (P, miss[0] if miss
                                                               else ''))

  # ---------------------------------------------------------------- ANF-BLOCKS
  for hname in ('visit_If', 'visit_For', 'visit_With'):
    h = cls.methods.get(hname)
    if h is None:
      raise core.AnalysisError('%s not found' % hname)
    g = pycfg.CFG(h.node)
    consume = [i for i in range(len(g.nodes)) if any(
        core.norm(c.func) == 'self._consume_pending_statements'
        for c in pycfg.calls_at(g, i))]
    gv = [i for i in range(len(g.nodes)) if any(
        core.norm(c.func) == 'self.generic_visit' for c in pycfg.calls_at(g, i))]
    asserts = [i for i, (k, a) in enumerate(g.nodes) if isinstance(a, ast.Assert) and
               core.norm(a.test) == 'not self._pending_statements']
    ok = len(consume) == 1 and len(gv) == 1 and len(asserts) >= 2
    if ok:
      dom = g.dominators(skip_labels=('exc',))
      ok = consume[0] in dom[gv[0]] and any(gv[0] in dom[a] for a in asserts)
      rets = g.nodes_where(lambda k, a: k == 'return')
      stmts_var = core.norm(g.nodes[consume[0]][1].targets[0]) if isinstance(
          g.nodes[consume[0]][1], ast.Assign) else None
      appended = stmts_var is not None and any(
          core.norm(c.func) == stmts_var + '.append'
          for i in range(len(g.nodes)) for c in pycfg.calls_at(g, i))

      def flushed_first(v):
        # the extracted statements, then the statement itself: the list after
        # `.append(node)`, or `stmts + [node]`
        if core.norm(v) == stmts_var:
          return appended
        return isinstance(v, ast.BinOp) and isinstance(v.op, ast.Add) and \
            core.norm(v.left) == stmts_var and isinstance(v.right, ast.List) and \
            len(v.right.elts) == 1 and isinstance(v.right.elts[0], ast.Name)
      ok = ok and stmts_var is not None and bool(rets) and all(
          g.nodes[r][1].value is not None and flushed_first(g.nodes[r][1].value)
          for r in rets)
    rep.check(ok, 'ANF-BLOCKS', '%s:AnfTransformer:%s' % (ANF, hname),
              '%s must flush the statements extracted from its header '
              'expression in front of itself before visiting its blocks, and '
              'nothing may be pending after the blocks' % hname, {},
              line=h.node.lineno,
              witness='if f(g(x)): h(k(y)) -- the inner temporaries of the body '
              'must stay inside the body')
  ss = cls.methods.get('_visit_strict_statement')
  ok = ss is not None
  if ok:
    prm = ss.params()[0]
    body = [x for x in ss.node.body if not (isinstance(x, ast.Expr) and
                                            isinstance(x.value, ast.Constant))]
    b = pat.seq(body, ['assert not self._pending_statements',
                       '_R_ = self._consume_pending_statements()',
                       '_R_.append(%s)' % prm, 'return _R_'])
    if b is None:
      # the same list as one expression: [*consume(), node] / consume() + [node]
      rets_ = [r for r in ast.walk(ss.node) if isinstance(r, ast.Return)]
      if len(rets_) == 1 and rets_[0] is body[-1] and rets_[0].value is not None:
        v = tpl.expand(ss, rets_[0].value, rets_[0])
        cons = 'self._consume_pending_statements()'
        if isinstance(v, ast.List) and len(v.elts) == 2 and isinstance(
            v.elts[0], ast.Starred) and core.norm(v.elts[0].value) == cons and \
            core.norm(v.elts[1]) == prm:
          b = {}
        elif isinstance(v, ast.BinOp) and isinstance(v.op, ast.Add) and \
            core.norm(v.left) == cons and core.norm(v.right) == '[%s]' % prm:
          b = {}
    ok = b is not None and core.norm(body[0]) == 'assert not self._pending_statements'
  rep.check(ok, 'ANF-BLOCKS', '%s:AnfTransformer:_visit_strict_statement' % ANF,
            'a simple statement is replaced by its extracted statements '
            'followed by itself', line=ss.node.lineno if ss else None)

  # ---------------------------------------------------------------- ANF-TARGET
  # a binding or deletion target is not a value: the step that replaces a node
  # by a fresh variable is reached only for nodes whose ctx is not Store / Del
  rep.rule('ANF-TARGET', 'nodes in Store / Del context are never replaced by a '
           'temporary', floor=1)
  en_ = cls.methods.get('_ensure_node_in_anf')
  if en_ is None:
    raise core.AnalysisError('_ensure_node_in_anf not found')
  env_ = en_.view(keep=('_do_transform_node', '_ensure_fields_in_anf', '_should_transform'))
  np_ = en_.params()[2] if len(en_.params()) > 2 else en_.params()[-1]
  env_fi = core.FuncInfo(en_.module, env_, cls=en_.cls)
  repl = [c for c in ast.walk(env_) if isinstance(c, ast.Call) and core.norm(c.func) ==
          'self._do_transform_node']
  okt = bool(repl)
  facts_t = []
  for c in repl:
    arg = core.norm(c.args[0]) if c.args else None
    ctx_forms = ("getattr(%s, 'ctx', None)" % arg, '%s.ctx' % arg)
    guarded = False
    excluded = set()
    flat = []
    for pol, tst in formula.path_condition(env_, c):
      # a false disjunction makes every disjunct false, a true conjunction every
      # conjunct true
      if isinstance(tst, ast.BoolOp) and ((pol == 'F' and isinstance(tst.op, ast.Or)) or
                                          (pol == 'T' and isinstance(tst.op, ast.And))):
        flat.extend((pol, v_) for v_ in tst.values)
      else:
        flat.append((pol, tst))
    for pol, tst in flat:
      if pol == 'C' or not (isinstance(tst, ast.Call) and core.dotted(tst.func) ==
                            'isinstance' and len(tst.args) == 2):
        continue
      if core.norm(tst.args[0]) not in ctx_forms and tpl.xnorm(
          env_fi, tst.args[0], tst) not in ctx_forms:
        continue
      kinds = {core.dotted(k).split('.')[-1] for k in (
          tst.args[1].elts if isinstance(tst.args[1], ast.Tuple) else [tst.args[1]])}
      if pol == 'F':
        excluded |= kinds
      if (pol == 'F' and {'Store', 'Del'} <= excluded) or (pol == 'T' and kinds == {'Load'}):
        guarded = True
    facts_t.append({'replaces': arg, 'guarded_by_ctx': guarded})
    okt = okt and guarded
  rep.check(okt, 'ANF-TARGET', '%s:targets-kept' % en_.site,
            'a node in Store or Del context (the target of `with .. as`, an element '
            'of a deleted or assigned tuple) can be replaced by a temporary: the '
            'statement then reads the target and binds / deletes the temporary',
            {'replacements': facts_t}, line=en_.node.lineno,
            witness='with cm() as obj.attr: ...   /   del (a[i()], b[j()])')

  # a slice, and a tuple that holds one (the extended slice a[i:j, k]), can only
  # stand inside the subscript: neither reaches the replacement step
  oks = bool(repl)
  facts_s = []
  for c in repl:
    arg = core.norm(c.args[0]) if c.args else None
    slice_out = ext_out = False
    flat_f = []
    for pol, tst in formula.path_condition(env_, c):
      if pol == 'F' and isinstance(tst, ast.BoolOp) and isinstance(tst.op, ast.Or):
        flat_f.extend(tst.values)
      elif pol == 'F':
        flat_f.append(tst)
    for tst in flat_f:
      pol = 'F'
      # (a false disjunction makes every disjunct false)
      for t_ in (tst.values if isinstance(tst, ast.BoolOp) and isinstance(
          tst.op, ast.Or) else [tst]):
        if isinstance(t_, ast.Call) and core.dotted(t_.func) == 'isinstance' and \
            len(t_.args) == 2 and core.norm(t_.args[0]) == arg:
          ks = {core.dotted(k).split('.')[-1] for k in (
              t_.args[1].elts if isinstance(t_.args[1], ast.Tuple) else [t_.args[1]])}
          if 'Slice' in ks:
            slice_out = True
      # isinstance(arg, ast.Tuple) and any(isinstance(e, ast.Slice) for e in arg.elts)
      conj = tst.values if isinstance(tst, ast.BoolOp) and isinstance(
          tst.op, ast.And) else [tst]
      is_tuple = any(core.norm(v_) in ('isinstance(%s, ast.Tuple)' % arg,
                                       'isinstance(%s, (ast.Tuple,))' % arg) for v_ in conj)
      holds = False
      for v_ in conj:
        if isinstance(v_, ast.Call) and core.dotted(v_.func) == 'any' and len(
            v_.args) == 1 and isinstance(v_.args[0], (ast.GeneratorExp, ast.ListComp)):
          ge = v_.args[0]
          if len(ge.generators) == 1 and not ge.generators[0].ifs and core.norm(
              ge.generators[0].iter) == arg + '.elts' and isinstance(
                  ge.generators[0].target, ast.Name) and core.norm(ge.elt) == \
              'isinstance(%s, ast.Slice)' % ge.generators[0].target.id:
            holds = True
      # without the tuple test the elts attribute would be read on every node:
      # only the conjunction (tuple first) is a total test
      if holds and is_tuple and len(conj) == 2 and core.norm(conj[0]).startswith(
          'isinstance('):
        ext_out = True
    facts_s.append({'replaces': arg, 'slice_excluded': slice_out,
                    'tuple_holding_slice_excluded': ext_out})
    oks = oks and slice_out and ext_out
  rep.check(oks, 'ANF-TARGET', '%s:slices-kept' % en_.site,
            'a slice, or a tuple holding a slice (extended slice), can be replaced '
            'by a temporary: `tmp = (i:j, k)` is not an expression -- the output '
            'does not compile', {'replacements': facts_s}, line=en_.node.lineno,
            witness='a[g(b):c, h(c)]')

  # each with-item is named from itself: the element handed to the naming step
  # is the variable of the loop / comprehension that runs over node.items
  vw = cls.methods.get('visit_With')
  okw = vw is not None
  n_items = 0
  if okw:
    wp = vw.params()[0]
    for c_ in ast.walk(vw.node):
      if isinstance(c_, ast.Call) and core.norm(c_.func) == 'self._ensure_node_in_anf' \
          and len(c_.args) == 3 and core.norm(c_.args[1]) == "'items'":
        n_items += 1
        x_ = c_.args[2]
        owner = None
        for l_ in ast.walk(vw.node):
          gens = l_.generators if isinstance(l_, (ast.ListComp, ast.GeneratorExp)) else (
              [l_] if isinstance(l_, ast.For) else [])
          for g_ in gens:
            inside = any(y is c_ for y in ast.walk(l_.elt if not isinstance(l_, ast.For)
                                                   else ast.Module(body=l_.body,
                                                                   type_ignores=[])))
            if inside and tpl.xnorm(vw, g_.iter, g_.iter) == wp + '.items':
              owner = core.norm(g_.target)
        okw = okw and owner is not None and core.norm(x_) == owner
  rep.check(okw and n_items >= 1, 'ANF-BLOCKS', '%s:AnfTransformer:visit_With:each-item-from-itself' % ANF,
            'every with-item must be replaced by the named form of *itself*: the '
            'element handed to the naming step is the variable of the loop over '
            'node.items (a variable left over from an earlier loop is the last item)',
            line=vw.node.lineno if vw else None,
            witness='with a as p, b as q:  ->  with b as q, b as q:')

  # ---------------------------------------------------------------- ANF-CLASSES
  m = model.module(ANF)
  dead = fieldtypes.dead_class_refs(m)
  rep.check(not dead, 'ANF-CLASSES', '%s:no-dead-classes' % ANF,
            'class tables reference grammar classes that are never instantiated '
            'by this interpreter: %s' % sorted({d.attr for d in dead}),
            {'lines': [d.lineno for d in dead]},
            witness='x[a + 1:b] -> tmp = a + 1:b')
  # the edge (parent, field) reported to the configuration is computed afresh for
  # every field: nothing assigned in one iteration of the field loop is read in
  # a later one
  ef = cls.methods.get('_ensure_fields_in_anf')
  if ef is None:
    raise core.AnalysisError('_ensure_fields_in_anf not found')
  floops = [l for l in ast.walk(ef.node) if isinstance(l, ast.For) and
            core.norm(l.iter).endswith('._fields')]
  carried = []
  okf = len(floops) == 1
  if okf:
    lp = floops[0]
    assigned = {}
    for st in ast.walk(lp):
      if isinstance(st, ast.Assign):
        for t in st.targets:
          if isinstance(t, ast.Name):
            assigned.setdefault(t.id, []).append(st)
    # one iteration as a function whose parameters are everything that exists
    # at its start: a name assigned in the body whose *entry* value can still
    # reach the call is carried over from the previous iteration
    import copy as _copy
    fargs = _copy.deepcopy(ef.node.args)
    have = {a.arg for a in fargs.args}
    for nm in sorted(set(assigned) | {x.id for x in ast.walk(lp.target)
                                      if isinstance(x, ast.Name)}):
      if nm not in have:
        fargs.args.append(ast.arg(arg=nm, annotation=None))
    fake = ast.fix_missing_locations(ast.FunctionDef(
        name='_iteration', args=fargs, body=lp.body, decorator_list=[], lineno=lp.lineno,
        col_offset=0))
    rd = tpl.rdefs(fake)
    calls_ = [c for c in ast.walk(lp) if isinstance(c, ast.Call) and core.norm(
        c.func) == 'self._ensure_node_in_anf']
    for c in calls_:
      for a in c.args[:2]:
        for x in ast.walk(a):
          if isinstance(x, ast.Name) and x.id in assigned:
            ds = rd.reaching(x, x.id) or []
            if any(isinstance(d, tuple) and d[0] == 'param' for d in ds):
              carried.append(x.id)
    call = [c for c in ast.walk(lp) if isinstance(c, ast.Call) and core.norm(
        c.func) == 'self._ensure_node_in_anf']
    okf = len(call) == 1 and not any(
        isinstance(x, ast.Name) and x.id in carried for a in call[0].args[:2]
        for x in ast.walk(a))
  rep.check(okf, 'ANF-TRAV', '%s:edge-per-field' % ef.site,
            'the field name handed to the configuration must be that of the '
            'field being processed (or the incoming super_field): a value set '
            'while processing one field and reused for the next reports every '
            'later operand under the first field\'s name', {'loop_carried': sorted(set(carried))},
            line=ef.node.lineno,
            witness="a configuration naming (ast.Call, 'args', ...) or (ast.BinOp, 'right', ...)")
  en = cls.methods.get('_ensure_node_in_anf')
  # kinds under whose isinstance test the fields are named in place of the node
  # (one tuple test or several single tests joined by `or`)
  passthrough = set()
  for c_ in ast.walk(en.node):
    if isinstance(c_, ast.Call) and core.norm(c_.func) == 'self._ensure_fields_in_anf' \
        and len(c_.args) == 3:
      for pol, tst in formula.path_condition(en.node, c_):
        if pol != 'T':
          continue
        for t in ast.walk(tst):
          if isinstance(t, ast.Call) and core.dotted(t.func) == 'isinstance' and \
              len(t.args) == 2:
            ks = t.args[1].elts if isinstance(t.args[1], ast.Tuple) else [t.args[1]]
            passthrough |= {(core.dotted(e) or '?').split('.')[-1] for e in ks}
  rep.check({'Starred', 'withitem', 'Slice'} <= passthrough, 'ANF-CLASSES',
            '%s:pass-through-kinds' % en.site,
            'Starred, withitem and Slice are not expressions on their own: they '
            'must be passed through to their children', {'table': sorted(passthrough)},
            line=en.node.lineno, witness='x[a + 1:b], f(*g(y)), with h() as z')

  # the edge reported for a child reached through a non-expression wrapper
  # (keyword, Starred, withitem, Slice) is the enclosing (parent, field): the
  # recursive calls taken for those kinds hand both on
  ep_ = en.params()
  lost = []
  n_prop = 0
  if len(ep_) >= 3:
    pp_, pf_, pn_ = ep_[0], ep_[1], ep_[2]
    for c_ in ast.walk(en.node):
      if not (isinstance(c_, ast.Call) and core.norm(c_.func) in (
          'self._ensure_node_in_anf', 'self._ensure_fields_in_anf')):
        continue
      wrappers = set()
      for pol, tst in formula.path_condition(en.node, c_):
        if pol != 'T':
          continue
        for t in ast.walk(tst):
          if isinstance(t, ast.Call) and core.dotted(t.func) == 'isinstance' and \
              len(t.args) == 2 and core.norm(t.args[0]) == pn_:
            ks = t.args[1].elts if isinstance(t.args[1], ast.Tuple) else [t.args[1]]
            wrappers |= {(core.dotted(e) or '?').split('.')[-1] for e in ks}
      # (Tuple: the tuple of an extended slice is passed through like a slice)
      if not wrappers or not wrappers <= {'keyword', 'Starred', 'withitem', 'Slice', 'Tuple'}:
        continue
      n_prop += 1
      callee = cls.methods.get(core.norm(c_.func)[5:])
      from sa import inline as _inl
      b_ = _inl._bind(callee.node, c_, True) if callee is not None else None
      if b_ is None:
        lost.append(core.norm(c_))
        continue
      vals = {k_: core.norm(v_) for k_, v_ in b_.items()}
      cps = callee.params()
      want_p = vals.get('parent')
      want_f = vals.get('field') if 'field' in vals else vals.get('super_field')
      if want_p != pp_ or want_f != pf_:
        lost.append(core.norm(c_))
  rep.check(n_prop >= 2 and not lost, 'ANF-CLASSES', '%s:wrapper-keeps-edge' % en.site,
            'children of keyword / Starred / withitem / Slice nodes are operands of '
            'the enclosing node: the (parent, field) edge handed to the configuration '
            'must be the enclosing one, not (wrapper, its field)',
            {'calls_without_edge': lost, 'wrapper_calls': n_prop}, line=en.node.lineno,
            witness="a configuration naming (ast.Call, 'keywords', ...): f(key=g(x))")

  # ---------------------------------------------------------------- ANF-GENSYM
  gs = model.func(ANF, 'DummyGensym.new_name')
  g = pycfg.CFG(gs.node)
  inc = [i for i, (k, a) in enumerate(g.nodes) if isinstance(a, ast.AugAssign) and
         isinstance(a.target, ast.Attribute) and core.norm(a.target.value) == 'self'
         and isinstance(a.op, ast.Add)]
  rets = g.nodes_where(lambda k, a: k == 'return')
  ok = len(inc) == 1 and bool(rets)
  if ok:
    ctr = core.norm(g.nodes[inc[0]][1].target)
    dom = g.dominators(skip_labels=('exc',))
    # (the returned name may be assembled through locals; every definition of
    # such a local that reaches the return comes after the increment as well)
    def uses_ctr(r):
      v = g.nodes[r][1].value
      if ctr in core.norm(v):
        return True
      for nm in [x for x in ast.walk(v) if isinstance(x, ast.Name)]:
        for i2, (k2, a2) in enumerate(g.nodes):
          if isinstance(a2, ast.Assign) and len(a2.targets) == 1 and core.norm(
              a2.targets[0]) == nm.id and ctr in core.norm(a2.value) and \
              inc[0] in dom[i2] and i2 in dom[r]:
            return True
      return False
    ok = all(inc[0] in dom[r] and uses_ctr(r) for r in rets)
  elif rets and any(isinstance(a, ast.Assign) and isinstance(a.targets[0], ast.Attribute)
                    and core.norm(a.targets[0].value) == 'self' and tpl.xnorm(gs, a.value, a) in (
                        core.norm(a.targets[0]) + ' + 1', '1 + ' + core.norm(a.targets[0]))
                    for k, a in g.nodes):
    # the increment spelled as read / add / store: `n = self.c + 1; self.c = n`
    st = [i for i, (k, a) in enumerate(g.nodes) if isinstance(a, ast.Assign) and isinstance(
        a.targets[0], ast.Attribute) and core.norm(a.targets[0].value) == 'self' and
          tpl.xnorm(gs, a.value, a) in (core.norm(a.targets[0]) + ' + 1',
                                        '1 + ' + core.norm(a.targets[0]))]
    ctr = core.norm(g.nodes[st[0]][1].targets[0])
    dom = g.dominators(skip_labels=('exc',))
    ok = len(st) == 1 and all(
        st[0] in dom[r] and (ctr + ' + 1' in tpl.xnorm(gs, g.nodes[r][1].value, g.nodes[r][1])
                             or ctr in core.norm(g.nodes[r][1].value)) for r in rets)
  elif rets:
    # a counter object: every returned name contains the value of one
    # next(self.<c>) call, <c> being an itertools.count set up in __init__
    gcls = model.cls(ANF, 'DummyGensym')
    init = gcls.methods.get('__init__')
    counters = {core.norm(a.targets[0]) for a in ast.walk(init.node)
                if isinstance(a, ast.Assign) and isinstance(a.value, ast.Call) and
                core.dotted(a.value.func) in ('itertools.count', 'count')} if init else set()
    ok = bool(counters)
    for r in rets:
      rv = tpl.expand(gs, g.nodes[r][1].value, g.nodes[r][1])
      nx = [c for c in ast.walk(rv) if isinstance(c, ast.Call) and core.dotted(c.func)
            == 'next' and len(c.args) == 1 and core.norm(c.args[0]) in counters]
      ok = ok and len(nx) == 1
  rep.check(ok, 'ANF-GENSYM', '%s:increment-before-use' % gs.site,
            'every new temporary must use an index that was incremented first',
            line=gs.node.lineno, witness='two temporaries in one statement')

  # configuration patterns select edges by *equal* field name
  mt = model.func(ANF, 'ASTEdgePattern.matches')
  mp = mt.params()
  cmpf = [c for c in ast.walk(mt.node) if isinstance(c, ast.Compare) and len(c.ops) == 1
          and {core.norm(c.left), core.norm(c.comparators[0])} == {mp[1], 'self.field'}]
  rep.check(len(cmpf) == 1 and isinstance(cmpf[0].ops[0], ast.Eq), 'ANF-CLASSES',
            '%s:field-by-equality' % mt.site,
            'an edge pattern must compare the field name for equality: containment '
            'also matches every field whose name is a substring (\'value\' in '
            '\'values\') and hoists positions the configuration never asked for',
            {'comparison': [core.norm(c) for c in cmpf]}, line=mt.node.lineno,
            witness="a pattern for 'values' also replacing Attribute.value")

  # a pattern matches an edge exactly when all three slots match (ANY matches
  # anything): the method's result as a boolean formula over the six tests
  mpar = mt.params()

  def slot_atom(e):
    t = core.norm(e)
    table = {}
    for slot, arg in zip(('parent', 'field', 'child'), mpar):
      table['self.%s is ANY' % slot] = slot[0].upper() + '_ANY'
      table['ANY is self.%s' % slot] = slot[0].upper() + '_ANY'
      if slot == 'field':
        table['%s == self.field' % arg] = 'F_EQ'
        table['self.field == %s' % arg] = 'F_EQ'
      else:
        table['isinstance(%s, self.%s)' % (arg, slot)] = slot[0].upper() + '_ISA'
    return table.get(t)
  A = formula.atom
  want_m = (A('P_ANY') | A('P_ISA')) & (A('F_ANY') | A('F_EQ')) & (A('C_ANY') | A('C_ISA'))
  try:
    got_m = formula.result_formula(mt.node, formula.expanding(mt.node, slot_atom))
    okm, cexm = formula.equivalent(got_m, want_m)
    opaque_m = sorted(a for a in got_m.atoms if a.startswith('OPAQUE['))
  except core.AnalysisError as e_:
    okm, cexm, opaque_m = False, str(e_), []
  rep.check(okm and not opaque_m, 'ANF-CLASSES', '%s:all-three-slots' % mt.site,
            'a pattern matches an edge when the parent type, the field name and the '
            'child type all match (ANY matches anything): the result must be that '
            'conjunction', {'counterexample': cexm, 'unread_tests': opaque_m},
            line=mt.node.lineno,
            witness="(ast.If, 'test', ANY) must not match While.test")

  # ---------------------------------------------------------------- dependencies
  rep.depends('C17', ['TREE-COPY'],
              'every hoisted `tmp = expr` is built by templates.replace, which '
              'copies expr with copy_clean')


def _branch_raises(g, test, label):
  for b, l in g.succ[test]:
    if l == label:
      return g.exit not in g.reachable(b, skip_labels=('exc',))
  return False


def _explicit_order(h):
  """Fields of `node` in the order the handler first visits / names them."""
  if h is None:
    return []
  prm = h.params()[0]
  seen = []
  events = []
  for c in ast.walk(h.node):
    if isinstance(c, ast.Call) and core.norm(c.func) in (
        'self.visit', 'self._ensure_node_in_anf', 'self.visit_block'):
      for a in c.args:
        if isinstance(a, ast.Attribute) and core.norm(a.value) == prm:
          events.append((c.lineno, c.col_offset, a.attr))
    if isinstance(c, ast.For) and isinstance(c.iter, ast.Attribute) and \
        core.norm(c.iter.value) == prm:
      events.append((c.lineno, c.col_offset, c.iter.attr))
    if isinstance(c, ast.For) and isinstance(c.iter, ast.Call) and \
        core.dotted(c.iter.func) == 'zip' and all(
            isinstance(a, ast.Attribute) and core.norm(a.value) == prm
            for a in c.iter.args):
      events.append((c.lineno, c.col_offset, 'PAIRWISE'))
  for _, _, f in sorted(events):
    if f not in seen:
      seen.append(f)
  return seen
