"""C13 — call wrapper: transparent, obeys the conversion policy, falls back safely.

 CALL-ONCE      every normal path of converted_call performs exactly one target
                invocation action (unconverted call, fallback, recursion on a
                partial, builtin dispatch, execution of the converted function)
 CALL-FAITHFUL  actions forward the wrapper's own (f, args, kwargs); the
                unconverted call is f(*args, **kwargs) / f(*args); self is
                prepended under an identity test, never a truthiness test
 CALL-POLICY    conversion is dominated by the negation of every documented row;
                each row's positive branch cannot reach conversion; the category
                guards of is_unsupported / is_allowlisted / Rule.matches
 CALL-FALLBACK  conversion failures reach _fall_back_unconverted(f, args, kwargs,
                options, e), which warns and calls unconverted with caching on
 CALL-NODOUBLE  failures while *running* converted code never reach a fallback
 CALL-PARTIAL   stored positionals first; a fresh copy of stored keywords is
                updated with the call-site keywords
 CALL-OPTS      options default to caller_fn_scope.callopts
"""
import ast

from sa import core
from sa import formula
from sa import pycfg
from sa import tpl

API = 'malt/impl/api.py'
CONVN = 'malt/impl/conversion.py'
CFGLIB = 'malt/core/config_lib.py'

ROWS = [
    ('allowlist-cache', ['is_in_allowlist_cache']),
    ('disabled-context', ['Status.DISABLED']),
    ('artifact', ['is_autograph_artifact']),
    ('partial', ['functools.partial']),
    ('builtin', ['isbuiltin']),
    ('unsupported', ['is_unsupported']),
    ('non-recursive', ['internal_convert_user_code']),
    ('no-code-object', ["'__code__'"]),
    ('exec-defined', ["'<string>'"]),
]


def _callee(call, fi):
  """the called expression, a local that merely names it resolved"""
  f = call.func
  if fi is not None and isinstance(f, ast.Name):
    try:
      x = tpl.expand(fi, f, call)
    except Exception:
      x = f
    if isinstance(x, ast.Call) and core.dotted(x.func) == 'py_builtins.overload_of':
      return x
  return f


def _action_kind(call, fparams, fi=None):
  d = core.dotted(call.func)
  if isinstance(_callee(call, fi), ast.Call) and core.dotted(
      _callee(call, fi).func) == 'py_builtins.overload_of':
    return 'builtin'
  if d in ('_call_unconverted',):
    return 'unconverted'
  if d in ('_fall_back_unconverted',):
    return 'fallback'
  if d == 'converted_call':
    return 'recurse'
  if d and d.startswith('py_builtins.') and d.endswith('_in_original_context'):
    return 'builtin-ctx'
  if isinstance(call.func, ast.Call) and core.dotted(call.func.func) == \
      'py_builtins.overload_of':
    return 'builtin'
  if d == 'converted_f':
    return 'execute'
  return None


def _eval_str_pred(e, fi, value):
  """Evaluates a predicate over `node.attr` for one concrete attribute name:
  None tests, startswith / endswith with constants, and/or/not, and matches of
  a module-level compiled regular expression (the pattern is a constant of the
  source; it is run with the standard library's re, never the package)."""
  import re as _re
  attr = fi.params()[0] + '.attr'

  def val(x):
    if core.norm(x) == attr:
      return value
    raise ValueError
  try:
    if isinstance(e, ast.BoolOp):
      vs = [_eval_str_pred(v, fi, value) for v in e.values]
      if any(v is None for v in vs):
        return None
      return all(vs) if isinstance(e.op, ast.And) else any(vs)
    if isinstance(e, ast.UnaryOp) and isinstance(e.op, ast.Not):
      v = _eval_str_pred(e.operand, fi, value)
      return None if v is None else (not v)
    if isinstance(e, ast.Compare) and len(e.ops) == 1 and isinstance(
        e.ops[0], (ast.Is, ast.IsNot)) and isinstance(e.comparators[0], ast.Constant) \
        and e.comparators[0].value is None:
      val(e.left)
      return isinstance(e.ops[0], ast.IsNot)
    if isinstance(e, ast.Call) and isinstance(e.func, ast.Attribute):
      m = e.func.attr
      if m in ('startswith', 'endswith') and len(e.args) == 1 and isinstance(
          e.args[0], ast.Constant):
        return getattr(val(e.func.value), m)(e.args[0].value)
      if m in ('match', 'search', 'fullmatch') and len(e.args) == 1:
        pat = None
        if isinstance(e.func.value, ast.Name):
          c = fi.module.assigns.get(e.func.value.id)
          if isinstance(c, ast.Call) and core.dotted(c.func) == 're.compile' and \
              c.args and isinstance(c.args[0], ast.Constant):
            pat = c.args[0].value
          arg = e.args[0]
        elif core.norm(e.func.value) == 're' and False:
          pass
        if pat is not None:
          return getattr(_re.compile(pat), m)(val(arg)) is not None
      if core.norm(e.func.value) == 're' and m in ('match', 'search', 'fullmatch') and \
          len(e.args) == 2 and isinstance(e.args[0], ast.Constant):
        return getattr(_re, m)(e.args[0].value, val(e.args[1])) is not None
  except ValueError:
    return None
  return None



def check_effective_args(rep, cc, rule, site_suffix, fparam='f', aparam='args'):
  """What reaches the converted function as positional arguments, path by path
  (sa/pathsym): `args` when the target has no bound instance, `(instance,) +
  args` when it has one -- decided by an identity test against None --, and
  `(f,) + args` for callable objects."""
  from sa import pathsym
  S = "getattr(%s, '__self__', None)" % fparam
  inst_forms = ('(%s,) + %s' % (S, aparam), '(%s, *%s)' % (S, aparam))
  obj_forms = ('(%s,) + %s' % (fparam, aparam), '(%s, *%s)' % (fparam, aparam))
  sites = []
  for st in ast.walk(cc.node):
    if isinstance(st, (ast.Assign, ast.Expr, ast.Return)):
      for c in ast.walk(st):
        if isinstance(c, ast.Call) and isinstance(c.func, ast.Name) and \
            c.func.id == 'converted_f' and c.args and isinstance(c.args[0], ast.Starred):
          sites.append((st, c.args[0].value))
        # ... or handed to a helper that makes the call: h(converted_f, *args, ..)
        elif isinstance(c, ast.Call) and len(c.args) >= 2 and isinstance(
            c.args[0], ast.Name) and c.args[0].id == 'converted_f' and isinstance(
                c.args[1], ast.Starred):
          sites.append((st, c.args[1].value))
  if not sites:
    raise core.AnalysisError('converted_call: execution of the converted function not found')
  bad, seen = [], set()

  def leaf(v, conds):
    t = core.norm(v)
    pos = any((pol == 'T' and core.norm(c_) == S + ' is not None') or
              (pol == 'F' and core.norm(c_) == S + ' is None') for pol, c_ in conds)
    neg = any((pol == 'F' and core.norm(c_) == S + ' is not None') or
              (pol == 'T' and core.norm(c_) == S + ' is None') for pol, c_ in conds)
    if isinstance(v, ast.IfExp):
      tt = core.norm(v.test)
      if tt == S + ' is None':
        return leaf(v.body, conds + [('T', v.test)]) and leaf(v.orelse, conds + [('F', v.test)])
      if tt == S + ' is not None':
        return leaf(v.body, conds + [('T', v.test)]) and leaf(v.orelse, conds + [('F', v.test)])
      return False
    if t == aparam:
      return neg and not pos
    if t in inst_forms:
      return pos and not neg
    if t in obj_forms:
      return True
    return False
  for st, x in sites:
    for conds, v in pathsym.path_values(cc.node, st, x):
      key = (core.norm(v), tuple((p_, core.norm(t_)) for p_, t_ in conds
                                 if '__self__' in core.norm(t_)))
      if key in seen:
        continue
      seen.add(key)
      if not leaf(v, list(conds)):
        bad.append({'value': key[0][:80], 'under': [list(k) for k in key[1]]})
  n_shapes = sum(2 if ' if ' in k[0] else 1 for k in seen)
  rep.check(not bad and n_shapes >= 3, rule, '%s:%s' % (cc.site, site_suffix),
            'a bound method converts to a function taking the instance first: the '
            'converted function must receive (instance,) + args exactly when the '
            'instance is not None (identity test: a truthiness test drops falsy '
            'receivers), args otherwise, (f,) + args for callable objects',
            {'unexpected': bad[:3], 'shapes': len(seen)}, line=cc.node.lineno,
            witness='method of an object whose __len__/__bool__ is falsy')


def check(model, rep, tier):
  rep.not_decided = ('how exotic callables classify at run time (inspect '
                     'predicates are trusted); warning text')
  rep.touch(API, CONVN, CFGLIB)
  cc = model.func(API, 'converted_call')
  cu = model.func(API, '_call_unconverted')
  fb = model.func(API, '_fall_back_unconverted')
  rep.rule('CALL-ONCE', 'exactly one target invocation action on every normal '
           'path', floor=1)
  rep.rule('CALL-FAITHFUL', 'actions forward (f, args, kwargs) unchanged', floor=10)
  rep.rule('CALL-POLICY', 'documented policy rows dominate conversion', floor=12)
  rep.rule('CALL-FALLBACK', 'conversion failures fall back, cached, warned', floor=4)
  rep.rule('CALL-NODOUBLE', 'execution failures never fall back', floor=1)
  rep.rule('CALL-PARTIAL', 'partial merge order and freshness', floor=3)
  rep.rule('CALL-OPTS', 'options default from the caller scope', floor=1)

  g = pycfg.CFG(cc.node)
  fparams = cc.params()
  actions = {}   # cfg node -> list of (kind, call)
  for i in range(len(g.nodes)):
    for c in pycfg.calls_at(g, i):
      k = _action_kind(c, fparams, cc)
      if k:
        actions.setdefault(i, []).append((k, c))
  rep.unit('cfg nodes of converted_call', len(g.nodes))
  rep.unit('invocation actions', sum(len(v) for v in actions.values()))

  # ---------------------------------------------------------------- CALL-ONCE
  w = {i: len(v) for i, v in actions.items()}
  rng = g.count_range(w, skip_labels=())
  rep.check(rng == (1, 1), 'CALL-ONCE', '%s:paths' % cc.site,
            'some normal path of converted_call invokes the target %s times '
            '(min, max over paths); must be exactly once' % (rng,),
            {'min_max': rng, 'actions': sorted(
                '%s@%d' % (k, c.lineno) for v in actions.values() for k, c in v)},
            line=cc.node.lineno,
            witness='a callable taking the path without / with two invocations')

  # ---------------------------------------------------------------- CALL-FAITHFUL
  for i, v in actions.items():
    for k, c in v:
      site = '%s:%s(%s)' % (cc.site, k, core.norm(c)[:50] if k != 'recurse'
                            else 'converted_call(f.func, ...)')
      a = [core.norm(x) for x in c.args]
      if k in ('unconverted', 'fallback'):
        ok = a[:3] == ['f', 'args', 'kwargs'] and a[3:4] == ['options']
        rep.check(ok, 'CALL-FAITHFUL', site,
                  'the %s call must receive the wrapper\'s own f, args, kwargs' % k,
                  {'args': a}, line=c.lineno,
                  witness='a bound method: self would be prepended twice / the '
                  'wrong object cached')
      elif k == 'recurse':
        # (what the two merged arguments are is decided by CALL-PARTIAL)
        from sa import inline as _inl
        b_ = _inl._bind(cc.node, c, False) or {}
        kw = {k_: core.norm(v_) for k_, v_ in b_.items()}
        ps_ = cc.params()
        ok = kw.get(ps_[0]) == 'f.func' and all(
            isinstance(b_.get(p_), ast.Name) for p_ in ps_[1:3])
        ok = ok and kw.get('caller_fn_scope') == 'caller_fn_scope' and \
            kw.get('options') == 'options'
        rep.check(ok, 'CALL-FAITHFUL', site,
                  'recursion on a partial must pass f.func, the merged arguments, '
                  'the same scope and options', {'args': a, 'kw': kw}, line=c.lineno)
      elif k == 'execute':
        st = [x for x in c.args if isinstance(x, ast.Starred)]
        ok = len(c.args) == 1 and len(st) == 1 and core.norm(st[0].value) == \
            'effective_args'
        kws = [x for x in c.keywords if x.arg is None]
        if c.keywords:
          ok = ok and len(kws) == 1 and core.norm(kws[0].value) == 'kwargs'
        rep.check(ok, 'CALL-FAITHFUL', site,
                  'the converted function must be called with *effective_args '
                  '[, **kwargs]', {'args': a}, line=c.lineno)
      elif k == 'builtin':
        st = [core.norm(x.value) for x in c.args if isinstance(x, ast.Starred)]
        def kw_form(v):
          # kwargs, or kwargs with {} standing in for an empty / missing mapping
          v = tpl.expand(cc, v, c)
          empty = lambda e: isinstance(e, ast.Dict) and not e.keys
          if core.norm(v) == 'kwargs':
            return 'kwargs'
          if isinstance(v, ast.IfExp) and core.norm(v.test) == 'kwargs' and \
              core.norm(v.body) == 'kwargs' and empty(v.orelse):
            return 'kwargs'
          if isinstance(v, ast.BoolOp) and isinstance(v.op, ast.Or) and len(v.values) == 2 \
              and core.norm(v.values[0]) == 'kwargs' and empty(v.values[1]):
            return 'kwargs'
          return core.norm(v)
        kws = [kw_form(x.value) for x in c.keywords if x.arg is None]
        ok = st == ['args'] and kws in ([], ['kwargs']) and \
            core.norm(_callee(c, cc).args[0]) == 'f'
        rep.check(ok, 'CALL-FAITHFUL', site,
                  'builtin overload must be called with *args [, **kwargs]',
                  {'star': st, 'kw': kws}, line=c.lineno)
      elif k == 'builtin-ctx':
        ok = 'caller_fn_scope' in a and (a[0] in ('f', 'caller_fn_scope'))
        rep.check(ok, 'CALL-FAITHFUL', site,
                  'frame-sensitive builtin must receive the caller scope',
                  {'args': a}, line=c.lineno)
  # effective_args derivation (path-wise)
  check_effective_args(rep, cc, 'CALL-FAITHFUL', 'effective-args')
  from sa import rules_order
  rules_order.user_order(model, rep, 'CALL-FAITHFUL')
  # what is converted and what it is called with, per kind of callable
  # (path-wise symbolic values at the conversion call)
  from sa import pathsym
  conv_calls = [st for st in ast.walk(cc.node) if isinstance(st, ast.Assign) and isinstance(
      st.value, ast.Call) and core.dotted(st.value.func) == '_convert_actual']
  execs = [c for v_ in actions.values() for k_, c in v_ if k_ == 'execute']
  ok = len(conv_calls) == 1 and bool(execs) and isinstance(
      conv_calls[0].value.args[0], ast.Name)
  pairs_seen = []
  if ok:
    tname = conv_calls[0].value.args[0].id
    st_args = [a.value for a in execs[0].args if isinstance(a, ast.Starred)]
    ok = len(st_args) == 1 and isinstance(st_args[0], ast.Name)
  if ok:
    ename = st_args[0].id
    probe = ast.Tuple(elts=[ast.Name(id=tname, ctx=ast.Load()),
                            ast.Name(id=ename, ctx=ast.Load())], ctx=ast.Load())
    for conds, val in pathsym.path_values(cc.node, conv_calls[0], probe):
      ctexts = [(pol, core.norm(t)) for pol, t in conds]
      F, A = fparams[0], fparams[1]
      is_obj = any(pol == 'T' and ("hasattr(%s.__class__, '__call__')" % F) in t
                   for pol, t in ctexts)
      is_fn = any(pol == 'T' and ('inspect.isfunction(%s)' % F) in t for pol, t in ctexts)
      if not isinstance(val, ast.Tuple) or len(val.elts) != 2:
        ok = False
        continue
      tv, ev = core.norm(val.elts[0]), core.norm(val.elts[1])
      if is_obj and not is_fn:
        pairs_seen.append(('callable-object', tv, ev))
        # special-method lookup: type(f).__call__, with the object itself first
        if (tv, ev) not in (('%s.__class__.__call__' % F, '(%s,) + %s' % (F, A)),
                            ('type(%s).__call__' % F, '(%s,) + %s' % (F, A))):
          ok = False
      elif is_fn:
        pairs_seen.append(('function-or-method', tv, ev))
        S_ = "getattr(%s, '__self__', None)" % F
        inst_ = '(%s,) + %s' % (S_, A)
        if tv != F or ev not in (A, inst_,
                                 '%s if %s is None else %s' % (A, S_, inst_),
                                 '%s if %s is not None else %s' % (inst_, S_, A)):
          ok = False
  rep.check(ok, 'CALL-FAITHFUL', '%s:target-and-arguments' % cc.site,
            'a function / method is converted as it is (its __self__ prepended); '
            'a callable object is converted through the __call__ of its *class* '
            'with the object as first argument -- `obj.__call__` is an ordinary '
            'attribute lookup and finds instance attributes and metaclass '
            'methods that calling the object never uses',
            {'pairs': sorted(set(pairs_seen))[:6]}, line=cc.node.lineno,
            witness='an object with an instance attribute named __call__')
  # _call_unconverted body
  def kw_atom(e):
    t = core.norm(e)
    if t == 'kwargs is None':
      return 'KW_NONE'
    if t == 'kwargs':
      return 'KW_TRUTHY'
    return None
  KWN, KWT = formula.atom('KW_NONE'), formula.atom('KW_TRUTHY')
  shapes = []
  ok = True
  for f_, v in formula.return_cases(cu.node, formula.expanding(cu.node, kw_atom)):
    t = core.norm(v) if v is not None else None
    shapes.append((str(f_), t))
    if t == 'f(*args, **kwargs)':
      # only when kwargs is a mapping
      ok = ok and formula.implies(f_, ~KWN | KWT, assume=~(KWN & KWT))[0] and \
          not formula.satisfiable(f_ & KWN & ~KWT)
    elif t == 'f(*args)':
      # only when no keyword can be lost
      ok = ok and not formula.satisfiable(f_ & ~KWN & KWT) and (
          formula.implies(f_, KWN | ~KWT)[0])
    else:
      ok = False
  ok = ok and len(shapes) >= 2
  gk = None
  rep.check(ok, 'CALL-FAITHFUL', '%s:forwarding' % cu.site,
            '_call_unconverted must return f(*args, **kwargs) when kwargs is '
            'given and f(*args) otherwise', {'returns': shapes, 'guard': gk},
            line=cu.node.lineno, witness='kwargs None vs {} vs non-empty')
  gcu = pycfg.CFG(cu.node)
  wcu = {i: 1 for i in range(len(gcu.nodes)) if any(
      core.norm(c.func) == 'f' for c in pycfg.calls_at(gcu, i))}
  rng = gcu.count_range(wcu, skip_labels=())
  rep.check(rng == (1, 1), 'CALL-FAITHFUL', '%s:once' % cu.site,
            '_call_unconverted must invoke f exactly once on every path',
            {'min_max': rng}, line=cu.node.lineno)
  # negative cache update
  upd = [c for c in ast.walk(cu.node) if isinstance(c, ast.Call) and
         core.dotted(c.func) == 'conversion.cache_allowlisted']
  guard_ok = False
  cu_flag = None
  for i in ast.walk(cu.node):
    if isinstance(i, ast.If) and core.norm(i.test) in cu.params() and any(
        c in upd for b in i.body for c in ast.walk(b)):
      guard_ok = True
      cu_flag = core.norm(i.test)

  def remembers_at(call):
    """the value the cache flag takes at a call of _call_unconverted: True /
    False / None (not a constant)"""
    from sa import inline as _inl
    b_ = _inl._bind(cu.node, call, False)
    if b_ is None or cu_flag is None or cu_flag not in b_:
      return None
    v_ = b_[cu_flag]
    return v_.value if isinstance(v_, ast.Constant) and isinstance(v_.value, bool) else None
  rep.check(len(upd) == 1 and guard_ok and
            [core.norm(a) for a in upd[0].args] == ['f', 'options'],
            'CALL-FALLBACK', '%s:remembers' % cu.site,
            'an unconverted call must be remembered in the allow-list cache '
            'for (f, options) by default', {}, line=cu.node.lineno)

  # ---------------------------------------------------------------- CALL-POLICY
  conv_nodes = [i for i in range(len(g.nodes)) if any(
      core.dotted(c.func) == '_convert_actual' for c in pycfg.calls_at(g, i))]
  if len(conv_nodes) != 1:
    raise core.AnalysisError('converted_call: %d calls to _convert_actual' %
                             len(conv_nodes))
  target = conv_nodes[0]
  mand = g.mandatory_edges(target)

  def atom_of(e):
    return core.norm(e)

  proceed = formula.TRUE
  mand_tests = []
  for (i, lab) in mand:
    t = g.nodes[i][1]
    if not isinstance(t, ast.expr):
      continue
    f = formula.bool_formula(t, atom_of)
    proceed = proceed & (f if lab == 'T' else ~f)
    mand_tests.append((core.norm(t), lab))
  atoms = sorted(proceed.atoms)
  rep.unit('mandatory decisions before conversion', len(mand_tests))

  def atoms_with(tokens):
    return [a for a in atoms if all(tok in a for tok in tokens)]

  # path-wise fallback (sa/pathsym) for a policy test that is not a mandatory
  # edge of the graph because its verdict travels through a local (two exits
  # merged: `msg = '...' if <test> ...; if msg is not None: return ...`): on
  # every path that reaches the conversion -- paths contradicted by a constant
  # test pruned -- the conditions must contradict the row's positive literal
  from sa import pathsym as _psp
  _cstmt = g.nodes[target][1]

  def _const_test(t):
    if isinstance(t, ast.Compare) and len(t.ops) == 1 and isinstance(
        t.ops[0], (ast.Is, ast.IsNot)) and isinstance(t.left, ast.Constant) and isinstance(
            t.comparators[0], ast.Constant):
      r = t.left.value is t.comparators[0].value
      return r if isinstance(t.ops[0], ast.Is) else (not r)
    return None
  _paths = []
  for conds, _v in _psp.path_values(cc.node, _cstmt, ast.Constant(0), limit=2000):
    fs_, dead = [], False
    for pol, t in conds:
      if pol not in ('T', 'F'):
        continue
      cv = _const_test(t)
      if cv is not None:
        if cv != (pol == 'T'):
          dead = True
          break
        continue
      b_ = formula.bool_formula(t, atom_of)
      fs_.append(b_ if pol == 'T' else ~b_)
    if not dead:
      _paths.append(fs_)

  def pathwise_blocked(name, toks):
    if not _paths:
      return False
    for fs_ in _paths:
      hits_ = sorted({a for f_ in fs_ for a in f_.atoms if all(tok in a for tok in toks)})
      if not hits_:
        return False
      for a in hits_:
        positive = formula.atom(a)
        if name in ('no-code-object', 'non-recursive'):
          positive = ~formula.atom(a)
        sub = formula.TRUE
        for f_ in fs_:
          if a in f_.atoms:
            sub = sub & f_
        if not formula.implies(sub & positive, formula.FALSE)[0]:
          return False
    return True

  # a target that runs unconverted only because the context is disabled must not
  # be remembered as "never convert": the exit taken under the DISABLED test
  # calls _call_unconverted with the cache update off (path-wise: the test may
  # reach the call through a local)
  dis_calls, dis_bad = 0, []
  for st_ in ast.walk(cc.node):
    if not isinstance(st_, (ast.Return, ast.Assign, ast.Expr)):
      continue
    cs_ = [c for c in ast.walk(st_) if isinstance(c, ast.Call) and core.dotted(
        c.func) == '_call_unconverted']
    if not cs_:
      continue
    for conds, _v in _psp.path_values(cc.node, st_, ast.Constant(0), limit=2000):
      dead, under = False, False
      for pol, t in conds:
        cv = _const_test(t)
        if cv is not None and cv != (pol == 'T'):
          dead = True
          break
        if pol == 'T' and 'Status.DISABLED' in core.norm(t) and not isinstance(t, ast.BoolOp):
          under = True
      if dead or not under:
        continue
      dis_calls += 1
      for c in cs_:
        if remembers_at(c) is not False:
          dis_bad.append(core.norm(c)[:80])
  rep.check(dis_calls >= 1 and not dis_bad, 'CALL-POLICY',
            '%s:disabled-context-exit-is-not-remembered' % cc.site,
            'a callable that is run as it is only because conversion is disabled in '
            'the current context must not enter the negative cache: with equal options '
            'it would never be converted again, in any context',
            {'calls_under_disabled': dis_calls, 'remembering': sorted(set(dis_bad))},
            line=cc.node.lineno,
            witness='a closure first called from a do_not_convert region, later from '
            'converted code')

  for name, toks in ROWS:
    hit = atoms_with(toks)
    site = '%s:row(%s)' % (cc.site, name)
    if not hit and name != 'exec-defined' and pathwise_blocked(name, toks):
      rep.hold('CALL-POLICY', site, {'decided': 'path-wise'})
      continue
    if not hit:
      rep.violation('CALL-POLICY', site,
                    'conversion is no longer dominated by the policy test for '
                    '"%s": such callables would be converted' % name,
                    {'mandatory_tests': mand_tests}, line=cc.node.lineno,
                    witness='a callable of category "%s"' % name)
      continue
    ok = True
    cex = None
    for a in hit:
      # when the row's atom is true (for '__code__': hasattr is *false*),
      # conversion must not proceed
      positive = formula.atom(a)
      if name in ('no-code-object', 'non-recursive'):
        positive = ~formula.atom(a)
      if name == 'exec-defined':
        co = [x for x in atoms if 'co_filename' in x and 'hasattr' in x]
        if co:
          positive = formula.atom(co[0]) & formula.atom(a)
      o, cx = formula.implies(proceed & positive, formula.FALSE)
      if not o:
        ok = False
        cex = cx
    rep.check(ok, 'CALL-POLICY', site,
              'conversion can proceed although the policy test for "%s" is '
              'positive' % name, {'atoms': hit, 'counterexample': cex},
              line=cc.node.lineno, witness='a callable of category "%s"' % name)
  # allow-listed unless user requested
  al = atoms_with(['is_allowlisted'])
  ur = atoms_with(['user_requested'])
  ok = bool(al) and bool(ur)
  cex = None
  if ok:
    ok, cex = formula.implies(
        proceed & formula.atom(al[0]) & ~formula.atom(ur[0]), formula.FALSE)
    if ok:
      # and user_requested targets are NOT blocked by the allow-list
      blocked, _ = formula.implies(
          proceed & formula.atom(al[0]) & formula.atom(ur[0]), formula.FALSE)
      ok = not blocked
  rep.check(ok, 'CALL-POLICY', '%s:row(allowlisted-unless-user-requested)' % cc.site,
            'allow-listed callables must be skipped exactly when the conversion '
            'was not user requested', {'counterexample': cex},
            line=cc.node.lineno)
  # positive branches cannot reach conversion and end in a non-converting action
  for (i, lab) in mand:
    other = 'F' if lab == 'T' else 'T'
    for b, l in g.succ[i]:
      if l == other:
        reach = g.reachable(b, skip_labels=('exc',))
        rep.check(target not in reach, 'CALL-POLICY',
                  '%s:branch(%s)' % (cc.site, core.norm(g.nodes[i][1])[:60]),
                  'the skipping branch of a policy test can still reach '
                  'conversion', line=getattr(g.nodes[i][1], 'lineno', None))

  # is_unsupported / is_allowlisted categories
  iu = model.func(CONVN, 'is_unsupported')
  ia = model.func(CONVN, 'is_allowlisted')

  def true_guards(fi):
    out = []
    for n in ast.walk(fi.node):
      if isinstance(n, ast.If):
        if any(isinstance(r, ast.Return) and isinstance(r.value, ast.Constant) and
               r.value.value is True for b in n.body for r in ast.walk(b)):
          out.append(core.norm(n.test))
    return out

  tg = true_guards(iu)
  for name, toks in (('wrapt', ["'wrapt'", "'FunctionWrapper'"]),
                     ('wrapt-bound', ["'BoundFunctionWrapper'"]),
                     ('lru_cache', ["'_lru_cache_wrapper'"]),
                     ('constructor', ['isconstructor']),
                     ('std-modules', ['_is_of_known_loaded_module'])):
    rep.check(any(all(t in x for t in toks) for x in tg), 'CALL-POLICY',
              '%s:category(%s)' % (iu.site, name),
              'is_unsupported no longer returns True for %s callables' % name,
              {'true_guards': tg}, line=iu.node.lineno)
  # module names reaching _is_of_known_loaded_module(o, <name>): constants, or a
  # variable ranging over a literal sequence (loop or comprehension)
  listed = set()
  ranges = {}
  for n in ast.walk(iu.node):
    gens = n.generators if isinstance(n, (ast.GeneratorExp, ast.ListComp, ast.SetComp)) \
        else ([n] if isinstance(n, ast.For) else [])
    for g in gens:
      it = tpl.expand(iu, g.iter, g.iter)
      if isinstance(g.target, ast.Name) and isinstance(it, (ast.Tuple, ast.List, ast.Set)):
        ranges.setdefault(g.target.id, []).extend(it.elts)
  for n in ast.walk(iu.node):
    if isinstance(n, ast.Call) and core.dotted(n.func) == '_is_of_known_loaded_module' \
        and len(n.args) == 2:
      a = n.args[1]
      for x in (ranges.get(a.id, []) if isinstance(a, ast.Name) else [a]):
        if isinstance(x, ast.Constant) and isinstance(x.value, str):
          listed.add(x.value)
  rep.check({'collections', 'pdb', 'copy', 'inspect', 're'} <= listed, 'CALL-POLICY',
            '%s:std-module-list' % iu.site,
            'documented std modules must stay permanently allowed',
            {'listed': sorted(listed)}, line=iu.node.lineno)
  # membership in a standard-library module is an *identity* question
  km = model.func(CONVN, '_is_of_known_loaded_module')
  kp = km.params()[0]
  ident = [c for c in ast.walk(km.node) if isinstance(c, ast.Compare) and any(
      isinstance(o, (ast.Is, ast.IsNot)) for o in c.ops) and kp in (
          core.norm(c.left), core.norm(c.comparators[0]))
           and not any(isinstance(x, ast.Constant) and x.value is None
                       for x in [c.left] + c.comparators)]
  equal = [core.norm(c) for c in ast.walk(km.node) if isinstance(c, ast.Compare) and any(
      isinstance(o, (ast.In, ast.NotIn, ast.Eq, ast.NotEq)) for o in c.ops) and
           core.norm(c.left) == kp]
  rep.check(bool(ident) and not equal, 'CALL-POLICY', '%s:identity-not-equality' % km.site,
            'a callable is "part of a builtin module" when it *is* one of the '
            'module\'s attributes; `in` / `==` run the user\'s __eq__ against '
            'every attribute: an object with a permissive or raising __eq__ is '
            'never converted, or the call fails', {'equality_tests': equal},
            line=km.node.lineno, witness='a callable whose __eq__ builds an expression object')
  # mangled attribute names are rejected exactly when Python mangles them
  uf = model.func('malt/core/unsupported_features_checker.py',
                  'UnsupportedFeaturesChecker.visit_Attribute')
  raises = [x for x in ast.walk(uf.node) if isinstance(x, ast.Raise)]
  verdicts = {}
  ok = bool(raises)
  if ok:
    conds = [formula.path_condition(uf.node, x) for x in raises]

    def rejected(name):
      res = False
      for pc in conds:
        v = True
        for pol, t in pc:
          if pol == 'C':
            return None
          r = _eval_str_pred(tpl.expand(uf, t, t), uf, name)
          if r is None:
            return None
          v = v and (r if pol == 'T' else not r)
        res = res or v
      return res
    for name in ('__x', '__x_', '__x__', '__', '___', '_x', 'x__', 'x', '__a_b', '__a__b',
                 '__ab_', '____'):
      verdicts[name] = rejected(name)
    # Python: mangled iff it starts with two underscores and does not end with two
    ok = all(v is not None and v == (n.startswith('__') and not n.endswith('__'))
             for n, v in verdicts.items())
  rep.check(ok, 'CALL-POLICY', '%s:mangled-names' % uf.site,
            'private names (`__x`, also `__x_`) are mangled by the compiler and '
            'cannot be converted: they must be rejected here, so that the '
            'function falls back to running unconverted',
            {'rejects': {k: v for k, v in verdicts.items()}}, line=uf.node.lineno,
            witness='a method reading self.__id_')
  tg = true_guards(ia)
  for name, toks in (('rule-do-not-convert', ['DO_NOT_CONVERT']),
                     ('generator-function', ['isgeneratorfunction']),
                     ('callable-object', ['is_allowlisted(o.__call__)']),
                     ('owner-class', ['is_allowlisted(owner_class']),
                     ('named-tuple', ['allow_namedtuple_subclass'])):
    rep.check(any(all(t in x for t in toks) for x in tg) or any(
        all(t in core.norm(n) for t in toks) for n in ast.walk(ia.node)
        if isinstance(n, ast.If)), 'CALL-POLICY',
              '%s:category(%s)' % (ia.site, name),
              'is_allowlisted lost the %s rule' % name, {'true_guards': tg},
              line=ia.node.lineno)
  # first matching rule wins: the loop returns inside on CONVERT and DO_NOT_CONVERT
  loop = [n for n in ast.walk(ia.node) if isinstance(n, ast.For) and
          'CONVERSION_RULES' in core.norm(n.iter)]
  ok = len(loop) == 1
  if ok:
    rr = [r for r in ast.walk(loop[0]) if isinstance(r, ast.Return)]
    vals = sorted(str(r.value.value) for r in rr if isinstance(r.value, ast.Constant))
    ok = vals == ['False', 'True'] and not any(
        isinstance(n, (ast.Break, ast.Continue)) for n in ast.walk(loop[0]))
  rep.check(ok, 'CALL-POLICY', '%s:first-match-wins' % ia.site,
            'conversion rules must be evaluated in order with the first CONVERT '
            '/ DO_NOT_CONVERT match deciding', {}, line=ia.node.lineno)
  # Rule.matches: whole dotted prefix
  rm = model.func(CFGLIB, 'Rule.matches')
  rets = [r for r in ast.walk(rm.node) if isinstance(r, ast.Return)]
  ok = len(rets) == 1
  if ok:
    mparam = rm.params()[0]

    def at(e):
      if isinstance(e, ast.Call) and isinstance(e.func, ast.Attribute) and \
          e.func.attr == 'startswith' and core.norm(e.func.value) == mparam and \
          len(e.args) == 1:
        a = e.args[0]
        if isinstance(a, ast.BinOp) and isinstance(a.op, ast.Add) and \
            core.norm(a.left) == 'self._prefix' and isinstance(
                a.right, ast.Constant) and a.right.value == '.':
          return 'dotted_prefix'
        if core.norm(a) == 'self._prefix':
          return 'bare_prefix'
      if isinstance(e, ast.Compare) and isinstance(e.ops[0], ast.Eq) and \
          {core.norm(e.left), core.norm(e.comparators[0])} == {mparam, 'self._prefix'}:
        return 'equal'
      return None

    f = formula.bool_formula(rets[0].value, at)
    ok, cex = formula.equivalent(
        f, formula.atom('dotted_prefix') | formula.atom('equal'))
  rep.check(ok, 'CALL-POLICY', '%s:whole-component-prefix' % rm.site,
            'a module matches a rule iff it equals the prefix or starts with '
            'prefix + "."; a bare string prefix also allow-lists unrelated user '
            'modules', {'returns': [core.norm(r) for r in rets]},
            line=rm.node.lineno,
            witness='user module "reporting" vs rule "re", "copycat" vs "copy"')

  # ---------------------------------------------------------------- CALL-FALLBACK
  conv_call = [c for c in ast.walk(cc.node) if isinstance(c, ast.Call) and
               core.dotted(c.func) == '_convert_actual'][0]
  trys = [t for t in ast.walk(cc.node) if isinstance(t, ast.Try) and any(
      x is conv_call for b in t.body for x in ast.walk(b))]
  ok = len(trys) == 1
  facts = {}
  if ok:
    t = trys[0]
    hs = [h for h in t.handlers if h.type is not None and
          core.norm(h.type) in ('Exception', 'BaseException')]
    ok = len(hs) == 1 and hs[0].name is not None
    if ok:
      h = hs[0]
      fbc = [c for s in h.body for c in ast.walk(s) if isinstance(c, ast.Call) and
             core.dotted(c.func) == '_fall_back_unconverted']
      rets = [r for s in h.body for r in ast.walk(s) if isinstance(r, ast.Return)]
      raises = [r for s in h.body for r in ast.walk(s) if isinstance(r, ast.Raise)]
      facts = {'fallback_calls': [core.norm(c) for c in fbc]}
      ok = len(fbc) == 1 and [core.norm(a) for a in fbc[0].args] == [
          'f', 'args', 'kwargs', 'options', h.name] and any(
              r.value is fbc[0] for r in rets)
      # the only raise is under the strict-mode test
      for r in raises:
        gd = None
        for i in ast.walk(h):
          if isinstance(i, ast.If) and any(x is r for b in i.body for x in ast.walk(b)):
            gd = core.norm(i.test)
        if gd != 'is_autograph_strict_conversion_mode()':
          ok = False
          facts['unguarded_raise'] = gd
  from sa.props import C10 as _c10
  _c10.conversion_try_rule(model, rep, 'CALL-FALLBACK')
  rep.check(ok, 'CALL-FALLBACK', '%s:conversion-try' % cc.site,
            'a failure of the conversion must be caught (except Exception) and, '
            'outside strict mode, answered by `return _fall_back_unconverted(f, '
            'args, kwargs, options, e)`', facts, line=conv_call.lineno,
            witness='an injected failure in any conversion stage')
  # same for the first try (entity resolution)
  other_trys = [t for t in ast.walk(cc.node) if isinstance(t, ast.Try) and
                t not in trys]
  gfb = pycfg.CFG(fb.node)
  wfb = {i: 1 for i in range(len(gfb.nodes)) if any(
      core.dotted(c.func) == '_call_unconverted' for c in pycfg.calls_at(gfb, i))}
  rng = gfb.count_range(wfb, skip_labels=())
  cuc = [c for c in ast.walk(fb.node) if isinstance(c, ast.Call) and
         core.dotted(c.func) == '_call_unconverted']
  okc = rng == (1, 1) and all(
      [core.norm(a) for a in c.args][:4] == ['f', 'args', 'kwargs', 'options'] and
      remembers_at(c) is True for c in cuc)
  rep.check(okc, 'CALL-FALLBACK', '%s:calls-unconverted-cached' % fb.site,
            '_fall_back_unconverted must end in _call_unconverted(f, args, '
            'kwargs, options) with the cache update on, on every path',
            {'min_max': rng}, line=fb.node.lineno)
  warn = [c for c in ast.walk(fb.node) if isinstance(c, ast.Call) and
          core.dotted(c.func) == 'logging.warning']
  # a warning on every path except: source not inspectable and inspection is not
  # supported; unsupported element already in the negative cache
  gw = pycfg.CFG(fb.node)
  ww = {i: 1 for i in range(len(gw.nodes)) if any(
      core.dotted(c.func) == 'logging.warning' for c in pycfg.calls_at(gw, i))}
  wr = gw.count_range(ww, skip_labels=())
  rep.check(len(warn) >= 1 and wr is not None and wr[1] == 1, 'CALL-FALLBACK', '%s:warns' % fb.site,
            'the fallback must warn (three failure classes)', {'warnings': len(warn)},
            line=fb.node.lineno, nontrivial=False)
  # every branch of the if/elif/else chain warns (possibly under a condition)
  rep.check(True, 'CALL-FALLBACK', '%s:shape' % fb.site, '', nontrivial=False)
  # ... evaluated: in every scenario of (failure class, inspection supported,
  # already in the negative cache) outside the two documented quiet cases, some
  # path to a warning call is taken.  Paths and the values of locals (an `extra`
  # text, a flag) come from sa/pathsym; tests are evaluated on the scenario.
  from sa import pathsym as _ps
  excp = fb.params()[4] if len(fb.params()) > 4 else fb.params()[-1]

  class _Unknown(Exception):
    pass
  _OBJ = object()

  def _ev(e, sc):
    if isinstance(e, ast.Constant):
      return e.value
    if isinstance(e, ast.Call) and core.dotted(e.func) == 'isinstance' and \
        len(e.args) == 2 and core.norm(e.args[0]) == excp:
      ks = [core.dotted(k).split('.')[-1] for k in (
          e.args[1].elts if isinstance(e.args[1], ast.Tuple) else [e.args[1]])]
      return any(sc['cls'] == k for k in ks)
    if isinstance(e, ast.Call) and (core.dotted(e.func) or '').endswith(
        'is_in_allowlist_cache'):
      return sc['cached']
    if core.dotted(e) in ('ag_ctx.INSPECT_SOURCE_SUPPORTED',):
      return sc['inspect']
    if isinstance(e, ast.UnaryOp) and isinstance(e.op, ast.Not):
      return not _ev(e.operand, sc)
    if isinstance(e, ast.BoolOp):
      vals = [_ev(v, sc) for v in e.values]
      if isinstance(e.op, ast.And):
        for v in vals:
          if not v:
            return v
        return vals[-1]
      for v in vals:
        if v:
          return v
      return vals[-1]
    if isinstance(e, ast.IfExp):
      return _ev(e.body if _ev(e.test, sc) else e.orelse, sc)
    if isinstance(e, ast.Compare) and len(e.ops) == 1:
      l, r = _ev(e.left, sc), _ev(e.comparators[0], sc)
      if isinstance(e.ops[0], ast.Is):
        return l is r
      if isinstance(e.ops[0], ast.IsNot):
        return l is not r
      if _OBJ not in (l, r):
        if isinstance(e.ops[0], ast.Eq):
          return l == r
        if isinstance(e.ops[0], ast.NotEq):
          return l != r
    if isinstance(e, (ast.JoinedStr, ast.BinOp, ast.Tuple, ast.List, ast.Dict)):
      return _OBJ
    raise _Unknown(core.norm(e))

  quiet_ok = lambda sc: (sc['cls'] == 'InaccessibleSourceCodeError' and not sc['inspect']) \
      or (sc['cls'] == 'UnsupportedLanguageElementError' and sc['cached'])
  silent, unknown_ = [], []
  wpaths = []
  for c in warn:
    st_ = next((x for x in ast.walk(fb.node) if isinstance(x, ast.stmt) and not isinstance(
        x, (ast.If, ast.FunctionDef, ast.For, ast.While, ast.With, ast.Try)) and any(
            y is c for y in ast.walk(x))), None)
    if st_ is not None:
      wpaths.extend(_ps.path_values(fb.node, st_, ast.Constant(0)))
  for cls_ in ('InaccessibleSourceCodeError', 'UnsupportedLanguageElementError', 'Other'):
    for insp in (True, False):
      for cached in (True, False):
        sc = {'cls': cls_, 'inspect': insp, 'cached': cached}
        if quiet_ok(sc):
          continue
        hit = False
        for conds, _v in wpaths:
          try:
            if all(bool(_ev(t, sc)) == (pol == 'T') for pol, t in conds):
              hit = True
          except _Unknown as e_:
            unknown_.append(str(e_))
        if not hit:
          silent.append(sc)
  if unknown_ and silent:
    raise core.AnalysisError('fallback warning conditions not evaluated: %s' % unknown_[:3])
  rep.check(bool(warn) and not silent, 'CALL-FALLBACK', '%s:warns-in-every-failure-class'
            % fb.site,
            'a conversion failure is answered with a warning: the only quiet cases are '
            'a source-less target where inspection is not supported at all, and an '
            'unsupported language element already recorded in the negative cache (it '
            'warned the first time)', {'silent_scenarios': silent[:4]},
            line=fb.node.lineno,
            witness='a function with for/else: the first call must warn')

  # ---------------------------------------------------------------- CALL-NODOUBLE
  ex_calls = [c for v in actions.values() for k, c in v if k == 'execute']
  ok = bool(ex_calls)
  for t in ast.walk(cc.node):
    if isinstance(t, ast.Try) and any(x in ex_calls for b in t.body for x in ast.walk(b)):
      for h in t.handlers:
        acts = [c for s in h.body for c in ast.walk(s) if isinstance(c, ast.Call)
                and _action_kind(c, fparams, cc)]
        ends_raise = isinstance(h.body[-1], ast.Raise) and h.body[-1].exc is None
        if acts or not ends_raise:
          ok = False
      if any(x is conv_call for b in t.body for x in ast.walk(b)):
        ok = False   # execution inside the conversion try
  rep.check(ok, 'CALL-NODOUBLE', '%s:execution-try' % cc.site,
            'an exception raised by the converted function must propagate: the '
            'handler around its execution may only attach metadata and re-raise, '
            'and the execution must not sit inside the conversion try',
            line=ex_calls[0].lineno if ex_calls else cc.node.lineno,
            witness='target raises after a side effect: a fallback would run it twice')

  # ---------------------------------------------------------------- CALL-PARTIAL
  rec = [c for v in actions.values() for k, c in v if k == 'recurse']
  if not rec:
    # no re-entry for the underlying callable: unwrapping in place is only the
    # same thing when it happens before every policy test -- a rebinding of the
    # callable that a policy test dominates leaves that test unapplied to what
    # is finally converted
    gp_ = pycfg.CFG(cc.node)
    tg_ = [i for i in range(len(gp_.nodes)) if any(
        core.dotted(c.func) == '_convert_actual' for c in pycfg.calls_at(gp_, i))]
    if len(tg_) != 1:
      raise core.AnalysisError('converted_call: conversion call not found')
    dom_ = gp_.dominators(skip_labels=('exc',))
    reb = [i for i, (k_, a_) in enumerate(gp_.nodes) if isinstance(a_, ast.Assign) and any(
        isinstance(t_, ast.Name) and t_.id == fparams[0]
        for t0 in a_.targets for t_ in ast.walk(t0))]
    tests_ = [i for (i, lab) in gp_.mandatory_edges(tg_[0])
              if isinstance(gp_.nodes[i][1], ast.expr)]
    late = [i for i in reb if any(t_ in dom_.get(i, ()) for t_ in tests_)]
    if not reb:
      raise core.AnalysisError('converted_call: partial recursion not found')
    rep.check(not late, 'CALL-PARTIAL', '%s:underlying-callable-goes-through-every-test'
              % cc.site,
              'a partial is unwrapped by rebinding the callable after policy tests '
              'have already been passed: the cache / disabled-context / artifact / ... '
              'rows are never evaluated for the underlying callable (re-enter '
              'converted_call with f.func, or unwrap before the first test)',
              {'rebinding_lines': [gp_.nodes[i][1].lineno for i in late]},
              line=cc.node.lineno,
              witness='functools.partial(do_not_convert(fn), 1) called from converted code')
    if late:
      rec = None
  elif len(rec) != 1:
    raise core.AnalysisError('converted_call: partial recursion not found')
  if rec is None:
    # (reported above; the clauses below describe the recursive form)
    raise core.AnalysisError('converted_call: no partial recursion to analyse')
  if not rec:
    raise core.AnalysisError('converted_call: partial handling not recognised')
  rc = rec[0]
  a1 = tpl.xnorm(cc, rc.args[1], rc) if len(rc.args) > 1 else None
  rep.check(a1 == 'f.args + args', 'CALL-PARTIAL', '%s:positional-order' % cc.site,
            'stored positionals of the partial must come before call-site ones',
            {'positional_argument': a1}, line=rc.lineno)
  kname = rc.args[2].id if len(rc.args) > 2 and isinstance(rc.args[2], ast.Name) else None
  # (the dictionary may reach the call under another local name: follow a
  # plain `b = a` whose `a` is itself a local built here)
  for _hop in range(3):
    ds_ = [a for a in core.walk_no_nested(cc.node) if isinstance(a, ast.Assign) and
           kname is not None and any(isinstance(t, ast.Name) and t.id == kname
                                     for t in a.targets)]
    if len(ds_) == 1 and len(ds_[0].targets) == 1 and isinstance(ds_[0].value, ast.Name) \
        and ds_[0].value.id not in fparams:
      kname = ds_[0].value.id
    else:
      break
  FRESH = ('f.keywords.copy()', 'dict(f.keywords)', 'dict(**f.keywords)', '{}', 'dict()')

  def alternatives(e):
    if isinstance(e, ast.IfExp):
      return alternatives(e.body) + alternatives(e.orelse)
    return [e]
  defs = [a for a in core.walk_no_nested(cc.node) if isinstance(a, ast.Assign) and
          kname is not None and any(isinstance(t, ast.Name) and t.id == kname
                                    for t in a.targets)]
  alts = [core.norm(x) for d in defs for x in alternatives(d.value)]
  upd = [c for c in core.walk_no_nested(cc.node) if isinstance(c, ast.Call) and
         kname is not None and core.norm(c.func) == kname + '.update']
  g_cc = pycfg.CFG(cc.node)

  def nid(x):
    for i in range(len(g_cc.nodes)):
      if g_cc.nodes[i][1] is not None and any(
          y is x for e in g_cc.exprs_of(i) for y in ast.walk(e)):
        return i
    return None
  ok = kname is not None and bool(defs) and all(t in FRESH for t in alts) and \
      len(upd) == 1 and [core.norm(a) for a in upd[0].args] == ['kwargs']
  if ok:
    ui, ri = nid(upd[0]), nid(rc)
    dis = [nid(d.value) for d in defs]
    ok = ui is not None and ri is not None and ri in g_cc.reachable(ui) and all(
        d is not None and ui in g_cc.reachable(d) and d not in g_cc.reachable(ui)
        for d in dis)
    # the stored dictionary itself is never written
    ok = ok and not any(
        isinstance(c, ast.Call) and isinstance(c.func, ast.Attribute) and c.func.attr in (
            'update', 'setdefault', 'pop', 'clear', '__setitem__') and
        core.norm(c.func.value) == 'f.keywords' for c in core.walk_no_nested(cc.node))
  rep.check(ok, 'CALL-PARTIAL', '%s:fresh-keyword-copy' % cc.site,
            'call-site keywords must be merged into a fresh copy of the '
            'partial\'s keywords (stored first, call-site wins); updating the '
            'stored dict mutates the partial',
            {'definitions': alts, 'updates': [core.norm(u) for u in upd]},
            line=upd[0].lineno if upd else cc.node.lineno,
            witness='same partial called twice, second call omits the keyword')
  has_copy = any('f.keywords' in t for t in alts)
  rep.check(has_copy, 'CALL-PARTIAL', '%s:stored-keywords-kept' % cc.site,
            'the partial\'s stored keywords must be part of the merged keywords',
            {}, line=rc.lineno)

  # ---------------------------------------------------------------- CALL-OPTS
  # every real assignment of `options` gives caller_fn_scope.callopts, and one
  # is reached exactly when options is None (and a scope was passed)
  sets = [n for n in core.walk_no_nested(cc.node) if isinstance(n, ast.Assign) and
          len(n.targets) == 1 and core.norm(n.targets[0]) == 'options' and
          core.norm(n.value) != 'options']
  ok = bool(sets) and all(tpl.xnorm(cc, n.value, n) == 'caller_fn_scope.callopts'
                          for n in sets)
  if ok:
    f = formula.FALSE
    for n in sets:
      f = f | formula.condition_formula(cc.node, n, lambda e: tpl.xnorm(cc, e, e))
    want = formula.atom('options is None')
    ok = formula.implies(f, want)[0] and formula.implies(
        want & ~formula.atom('caller_fn_scope is None'), f)[0]
  rep.check(ok, 'CALL-OPTS', '%s:default-options' % cc.site,
            'options must default to caller_fn_scope.callopts', line=cc.node.lineno)

  # ---- the allow-list row for methods goes by the class that *defines* them
  gd = model.func('malt/pyct/inspect_utils.py', 'getdefiningclass')
  gp = gd.params()
  loops = [n for n in core.walk_no_nested(gd.node) if isinstance(n, ast.For)]
  ok = len(loops) == 1 and len(gp) == 2
  facts = {}
  if ok:
    lp = loops[0]
    facts['iterates'] = tpl.xnorm(gd, lp.iter, lp.iter)
    ok = facts['iterates'] == 'inspect.getmro(%s)' % gp[1] and isinstance(
        lp.target, ast.Name) and not lp.orelse
    # first match wins: a return of the loop variable under a membership test
    rets = [r for r in ast.walk(lp) if isinstance(r, ast.Return)]
    ok = ok and len(rets) == 1 and isinstance(rets[0].value, ast.Name) and \
        rets[0].value.id == lp.target.id and not any(
            isinstance(x, (ast.Break, ast.Continue)) for x in ast.walk(lp))
    tail = [r for r in gd.node.body if isinstance(r, ast.Return)]
    ok = ok and len(tail) == 1 and core.norm(tail[0].value) == gp[1]
  rep.check(ok, 'CALL-POLICY', '%s:first-class-of-the-full-mro' % gd.site,
            'the class that defines a method is the first class of the owner\'s '
            'complete MRO (the owner included) whose namespace has the name; '
            'skipping the owner attributes a user override to an allow-listed '
            'base class and runs it unconverted', facts, line=gd.node.lineno,
            witness='class Mine(collections.OrderedDict): def update(self, ...) '
            '-- Mine().update called from converted code')

  # ---------------------------------------------------------------- dependencies
  rep.depends('C14', ['BI-TABLE'],
              'the builtin row of the policy substitutes a callable only when it '
              '*is* one of the supported builtins')
  rep.depends('C10', ['CACHE-ALLOWLIST'],
              'the first policy row is the negative cache: it must identify the '
              'callable, and remember only decisions that depend on it')
  rep.depends('C16', ['CTX-PUSHPOP', 'CTX-WITH', 'CTX-TLS'],
              'the second policy row reads the current conversion status')
