"""C09 — converted functions keep the original calling interface and environment.

 IFACE-ERASE    default expressions are erased (all positional, all non-None
                keyword-only) before any pass runs, so they are never re-evaluated
 IFACE-INST     every conversion result is produced by factory.instantiate() with
                globals / closure / defaults of the *requesting* function
 IFACE-BIND     instantiate(): globals = the argument; closure cells matched by
                *name* against the factory code's co_freevars; defaults and
                keyword-only defaults reattached as the same objects
 IFACE-FACTORY  two nested factories: closure variables declared in the outer
                one, extra locals as parameters of the inner one, the entity
                returned by its (generated) name
 IFACE-ARGS     no converter rebuilds or reassigns a function's parameter list
 IFACE-DECOR    decorators dropped exactly at top level, artifacts tagged below
 IFACE-SELF     bound methods: the instance is prepended (identity test)
"""
import ast

from sa import core
from sa import formula
from sa import pat
from sa import pycfg
from sa import tpl
from sa.props import C10 as _c10

TR = 'malt/pyct/transpiler.py'
API = 'malt/impl/api.py'
FUNCS = 'malt/converters/functions.py'


def _future_rule(model, rep):
  """The generated module must be compiled with the future features that were
  in effect for the original source.  Their markers live in the *globals of the
  function* (`f.__globals__`); `f.__module__` / inspect.getmodule can name
  another module (functools.wraps copies __module__)."""
  gi = model.func('malt/pyct/inspect_utils.py', 'getfutureimports')
  p0 = gi.params()[0]
  v = gi.view()
  fi = core.FuncInfo(gi.module, v, cls=None)
  srcs = []
  for n in ast.walk(v):
    if isinstance(n, (ast.GeneratorExp, ast.ListComp, ast.SetComp)):
      for g in n.generators:
        if "'__future__'" in core.norm(n) or '__future__' in core.norm(n):
          srcs.append(tpl.xnorm(fi, g.iter, g.iter))
    if isinstance(n, ast.For) and '__future__' in core.norm(n):
      srcs.append(tpl.xnorm(fi, n.iter, n.iter))
  ok = bool(srcs) and all(s_.replace('tuple(', '').replace('list(', '').startswith(
      '%s.__globals__' % p0) for s_ in srcs)
  rep.check(ok, 'IFACE-FUTURE', '%s:from-own-globals' % gi.site,
            'the future imports must be read from the globals of the function '
            'object itself', {'iterates': srcs}, line=gi.node.lineno,
            witness='a functools.wraps-style wrapper defined in a module with '
            '`from __future__ import annotations` whose __module__ names another module')


def check(model, rep, tier):
  rep.not_decided = ('argument binding at run time; behaviour of '
                     'types.FunctionType (trusted)')
  rep.touch(TR, API, FUNCS)
  rep.rule('IFACE-ERASE', 'defaults erased before transformation', floor=4)
  rep.rule('IFACE-INST', 'instantiate with the requester\'s environment', floor=1)
  rep.rule('IFACE-BIND', 'globals / name-matched cells / defaults', floor=5)
  rep.rule('IFACE-FACTORY', 'factory template shape', floor=4)
  rep.rule('IFACE-ARGS', 'parameter list never rebuilt by a pass', floor=1)
  rep.rule('IFACE-DECOR', 'decorator handling', floor=2)
  rep.rule('IFACE-SELF', 'instance prepended for bound methods', floor=1)
  rep.rule('IFACE-FUTURE', 'future features are those of the function\'s own globals', floor=1)
  _future_rule(model, rep)

  # ---------------------------------------------------------------- IFACE-ERASE
  gtf = model.func(TR, 'GenericTranspiler.transform_function')
  g = pycfg.CFG(gtf.node)
  er = [i for i in range(len(g.nodes)) if any(
      core.norm(c.func) == 'self._erase_arg_defaults' for c in pycfg.calls_at(g, i))]
  ta = [i for i in range(len(g.nodes)) if any(
      core.norm(c.func) == 'self.transform_ast' for c in pycfg.calls_at(g, i))]
  ok = len(er) == 1 and len(ta) == 1
  facts = {}
  if ok:
    dom = g.dominators(skip_labels=('exc',))
    ok = er[0] in dom.get(ta[0], ())
    ea = g.nodes[er[0]][1]
    tcall = [c for c in pycfg.calls_at(g, ta[0])
             if core.norm(c.func) == 'self.transform_ast'][0]
    facts = {'erase_stmt': core.norm(ea), 'transform_arg': core.norm(tcall.args[0])}
    # what is transformed is what the erasure returned (through a local, or the
    # call nested in the argument)
    a0 = tcall.args[0]
    ok = ok and ((isinstance(ea, ast.Assign) and core.norm(ea.targets[0]) == core.norm(a0))
                 or (isinstance(a0, ast.Call) and core.norm(a0.func) ==
                     'self._erase_arg_defaults'))
  rep.check(ok, 'IFACE-ERASE', '%s:erase-before-transform' % gtf.site,
            'the node handed to transform_ast must be the result of '
            '_erase_arg_defaults on every path', facts, line=gtf.node.lineno,
            witness='def f(x, d=expensive()): the default expression would be '
            'copied into generated code and re-evaluated')
  er_fn = model.func(TR, 'GenericTranspiler._erase_arg_defaults')
  loops = [n for n in er_fn.node.body if isinstance(n, ast.For)]
  jumps = [n for l in loops for n in ast.walk(l)
           if isinstance(n, (ast.Break, ast.Return, ast.Raise))]
  n_comp = sum(1 for a_ in er_fn.node.body if isinstance(a_, ast.Assign) and isinstance(
      a_.value, ast.ListComp) and not a_.value.generators[0].ifs)
  rep.check(len(loops) + n_comp == 2 and not jumps, 'IFACE-ERASE',
            '%s:complete-loops' % er_fn.site,
            'both default lists must be walked to the end (no break/return in '
            'the loops): a required keyword-only parameter has a None entry that '
            'must be skipped, not end the erasure',
            {'loops': len(loops), 'jumps': [core.norm(j) for j in jumps]},
            line=er_fn.node.lineno,
            witness='def f(x, *, strict, bias=offset + 1)')
  pos_ok = kw_ok = False
  prm = er_fn.params()[0]

  def erased(l, lst):
    """[(index var, assignment)] : lst[<loop index>] = parse_expression('None')"""
    out = []
    for x in ast.walk(l):
      if isinstance(x, ast.Assign) and isinstance(x.targets[0], ast.Subscript) and \
          tpl.xnorm(er_fn, x.targets[0].value, x.value) == lst and \
          core.norm(x.value) == "parser.parse_expression('None')":
        out.append((core.norm(x.targets[0].slice), x))
    return out

  for l in loops:
    it = tpl.xnorm(er_fn, l.iter, l.iter)
    for lst, kind in ((prm + '.args.defaults', 'pos'), (prm + '.args.kw_defaults', 'kw')):
      idx = val = None
      if it == 'range(len(%s))' % lst and isinstance(l.target, ast.Name):
        idx = l.target.id
      elif it == 'enumerate(%s)' % lst and isinstance(l.target, ast.Tuple) and \
          len(l.target.elts) == 2:
        idx, val = [core.norm(e) for e in l.target.elts]
      if idx is None:
        continue
      es = [(i, x) for i, x in erased(l, lst) if i == idx]
      if len(es) != 1:
        continue

      def at(e, val=val, lst=lst, idx=idx):
        t = core.norm(e)
        if val is not None and t == '%s is None' % val:
          return 'NONE'
        if t == '%s[%s] is None' % (core.norm(ast.parse(lst, mode='eval').body), idx):
          return 'NONE'
        return None
      fake = ast.FunctionDef(name='_b', args=er_fn.node.args, body=l.body,
                             decorator_list=[], lineno=l.lineno)
      f = formula.condition_formula(fake, es[0][1], at)
      if kind == 'pos':
        pos_ok = formula.equivalent(f, formula.TRUE)[0]
      else:
        # exactly the slots that hold a default (None marks a required keyword-only)
        kw_ok = formula.equivalent(f, ~formula.atom('NONE'))[0]
  # the same, written as a rebuilt list: L[:] = [E for d in L] (or L = [...]),
  # every element the fresh None expression, or -- keyword-only -- None kept
  # where the slot is None
  NONE_E = "parser.parse_expression('None')"
  comp_forms = 0
  for a_ in er_fn.node.body:
    if not (isinstance(a_, ast.Assign) and len(a_.targets) == 1 and isinstance(
        a_.value, ast.ListComp) and len(a_.value.generators) == 1 and
            not a_.value.generators[0].ifs):
      continue
    t_ = a_.targets[0]
    if isinstance(t_, ast.Subscript) and isinstance(t_.slice, ast.Slice) and \
        t_.slice.lower is None and t_.slice.upper is None and t_.slice.step is None:
      t_ = t_.value
    lst_ = tpl.xnorm(er_fn, t_, a_)
    gen_ = a_.value.generators[0]
    if tpl.xnorm(er_fn, gen_.iter, a_) != lst_ or not isinstance(gen_.target, ast.Name):
      continue
    comp_forms += 1
    d_ = gen_.target.id
    e_ = a_.value.elt
    if lst_ == prm + '.args.defaults':
      pos_ok = core.norm(e_) == NONE_E
    elif lst_ == prm + '.args.kw_defaults' and isinstance(e_, ast.IfExp):
      tt = core.norm(e_.test)
      if tt == '%s is None' % d_:
        kw_ok = core.norm(e_.body) in ('None', d_) and core.norm(e_.orelse) == NONE_E
      elif tt == '%s is not None' % d_:
        kw_ok = core.norm(e_.orelse) in ('None', d_) and core.norm(e_.body) == NONE_E
  rep.check(pos_ok, 'IFACE-ERASE', '%s:positional-defaults' % er_fn.site,
            'every positional default must be overwritten', line=er_fn.node.lineno)
  rep.check(kw_ok, 'IFACE-ERASE', '%s:keyword-only-defaults' % er_fn.site,
            'every non-None keyword-only default must be overwritten',
            line=er_fn.node.lineno)

  # ---------------------------------------------------------------- IFACE-INST
  tf = model.func(TR, 'PyToPy.transform_function')
  pname = tf.params()[0]
  insts = [c for c in ast.walk(tf.node) if isinstance(c, ast.Call) and isinstance(
      c.func, ast.Attribute) and c.func.attr == 'instantiate']
  # arguments by the parameter they bind (keyword or position)
  from sa import inline as _inl
  inst_fn = model.func(TR, '_PythonFnFactory.instantiate')
  kw = {}
  for c in insts:
    bound_ = _inl._bind(inst_fn.node, c, True)
    if bound_ is None:
      kw = None
      break
    for k_, v_ in bound_.items():
      if any(v_ is a_ for a_ in c.args) or any(v_ is k2.value for k2 in c.keywords):
        kw[k_] = tpl.xnorm(tf, v_, c)
  kw = kw or {}
  want = {'globals_': pname + '.__globals__', 'closure': pname + '.__closure__ or ()',
          'defaults': pname + '.__defaults__',
          'kwdefaults': "getattr(%s, '__kwdefaults__', None)" % pname}
  rets = [r for r in ast.walk(tf.node) if isinstance(r, ast.Return)]
  ok = len(insts) == 1 and kw == want and len(rets) == 1 and isinstance(
      rets[0].value, ast.Tuple)
  if ok:
    r0 = tpl.expand(tf, rets[0].value.elts[0], rets[0], depth=1)
    ok = isinstance(r0, ast.Call) and isinstance(r0.func, ast.Attribute) and \
        r0.func.attr == 'instantiate'
  rep.check(ok, 'IFACE-INST', '%s:per-request-environment' % tf.site,
            'the returned function must come from factory.instantiate() fed '
            'with __globals__, __closure__, __defaults__, __kwdefaults__ of the '
            'function being converted', {'keywords': kw}, line=tf.node.lineno,
            witness='same code object, different module globals / mutable default')

  # ---------------------------------------------------------------- IFACE-BIND
  inst = model.func(TR, '_PythonFnFactory.instantiate')
  p = inst.params()
  ft = [c for c in ast.walk(inst.node) if isinstance(c, ast.Call) and
        core.dotted(c.func) == 'types.FunctionType']
  if len(ft) != 1:
    raise core.AnalysisError('instantiate: types.FunctionType call not found')
  kw = {k.arg: core.norm(k.value) for k in ft[0].keywords}
  rep.check(kw.get('globals') == p[0], 'IFACE-BIND', '%s:globals' % inst.site,
            'the new function must resolve globals in the dictionary passed in',
            {'globals': kw.get('globals')}, line=ft[0].lineno,
            witness='module global rebinding seen by only one side')
  rd = tpl.rdefs(inst.node)
  kwx = {k.arg: tpl.xnorm(inst, k.value, ft[0]) for k in ft[0].keywords}
  want_cl = ('tuple((dict(zip(self._freevars, %s))[_c0] for _c0 in '
             'self._unbound_factory.__code__.co_freevars))' % p[1])
  alt_cl = ('tuple([dict(zip(self._freevars, %s))[_c0] for _c0 in '
            'self._unbound_factory.__code__.co_freevars])' % p[1])
  facts = {'closure': kwx.get('closure')}
  rep.check(kwx.get('closure') in (want_cl, alt_cl), 'IFACE-BIND',
            '%s:cells-by-name' % inst.site,
            'closure cells must be looked up by variable name for each free '
            'variable of the factory code (the orders of co_freevars of the '
            'original and of the factory differ)', facts, line=ft[0].lineno,
            witness='two free variables whose alphabetical and usage order differ')
  for attr, param in (('__defaults__', p[2]), ('__kwdefaults__', p[3])):
    asg = [n for n in ast.walk(inst.node) if isinstance(n, ast.Assign) and
           isinstance(n.targets[0], ast.Attribute) and n.targets[0].attr == attr]
    ok = len(asg) == 1 and core.norm(asg[0].value) == param and isinstance(
        tpl.expand(inst, asg[0].targets[0].value, asg[0], depth=1), ast.Call)
    if ok:
      # reached whenever the value was given: always, or exactly under a test
      # of that parameter (earlier guard clauses included)
      f_ = formula.condition_formula(inst.node, asg[0], lambda e: core.norm(e))
      # (among the calls that do not fail one of the argument checks)
      valid = formula.TRUE
      for st_ in inst.node.body:
        if isinstance(st_, ast.If) and not st_.orelse and st_.body and isinstance(
            st_.body[-1], ast.Raise):
          valid = valid & ~formula.bool_formula(st_.test, lambda e: core.norm(e))
      ok = any(formula.equivalent(f_, w_, assume=valid)[0] for w_ in (
          formula.TRUE, formula.atom(param), ~formula.atom('%s is None' % param)))
    rep.check(ok, 'IFACE-BIND', '%s:%s' % (inst.site, attr),
              '%s of the new function must be the very object passed in' % attr,
              {'assignments': [core.norm(a) for a in asg]}, line=inst.node.lineno,
              witness='mutable default shared between original and converted')
  gi = pycfg.CFG(inst.node)
  w = {i: 1 for i in range(len(gi.nodes)) if any(
      c is ft[0] for c in pycfg.calls_at(gi, i))}
  rng = gi.count_range(w, skip_labels=())
  calls_bf = [c for c in ast.walk(inst.node) if isinstance(c, ast.Call) and
              isinstance(c.func, ast.Name) and any(
                  k.arg is None and core.norm(k.value) == 'self._extra_locals'
                  for k in c.keywords)]
  bf = rd.reaching(calls_bf[0], calls_bf[0].func.id) if calls_bf else []
  only_fresh = bool(bf) and all(d is ft[0] for d in bf)
  ss = _c10._self_stores(inst.node)
  rep.check(rng == (1, 1) and only_fresh and not ss, 'IFACE-BIND',
            '%s:fresh-binding-per-request' % inst.site,
            'the inner factory must be bound to *this* request\'s globals and '
            'closure cells on every call; a remembered binding hands later '
            'requesters the first requester\'s cells',
            {'FunctionType_calls_per_path': rng, 'reaching_bound_factory': [
                core.norm(d) if not isinstance(d, tuple) else str(d[0]) for d in bf],
             'attribute_writes': [core.norm(x) for x in ss]}, line=ft[0].lineno,
            witness='sibling closures created in a loop (one code object, '
            'different cells)')
  rets = [r for r in ast.walk(inst.node) if isinstance(r, ast.Return)]
  ok = len(rets) == 1 and len(calls_bf) == 1
  if ok:
    rv = tpl.expand(inst, rets[0].value, rets[0], depth=1)
    ok = isinstance(rv, ast.Call) and core.norm(rv) == core.norm(calls_bf[0])
  rep.check(ok, 'IFACE-BIND', '%s:result' % inst.site,
            'instantiate must return the entity produced by calling the bound '
            'inner factory with the extra locals', line=inst.node.lineno)

  # ---------------------------------------------------------------- IFACE-FACTORY
  wf = model.func(TR, '_wrap_into_factory')
  sites = [s for s in tpl.find_sites(model, [TR]) if s.fi.node is wf.node]
  main = [s for s in sites if any(t.functions() for t in s.templates)]
  if len(main) != 1:
    raise core.AnalysisError('_wrap_into_factory: factory template not found')
  s = main[0]
  t = s.templates[0]
  outer = [f for f in t.tree.body if isinstance(f, ast.FunctionDef)]
  ok = len(outer) == 1
  facts = {'template': t.text.strip()}
  if ok:
    o = outer[0]
    inner = [f for f in o.body if isinstance(f, ast.FunctionDef)]
    ok = len(inner) == 1 and not o.args.args
    if ok:
      i = inner[0]
      body_names = [core.norm(x) for x in o.body]
      # dummy closure defs precede the inner def; outer returns inner's name
      ok = (isinstance(o.body[0], ast.Expr) and core.norm(o.body[0].value) ==
            'dummy_closure_defs' and isinstance(o.body[-1], ast.Return) and
            core.norm(o.body[-1].value) == i.name and
            [a.arg for a in i.args.args] == ['factory_args'] and
            isinstance(i.body[0], ast.Expr) and core.norm(i.body[0].value) ==
            'entity_defs' and isinstance(i.body[-1], ast.Return) and
            core.norm(i.body[-1].value) == 'entity_name')
  rep.check(ok, 'IFACE-FACTORY', '%s:template-shape' % wf.site,
            'outer factory: closure declarations, inner factory(extra locals): '
            'entity definitions, return entity; outer returns inner', facts,
            line=s.call.lineno)
  kwv = {k: core.norm(v) for k, v in s.kwargs.items()}
  wp = wf.params(skip_self=False)
  want = {'entity_defs': wp[0], 'entity_name': wp[1]}
  okp = all(kwv.get(k) == v for k, v in want.items())
  # dummy closure definitions: built by a loop over closure_vars
  dcd = s.kwargs.get('dummy_closure_defs')
  fa = s.kwargs.get('factory_args')
  okp = okp and dcd is not None and fa is not None and 'ast.arg(' in tpl.xnorm(
      wf, fa, s.call) and wp[5] in tpl.xnorm(wf, fa, s.call)
  rep.check(okp, 'IFACE-FACTORY',
            '%s:placeholders' % wf.site, 'placeholder wiring of the factory '
            'template', {'kwargs': kwv}, line=s.call.lineno)
  # what goes into the dummy closure definitions: for every closure variable
  # (no filter, no early exit) every statement of a template instantiated with it
  from sa import collect
  accn = core.norm(dcd) if dcd is not None else None
  ys, problems = collect.yields(wf.node)
  mine = [y for y in ys if y[2] == accn]
  cvp = wf.params(skip_self=False)[4]
  ok = len(mine) == 1 and not problems and not any(
      isinstance(x, (ast.Break,)) for x in ast.walk(wf.node))
  if ok:
    levels, elt, _ = mine[0]
    ok = len(levels) == 2 and core.norm(levels[0]['iter']) == cvp and \
        not levels[0]['conds'] and not levels[1]['conds'] and \
        core.norm(elt) == levels[1]['target']
    if ok:
      it = levels[1]['iter']
      ok = isinstance(it, ast.Call) and core.dotted(it.func) == 'templates.replace' and any(
          k.arg == 'var_name' and core.norm(k.value) == levels[0]['target']
          for k in it.keywords)
  rep.check(ok, 'IFACE-FACTORY', '%s:every-closure-var-declared' % wf.site,
            'a cell-creating dummy definition is needed for *every* closure '
            'variable (unused ones included)', line=wf.node.lineno,
            witness='closure with a variable the converted body no longer mentions')
  cr = model.func(TR, '_PythonFnFactory.create')
  call = [c for c in ast.walk(cr.node) if isinstance(c, ast.Call) and
          core.dotted(c.func) == '_wrap_into_factory']
  ok = len(call) == 1
  if ok:
    # arguments by the parameter they bind to (positional or keyword)
    from sa import inline
    bound = inline._bind(wf.node, call[0], False)
    ok = bound is not None
    if ok:
      a = {k: core.norm(v) for k, v in bound.items()}
      ok = a.get(wp[0]) == cr.params()[0] and a.get(wp[1]) == 'self._name' and \
          a.get(wp[4]) == 'self._freevars' and a.get(wp[5]) == 'self._extra_locals.keys()'
  rep.check(ok, 'IFACE-FACTORY', '%s:wiring' % cr.site,
            'create() must wrap the nodes with the stored name, free variables '
            'and extra-local names', line=cr.node.lineno)

  # ---------------------------------------------------------------- IFACE-ARGS
  offenders = []
  n_handlers = 0
  for m in model.modules.values():
    if not m.rel.startswith('malt/converters/'):
      continue
    for c in m.classes.values():
      for hn in ('visit_FunctionDef', 'visit_Lambda'):
        h = c.methods.get(hn)
        if h is None:
          continue
        n_handlers += 1
        prm = h.params()[0]
        for n in ast.walk(h.node):
          if isinstance(n, ast.Assign):
            for tg in n.targets:
              tt = core.norm(tg)
              if tt == prm + '.args':
                v = core.norm(n.value)
                if v not in ('self.visit(%s.args)' % prm,
                             'self.generic_visit(%s.args)' % prm):
                  offenders.append('%s: %s' % (h.site, core.norm(n)))
              if tt.startswith(prm + '.args.') and not tt.startswith(
                  prm + '.args.defaults') and not tt.startswith(
                      prm + '.args.kw_defaults'):
                offenders.append('%s: %s' % (h.site, core.norm(n)))
          if isinstance(n, ast.Call) and core.dotted(n.func) == 'ast.arguments':
            offenders.append('%s: %s' % (h.site, core.norm(n)))
  rep.check(not offenders, 'IFACE-ARGS', 'malt/converters:parameter-lists',
            'a converter rewrites a function\'s parameter list: names, kinds or '
            'order of parameters would change', {'offenders': offenders,
                                                 'handlers_checked': n_handlers},
            witness='positional-only / keyword-only / *args signatures')

  # ---------------------------------------------------------------- IFACE-DECOR
  vf = model.func(FUNCS, 'FunctionTransformer.visit_FunctionDef')
  vp_ = vf.params()[0]
  clear_st = [n for n in ast.walk(vf.node) if isinstance(n, ast.Assign) and
              core.norm(n.targets[0]) == vp_ + '.decorator_list' and isinstance(
                  n.value, ast.List) and not n.value.elts]
  tag_st = [n for n in ast.walk(vf.node) if isinstance(n, ast.Call) and
            core.norm(n.func) == vp_ + '.decorator_list.append' and n.args and
            'autograph_artifact' in core.norm(n.args[0])]
  level_atoms = set()

  def lvl(e):
    t = core.norm(e)
    if t.endswith('.level <= 2') or t.endswith('.level < 3'):
      level_atoms.add(t)
      return 'TOP'
    if t.endswith('.level == 2'):
      return 'TOP2'
    return None
  f_clear = formula.condition_formula(vf.node, clear_st[0], lvl) if len(clear_st) == 1 else None
  f_tag = formula.condition_formula(vf.node, tag_st[0], lvl) if len(tag_st) == 1 else None
  ok1 = f_clear is not None and formula.equivalent(f_clear, formula.atom('TOP'))[0]
  ok2 = f_tag is not None and formula.equivalent(f_tag, ~formula.atom('TOP'))[0]
  rep.check(ok1, 'IFACE-DECOR',
            '%s:top-level-decorators-dropped' % vf.site,
            'decorators must be dropped exactly for the top-level function '
            '(they were already applied to the original)',
            {'condition': str(f_clear)}, line=vf.node.lineno,
            witness='a decorated function: decorator re-applied')
  rep.check(ok2, 'IFACE-DECOR',
            '%s:inner-functions-tagged' % vf.site,
            'inner functions (and only those) must be tagged as artifacts',
            {'condition': str(f_tag)}, line=vf.node.lineno)

  # ---------------------------------------------------------------- IFACE-SELF
  cc = model.func(API, 'converted_call')
  from sa.props import C13 as _c13
  _c13.check_effective_args(rep, cc, 'IFACE-SELF', 'instance-first')

  # ---------------------------------------------------------------- dependencies
  rep.depends('C13', ['CALL-FAITHFUL', 'CALL-FALLBACK', 'CALL-PARTIAL'],
              'calls of converted code go through the call wrapper: a bound method '
              'must receive its instance exactly once and a partial must bind like '
              'the direct call, on the conversion and on the fallback path')
  rep.depends('C15', ['SRC-LAMBDA'],
              'the converted lambda must be the lambda that was requested, '
              'otherwise it accepts different calls')
  rep.depends('C08', ['ACT-TRAV'],
              'a parameter the activity analysis does not record as a parameter is '
              'treated as possibly undefined and overwritten with Undefined(...) '
              'in front of the first statement that rebinds it: the value bound by '
              'the call is lost',
              site_filter=lambda site: (':visit_FunctionDef' in site or
                                        ':visit_Lambda' in site or ':visit_arg' in site)
              and ('field(' not in site or 'field(args' in site))
