"""E4 base: boolean formulas over named atoms, compared by exhaustive truth table."""
import ast
import itertools

from sa import core


class F:

  def __init__(self, atoms, fn, text=None):
    self.atoms = frozenset(atoms)
    self.fn = fn
    self.text = text

  def __and__(a, b):
    return F(a.atoms | b.atoms, lambda r: a.fn(r) and b.fn(r),
             '(%s & %s)' % (a.text, b.text))

  def __or__(a, b):
    return F(a.atoms | b.atoms, lambda r: a.fn(r) or b.fn(r),
             '(%s | %s)' % (a.text, b.text))

  def __invert__(a):
    return F(a.atoms, lambda r: not a.fn(r), '~%s' % a.text)

  def __repr__(self):
    return self.text or '<F>'


TRUE = F([], lambda r: True, 'T')
FALSE = F([], lambda r: False, 'F')


def atom(n):
  return F([n], lambda r, n=n: r[n], n)


def rows(atoms):
  atoms = sorted(atoms)
  if len(atoms) > 14:
    raise core.AnalysisError('formula over %d atoms is too large' % len(atoms))
  for vals in itertools.product([False, True], repeat=len(atoms)):
    yield dict(zip(atoms, vals))


def implies(a, b, assume=TRUE):
  """(holds, counterexample row)."""
  for r in rows(a.atoms | b.atoms | assume.atoms):
    if assume.fn(r) and a.fn(r) and not b.fn(r):
      return False, {k: v for k, v in r.items()}
  return True, None


def equivalent(a, b, assume=TRUE):
  ok, cex = implies(a, b, assume)
  if not ok:
    return ok, cex
  return implies(b, a, assume)


def bool_formula(e, atom_of):
  """Boolean expression -> F; `atom_of(expr)` names leaf atoms (or returns an F)."""
  if isinstance(e, ast.BoolOp):
    vs = [bool_formula(v, atom_of) for v in e.values]
    r = vs[0]
    for v in vs[1:]:
      r = (r & v) if isinstance(e.op, ast.And) else (r | v)
    return r
  if isinstance(e, ast.UnaryOp) and isinstance(e.op, ast.Not):
    return ~bool_formula(e.operand, atom_of)
  if isinstance(e, ast.Constant) and isinstance(e.value, bool):
    return TRUE if e.value else FALSE
  if isinstance(e, ast.IfExp):
    c = bool_formula(e.test, atom_of)
    return (c & bool_formula(e.body, atom_of)) | (~c & bool_formula(e.orelse, atom_of))
  if isinstance(e, ast.Compare) and len(e.ops) == 1 and isinstance(
      e.ops[0], (ast.NotIn, ast.IsNot, ast.NotEq)):
    pos = ast.Compare(e.left, [{ast.NotIn: ast.In, ast.IsNot: ast.Is,
                                ast.NotEq: ast.Eq}[type(e.ops[0])]()],
                      e.comparators)
    return ~bool_formula(pos, atom_of)
  a = atom_of(e)
  if isinstance(a, F):
    return a
  return atom(a if a is not None else 'OPAQUE[%s]' % core.norm(e))
