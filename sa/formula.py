"""E4 base: boolean formulas over named atoms, compared by exhaustive truth table."""
import ast
import itertools

from sa import core


class F:

  def __init__(self, atoms, fn, text=None):
    self.atoms = frozenset(atoms)
    self.fn = fn
    self.text = text

  def __and__(a, b):
    return F(a.atoms | b.atoms, lambda r: a.fn(r) and b.fn(r),
             '(%s & %s)' % (a.text, b.text))

  def __or__(a, b):
    return F(a.atoms | b.atoms, lambda r: a.fn(r) or b.fn(r),
             '(%s | %s)' % (a.text, b.text))

  def __invert__(a):
    return F(a.atoms, lambda r: not a.fn(r), '~%s' % a.text)

  def __repr__(self):
    return self.text or '<F>'


TRUE = F([], lambda r: True, 'T')
FALSE = F([], lambda r: False, 'F')


def atom(n):
  return F([n], lambda r, n=n: r[n], n)


def rows(atoms):
  atoms = sorted(atoms)
  if len(atoms) > 14:
    raise core.AnalysisError('formula over %d atoms is too large' % len(atoms))
  for vals in itertools.product([False, True], repeat=len(atoms)):
    yield dict(zip(atoms, vals))


def implies(a, b, assume=TRUE):
  """(holds, counterexample row)."""
  for r in rows(a.atoms | b.atoms | assume.atoms):
    if assume.fn(r) and a.fn(r) and not b.fn(r):
      return False, {k: v for k, v in r.items()}
  return True, None


def equivalent(a, b, assume=TRUE):
  ok, cex = implies(a, b, assume)
  if not ok:
    return ok, cex
  return implies(b, a, assume)


def bool_formula(e, atom_of):
  """Boolean expression -> F; `atom_of(expr)` names leaf atoms (or returns an F)."""
  if isinstance(e, ast.BoolOp):
    vs = [bool_formula(v, atom_of) for v in e.values]
    r = vs[0]
    for v in vs[1:]:
      r = (r & v) if isinstance(e.op, ast.And) else (r | v)
    return r
  if isinstance(e, ast.UnaryOp) and isinstance(e.op, ast.Not):
    return ~bool_formula(e.operand, atom_of)
  if isinstance(e, ast.Constant) and isinstance(e.value, bool):
    return TRUE if e.value else FALSE
  if isinstance(e, ast.IfExp):
    c = bool_formula(e.test, atom_of)
    return (c & bool_formula(e.body, atom_of)) | (~c & bool_formula(e.orelse, atom_of))
  if isinstance(e, ast.Compare) and len(e.ops) == 1 and isinstance(
      e.ops[0], (ast.NotIn, ast.IsNot, ast.NotEq)):
    pos = ast.Compare(e.left, [{ast.NotIn: ast.In, ast.IsNot: ast.Is,
                                ast.NotEq: ast.Eq}[type(e.ops[0])]()],
                      e.comparators)
    return ~bool_formula(pos, atom_of)
  # a count compared with an integer constant: n < k == n <= k-1, n >= k == n > k-1
  if isinstance(e, ast.Compare) and len(e.ops) == 1 and isinstance(
      e.ops[0], (ast.Lt, ast.GtE)) and isinstance(e.left, ast.Call) and isinstance(
          e.left.func, ast.Name) and e.left.func.id == 'len' and isinstance(
              e.comparators[0], ast.Constant) and type(e.comparators[0].value) is int:
    k = ast.Constant(e.comparators[0].value - 1)
    return bool_formula(ast.Compare(
        e.left, [ast.LtE() if isinstance(e.ops[0], ast.Lt) else ast.Gt()], [k]), atom_of)
  # a > b == not (a <= b);  a >= b == not (a < b)
  if isinstance(e, ast.Compare) and len(e.ops) == 1 and isinstance(
      e.ops[0], (ast.Gt, ast.GtE)):
    pos = ast.Compare(e.left, [ast.LtE() if isinstance(e.ops[0], ast.Gt) else ast.Lt()],
                      e.comparators)
    return ~bool_formula(pos, atom_of)
  a = atom_of(e)
  if isinstance(a, F):
    return a
  return atom(a if a is not None else 'OPAQUE[%s]' % core.norm(e))


def path_condition(fn_node, target, loop_scoped=True):
  """[(polarity, test)] under which `target` (a node inside fn_node) executes:
  the tests of the enclosing if statements / conditional expressions, plus the
  negation of every earlier sibling `if` whose taken branch always leaves
  (return / raise / continue / break)."""
  out = []

  def leaves(stmts):
    if not stmts:
      return False
    last = stmts[-1]
    if isinstance(last, (ast.Return, ast.Raise, ast.Continue, ast.Break)):
      return True
    if isinstance(last, ast.If):
      return leaves(last.body) and leaves(last.orelse)
    return False

  def may_leave(stmts):
    for st in stmts:
      if isinstance(st, (ast.Return, ast.Raise, ast.Continue, ast.Break)):
        return True
      if isinstance(st, ast.If) and (may_leave(st.body) or may_leave(st.orelse)):
        return True
    return False

  def contains(n):
    return n is target or any(x is target for x in ast.walk(n))

  def rec_expr(e):
    if e is target:
      return True
    if isinstance(e, ast.IfExp):
      if contains(e.body):
        out.append(('T', e.test))
        return rec_expr(e.body)
      if contains(e.orelse):
        out.append(('F', e.test))
        return rec_expr(e.orelse)
    if isinstance(e, ast.BoolOp) and len(e.values) > 1:
      for i, v in enumerate(e.values):
        if contains(v):
          for prev in e.values[:i]:
            out.append(('T' if isinstance(e.op, ast.And) else 'F', prev))
          return rec_expr(v)
    for ch in ast.iter_child_nodes(e):
      if contains(ch):
        return rec_expr(ch)
    return True

  def rec(stmts):
    for i, s in enumerate(stmts):
      if isinstance(s, ast.If) and not contains(s):
        if leaves(s.body) and not may_leave(s.orelse):
          out.append(('F', s.test))
        elif leaves(s.orelse) and not may_leave(s.body):
          out.append(('T', s.test))
        elif may_leave(s.body) or may_leave(s.orelse):
          # some branches leave, some fall through: ('C', stmt) stands for
          # "this statement completes normally" (see completes())
          out.append(('C', s))
        continue
      if not contains(s):
        continue
      if s is target:
        return True          # the statement itself: its own test is not a condition
      if isinstance(s, ast.If):
        if contains(s.test):
          return rec_expr(s.test)
        if any(contains(b) for b in s.body):
          out.append(('T', s.test))
          return rec(s.body)
        out.append(('F', s.test))
        return rec(s.orelse)
      for f in ('body', 'orelse', 'finalbody'):
        blk = getattr(s, f, None)
        if isinstance(blk, list) and blk and isinstance(blk[0], ast.stmt) and \
            any(contains(b) for b in blk):
          return rec(blk)
      for h in getattr(s, 'handlers', []) or []:
        if any(contains(b) for b in h.body):
          return rec(h.body)
      return rec_expr(s)
    return True

  rec(fn_node.body)
  return out


def completes(stmts, atom_of):
  """Formula under which the statement list runs to its end (no return / raise
  / continue / break on the way); loops, with and try blocks count as
  completing."""
  f = TRUE
  for st in stmts:
    if isinstance(st, (ast.Return, ast.Raise, ast.Continue, ast.Break)):
      return FALSE
    if isinstance(st, ast.If):
      c = bool_formula(st.test, atom_of)
      f = f & ((c & completes(st.body, atom_of)) | (~c & completes(st.orelse, atom_of)))
  return f


def condition_formula(fn_node, target, atom_of):
  f = TRUE
  for pol, t in path_condition(fn_node, target):
    if pol == 'C':
      f = f & completes([t], atom_of)
      continue
    g = bool_formula(t, atom_of)
    f = f & (g if pol == 'T' else ~g)
  return f


def value_cases(fn_node, expr, at_node, atom_of):
  """[(formula, plain_expr)]: the alternatives of a (possibly nested) conditional
  expression `expr` located at at_node, each with the condition under which it
  is the value (path condition of at_node included)."""
  base = condition_formula(fn_node, at_node, atom_of)
  out = []

  def rec(e, f):
    if isinstance(e, ast.IfExp):
      c = bool_formula(e.test, atom_of)
      rec(e.body, f & c)
      rec(e.orelse, f & ~c)
    else:
      out.append((f, e))
  rec(expr, base)
  return out


def return_cases(fn_node, atom_of):
  """[(formula, value_expr or None)] over every return statement of fn_node
  (nested defs excluded) plus the implicit return at the end."""
  out = []
  for r in core.walk_no_nested(fn_node):
    if isinstance(r, ast.Return):
      if r.value is None:
        out.append((condition_formula(fn_node, r, atom_of), None))
      else:
        out.extend(value_cases(fn_node, r.value, r, atom_of))
  return out


def satisfiable(a):
  return any(a.fn(r) for r in rows(a.atoms))


def expanding(fn_node, atom_of):
  """atom_of wrapper: a plain local name that holds a boolean expression (one
  reaching definition) is replaced by the formula of that expression."""
  from sa import tpl

  def wrapped(e, depth=0):
    if isinstance(e, ast.Name) and depth < 4:
      try:
        ds = tpl.rdefs(fn_node).reaching(e, e.id)
      except Exception:
        ds = None
      if ds and len(ds) == 1 and isinstance(ds[0], ast.AST) and isinstance(
          ds[0], (ast.Compare, ast.BoolOp, ast.UnaryOp, ast.Call, ast.Constant)):
        return bool_formula(ds[0], lambda x: wrapped(x, depth + 1))
    return atom_of(e)
  return wrapped


def result_formula(fn_node, atom_of):
  """The boolean a function returns, as one formula: OR over its return points
  of (condition of the return AND formula of the returned expression)."""
  f = FALSE
  for c, v in return_cases(fn_node, atom_of):
    if v is None:
      continue
    f = f | (c & bool_formula(v, atom_of))
  return f
