"""E3: statement-level CFG of a Python function, with the path queries the rules
need (dominators, mandatory edges, min/max event counts on entry->exit paths,
bounded path enumeration).

Node kinds: entry, exit (normal return / fall through), raise (uncaught raise),
test (If/While test, For iter, handler entry), stmt (simple statements, with),
return, raisestmt, break, continue.
Edges carry a label: None, 'T', 'F', 'item', 'stop', 'exc'.
"""
import ast


class CFG:

  def __init__(self, fn):
    self.fn = fn
    self.nodes = []     # (kind, astnode)
    self.succ = {}
    self.entry = self._new('entry')
    self.exit = self._new('exit')
    self.raise_ = self._new('raise')
    self._build()

  def _new(self, kind, a=None):
    i = len(self.nodes)
    self.nodes.append((kind, a))
    self.succ[i] = []
    return i

  def _edge(self, a, b, lab=None):
    if (b, lab) not in self.succ[a]:
      self.succ[a].append((b, lab))

  def _connect(self, preds, n):
    for p, l in preds:
      self._edge(p, n, l)

  def _build(self):
    out = self._seq(self.fn.body, [(self.entry, None)], None, [], [])
    for p, l in out:
      self._edge(p, self.exit, l)

  # handlers: stack of lists of handler entry nodes; finals: stack of finalbody
  def _seq(self, stmts, preds, loop, handlers, finals):
    for s in stmts:
      preds = self._stmt(s, preds, loop, handlers, finals)
    return preds

  def _exc_edges(self, n, handlers):
    if handlers:
      for h in handlers[-1]:
        self._edge(n, h, 'exc')

  def _stmt(self, s, preds, loop, handlers, finals):
    if isinstance(s, ast.If):
      t = self._new('test', s.test)
      self._connect(preds, t)
      self._exc_edges(t, handlers)
      a = self._seq(s.body, [(t, 'T')], loop, handlers, finals)
      b = self._seq(s.orelse, [(t, 'F')], loop, handlers, finals)
      return a + b
    if isinstance(s, ast.While):
      t = self._new('test', s.test)
      self._connect(preds, t)
      self._exc_edges(t, handlers)
      brk = []
      body = self._seq(s.body, [(t, 'T')], (t, brk), handlers, finals)
      self._connect(body, t)
      const_true = isinstance(s.test, ast.Constant) and bool(s.test.value)
      out = [] if const_true else [(t, 'F')]
      if s.orelse:
        out = self._seq(s.orelse, out, loop, handlers, finals)
      return out + brk
    if isinstance(s, (ast.For, ast.AsyncFor)):
      t = self._new('test', s.iter)
      self._connect(preds, t)
      self._exc_edges(t, handlers)
      brk = []
      body = self._seq(s.body, [(t, 'item')], (t, brk), handlers, finals)
      self._connect(body, t)
      out = [(t, 'stop')]
      if s.orelse:
        out = self._seq(s.orelse, out, loop, handlers, finals)
      return out + brk
    if isinstance(s, ast.Return):
      n = self._new('return', s)
      self._connect(preds, n)
      self._exc_edges(n, handlers)
      self._edge(n, self.exit)
      return []
    if isinstance(s, ast.Raise):
      n = self._new('raisestmt', s)
      self._connect(preds, n)
      if handlers:
        for h in handlers[-1]:
          self._edge(n, h, 'exc')
      else:
        self._edge(n, self.raise_)
      return []
    if isinstance(s, ast.Break):
      n = self._new('break', s)
      self._connect(preds, n)
      if loop is None:      # CFG of a detached loop body: ends the iteration
        self._edge(n, self.exit, 'break')
      else:
        loop[1].append((n, None))
      return []
    if isinstance(s, ast.Continue):
      n = self._new('continue', s)
      self._connect(preds, n)
      if loop is None:
        self._edge(n, self.exit, 'continue')
      else:
        self._edge(n, loop[0])
      return []
    if isinstance(s, (ast.With, ast.AsyncWith)):
      n = self._new('with', s)
      self._connect(preds, n)
      self._exc_edges(n, handlers)
      return self._seq(s.body, [(n, None)], loop, handlers, finals)
    if isinstance(s, ast.Try):
      hentries = [self._new('handler', h) for h in s.handlers]
      body = self._seq(s.body, preds, loop,
                       handlers + [hentries] if hentries else handlers, finals)
      out = self._seq(s.orelse, body, loop, handlers, finals)
      for h, he in zip(s.handlers, hentries):
        out = out + self._seq(h.body, [(he, None)], loop, handlers, finals)
      if s.finalbody:
        out = self._seq(s.finalbody, out, loop, handlers, finals)
      return out
    if isinstance(s, (ast.FunctionDef, ast.AsyncFunctionDef, ast.ClassDef)):
      n = self._new('def', s)
      self._connect(preds, n)
      return [(n, None)]
    n = self._new('stmt', s)
    self._connect(preds, n)
    self._exc_edges(n, handlers)
    return [(n, None)]

  # ------------------------------------------------------------ queries
  def preds(self):
    pred = {i: [] for i in range(len(self.nodes))}
    for a in self.succ:
      for b, l in self.succ[a]:
        pred[b].append((a, l))
    return pred

  def reachable(self, start=None, skip_edge=None, skip_labels=()):
    start = self.entry if start is None else start
    seen = {start}
    st = [start]
    while st:
      x = st.pop()
      for b, l in self.succ[x]:
        if (x, b, l) == skip_edge or l in skip_labels:
          continue
        if b not in seen:
          seen.add(b)
          st.append(b)
    return seen

  def dominators(self, skip_labels=()):
    n = len(self.nodes)
    pred = {i: [] for i in range(n)}
    for a in self.succ:
      for b, l in self.succ[a]:
        if l not in skip_labels:
          pred[b].append(a)
    reach = self.reachable(skip_labels=skip_labels)
    dom = {i: set(reach) for i in reach}
    dom[self.entry] = {self.entry}
    ch = True
    while ch:
      ch = False
      for i in reach:
        if i == self.entry:
          continue
        ps = [p for p in pred[i] if p in reach]
        if not ps:
          continue
        new = set.intersection(*[dom[p] for p in ps]) | {i}
        if new != dom[i]:
          dom[i] = new
          ch = True
    return dom

  def mandatory_edges(self, target, skip_labels=('exc',)):
    """Branch edges (test, label) every entry->target path must take."""
    res = []
    for i, (k, a) in enumerate(self.nodes):
      if k != 'test':
        continue
      for b, l in self.succ[i]:
        if l in skip_labels:
          continue
        if target not in self.reachable(skip_edge=(i, b, l),
                                        skip_labels=skip_labels):
          res.append((i, l))
    return res

  def count_range(self, weight, start=None, ends=None, skip_labels=('exc',)):
    """(min, max) of sum(weight[node]) over all paths start->ends.

    max is None (unbounded) if a weighted node lies on a reachable cycle.
    """
    start = self.entry if start is None else start
    ends = {self.exit} if ends is None else set(ends)
    succ = {a: [b for b, l in self.succ[a] if l not in skip_labels]
            for a in self.succ}
    reach = self.reachable(start, skip_labels=skip_labels)
    # nodes that can reach an end
    pred = {i: [] for i in self.succ}
    for a in succ:
      for b in succ[a]:
        pred[b].append(a)
    can = set(ends)
    st = list(ends)
    while st:
      x = st.pop()
      for p in pred[x]:
        if p not in can:
          can.add(p)
          st.append(p)
    live = reach & can
    if start not in live:
      return None
    # Tarjan SCC on live subgraph
    index = {}
    low = {}
    onst = set()
    stack = []
    comps = []
    comp_of = {}
    counter = [0]

    def strong(v):
      work = [(v, iter([w for w in succ[v] if w in live]))]
      index[v] = low[v] = counter[0]
      counter[0] += 1
      stack.append(v)
      onst.add(v)
      while work:
        x, it = work[-1]
        adv = False
        for w in it:
          if w not in index:
            index[w] = low[w] = counter[0]
            counter[0] += 1
            stack.append(w)
            onst.add(w)
            work.append((w, iter([u for u in succ[w] if u in live])))
            adv = True
            break
          elif w in onst:
            low[x] = min(low[x], index[w])
        if adv:
          continue
        work.pop()
        if work:
          low[work[-1][0]] = min(low[work[-1][0]], low[x])
        if low[x] == index[x]:
          c = []
          while True:
            w = stack.pop()
            onst.discard(w)
            c.append(w)
            comp_of[w] = len(comps)
            if w == x:
              break
          comps.append(c)

    for v in live:
      if v not in index:
        strong(v)
    cyc = {}
    for ci, c in enumerate(comps):
      cyc[ci] = len(c) > 1 or any(c[0] in succ[c[0]] for _ in [0])
    # comps are in reverse topological order (sinks first)
    mn = {}
    mx = {}
    for ci, c in enumerate(comps):
      w_min = min(weight.get(x, 0) for x in c) if not cyc[ci] else 0
      w_sum = sum(weight.get(x, 0) for x in c)
      unbounded = cyc[ci] and w_sum > 0
      outs = set()
      for x in c:
        for y in succ[x]:
          if y in live and comp_of[y] != ci:
            outs.add(comp_of[y])
      is_end = any(x in ends for x in c)
      cands_min = [mn[o] for o in outs] + ([0] if is_end else [])
      cands_max = [mx[o] for o in outs] + ([0] if is_end else [])
      base_min = min(cands_min) if cands_min else 0
      if any(v is None for v in cands_max):
        base_max = None
      else:
        base_max = max(cands_max) if cands_max else 0
      mn[ci] = base_min + (w_min if not cyc[ci] else 0)
      if unbounded or base_max is None:
        mx[ci] = None
      else:
        mx[ci] = base_max + (w_sum if not cyc[ci] else 0)
    return mn[comp_of[start]], mx[comp_of[start]]

  def paths(self, limit=2000, skip_labels=('exc',), ends=None, max_visits=1):
    """Enumerates acyclic-ish entry->end paths (each node at most max_visits)."""
    ends = {self.exit, self.raise_} if ends is None else set(ends)
    out = []
    stack = [(self.entry, [(self.entry, None)], {self.entry: 1})]
    while stack and len(out) < limit:
      x, path, seen = stack.pop()
      if x in ends:
        out.append(path)
        continue
      for b, l in self.succ[x]:
        if l in skip_labels:
          continue
        if seen.get(b, 0) >= max_visits:
          continue
        s2 = dict(seen)
        s2[b] = s2.get(b, 0) + 1
        stack.append((b, path + [(b, l)], s2))
    return out

  def node_of(self, astnode):
    for i, (k, a) in enumerate(self.nodes):
      if a is astnode:
        return i
    return None

  def nodes_where(self, pred):
    return [i for i, (k, a) in enumerate(self.nodes) if a is not None and
            pred(k, a)]

  def exprs_of(self, i):
    """The expressions evaluated *at* node i (not nested statements)."""
    k, a = self.nodes[i]
    if a is None:
      return []
    if k == 'test' or k == 'handler':
      return [a] if isinstance(a, ast.expr) else (
          [a.type] if getattr(a, 'type', None) else [])
    if k == 'with':
      return [it.context_expr for it in a.items]
    if k == 'def':
      return list(a.decorator_list) if hasattr(a, 'decorator_list') else []
    return [a]


def calls_at(cfg, i):
  out = []
  for e in cfg.exprs_of(i):
    for n in ast.walk(e):
      if isinstance(n, ast.Call):
        out.append(n)
  return out
