"""Command line: python -m sa.run <Cxx> --tier quick|thorough | --replay <file>."""
import argparse
import importlib
import json
import os
import sys
import traceback

from sa import core


def run_property(prop, tier, seed):
  try:
    mod = importlib.import_module('sa.props.%s' % prop)
  except ImportError as e:
    print('ANALYSIS-ERROR property=%s no checker module: %s' % (prop, e))
    return 2
  try:
    model = core.Model()
    rep = core.Report(prop, tier, model)
    try:
      mod.check(model, rep, tier)
    except Exception as e:  # pylint:disable=broad-except
      # the rules evaluated so far stand: if they already found a violation that
      # is not a listed finding, report it (exit 1); otherwise the run is an
      # analysis error
      if not any(rep._known_entry(v) is None for v in rep.violations):
        raise
      if not isinstance(e, core.AnalysisError):
        traceback.print_exc()
      print('NOTE property=%s a later rule could not be evaluated (%s: %s); the '
            'violations found before it are reported' % (prop, type(e).__name__,
                                                         str(e)[:120]))
      rep.floors = {}
      rep.notes.append('check stopped early: %s: %s' % (type(e).__name__, str(e)[:200]))
      return rep.finish(seed)
    missed = []
    if tier == 'thorough':
      from sa import thorough
      missed = thorough.extend(prop, rep)
    code = rep.finish(seed)
    if missed and code == 0:
      # a clean verdict from a checker that misses its own positive controls is
      # not a verdict
      print('ANALYSIS-ERROR property=%s self-test failed (seeded change not '
            'reported / alarm on a behaviour-preserving refactoring): %s' %
            (prop, ', '.join(missed)))
      return 2
    return code
  except core.AnalysisError as e:
    print('ANALYSIS-ERROR property=%s %s' % (prop, e))
    return 2
  except Exception:  # a crash of the checker is never a verdict
    traceback.print_exc()
    print('ANALYSIS-ERROR property=%s checker crashed (see traceback)' % prop)
    return 2


def replay(path):
  d = json.load(open(path))
  prop = d['property']
  mod = importlib.import_module('sa.props.%s' % prop)
  model = core.Model()
  rep = core.Report(prop, 'quick', model)
  mod.check(model, rep, 'quick')
  hit = [v for v in rep.violations
         if v['rule'] == d['rule'] and v['site'] == d['site']]
  if hit:
    print('replay: %s at %s still violated: %s' %
          (d['rule'], d['site'], hit[0]['msg']))
    print('VIOLATION property=%s replay=%s' % (prop, path))
    return 1
  print('replay: %s at %s no longer violated' % (d['rule'], d['site']))
  return 0


def main():
  ap = argparse.ArgumentParser()
  ap.add_argument('prop', nargs='?')
  ap.add_argument('--tier', default=os.environ.get('VERIF_TIER', 'quick'))
  ap.add_argument('--replay')
  a = ap.parse_args()
  seed = int(os.environ.get('VERIF_SEED', '0') or 0)
  if a.replay:
    sys.exit(replay(a.replay))
  if not a.prop:
    ap.error('property id required')
  sys.exit(run_property(a.prop, a.tier, seed))


if __name__ == '__main__':
  main()
