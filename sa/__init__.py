"""Static-analysis checkers for diastatic-malt (see /verif/DESIGN.md).

Nothing in this package imports or executes code from the repository under
analysis: every module of `malt/` is read as text and parsed with `ast`.
"""
