"""E0 (resolved program model) and E6 (report / evidence / known findings)."""
import ast
import hashlib
import json
import os
import pathlib
import sys
import time

VERIF = pathlib.Path(__file__).resolve().parent.parent
REPO = pathlib.Path(os.environ.get('VERIF_REPO', '/repo'))
PKG = 'malt'


class AnalysisError(Exception):
  """An entry point a rule needs is missing, or an idiom cannot be evaluated."""


# --------------------------------------------------------------------------
# E0: program model
# --------------------------------------------------------------------------

class FuncInfo:

  def __init__(self, module, node, cls=None, outer=None):
    self.module = module
    self.node = node
    self.cls = cls
    self.outer = outer
    self.name = node.name

  @property
  def qualname(self):
    if self.cls is not None:
      return self.cls.name + '.' + self.name
    if self.outer is not None:
      return self.outer.qualname + '.' + self.name
    return self.name

  @property
  def site(self):
    return '%s:%s' % (self.module.rel, self.qualname)

  def params(self, skip_self=True):
    a = self.node.args
    ps = [x.arg for x in a.posonlyargs + a.args]
    if skip_self and self.cls is not None and ps and not self.is_static():
      ps = ps[1:]
    return ps

  def view(self, depth=3, keep=(), only=None):
    """This function with its private helpers expanded (sa/inline.py view):
    the same statements whether the work sits in the function or in helpers."""
    cache = self.__dict__.setdefault('_views', {})
    key = (depth, tuple(sorted(keep)), tuple(sorted(only)) if only is not None else None)
    if key not in cache:
      from sa import inline
      cache[key] = inline.view(self.node, self.cls.node if self.cls else None,
                               self.module.tree, depth, keep, only)
    return cache[key]

  def is_static(self):
    for d in self.node.decorator_list:
      if isinstance(d, ast.Name) and d.id == 'staticmethod':
        return True
    return False

  def __repr__(self):
    return '<func %s>' % self.site


class ClassInfo:

  def __init__(self, module, node):
    self.module = module
    self.node = node
    self.name = node.name
    self.methods = {}
    self.attrs = {}
    for s in node.body:
      if isinstance(s, ast.FunctionDef):
        self.methods[s.name] = FuncInfo(module, s, cls=self)
      elif isinstance(s, ast.Assign) and len(s.targets) == 1 and isinstance(
          s.targets[0], ast.Name):
        self.attrs[s.targets[0].id] = s.value
    self._mro = None

  @property
  def site(self):
    return '%s:%s' % (self.module.rel, self.name)

  def base_refs(self):
    out = []
    for b in self.node.bases:
      r = self.module.model.resolve(self.module, b)
      out.append(r if r is not None else ('ext', ast.unparse(b)))
    return out

  def mro(self):
    """Linearised ancestors (repo classes as ClassInfo, others as dotted str)."""
    if self._mro is None:
      out = [self]
      seen = {id(self)}
      for kind, b in [(r[0], r[1]) for r in self.base_refs()]:
        if kind == 'class':
          for c in b.mro():
            if id(c) not in seen:
              seen.add(id(c))
              out.append(c)
        else:
          out.append(b if isinstance(b, str) else str(b))
      self._mro = out
    return self._mro

  def find(self, name):
    for c in self.mro():
      if isinstance(c, ClassInfo) and name in c.methods:
        return c.methods[name]
    return None

  def reaches(self, ext_names):
    return any(isinstance(c, str) and c in ext_names for c in self.mro())

  def is_ast_visitor(self):
    return self.reaches({'ast.NodeVisitor', 'ast.NodeTransformer'})

  def is_ast_transformer(self):
    return self.reaches({'ast.NodeTransformer'})

  def __repr__(self):
    return '<class %s>' % self.site


class ModuleInfo:

  def __init__(self, model, name, path, rel):
    self.model = model
    self.name = name
    self.path = path
    self.rel = rel
    self.src = path.read_text()
    self.tree = ast.parse(self.src, filename=str(path))
    # helpers that are new with respect to the reference tree are substituted
    # back into their callers (sa/inline.py), so "extract method" is invisible
    from sa import inline
    self.inlined_calls = inline.apply(self.tree, rel)
    self.imports = {}
    self.functions = {}
    self.classes = {}
    self.assigns = {}
    for s in self.tree.body:
      self._index(s)

  def _index(self, s):
    if isinstance(s, ast.Import):
      for a in s.names:
        if a.asname:
          self.imports[a.asname] = a.name
        else:
          self.imports[a.name.split('.')[0]] = a.name.split('.')[0]
    elif isinstance(s, ast.ImportFrom):
      base = s.module or ''
      if s.level:
        parts = self.name.split('.')
        parts = parts[:len(parts) - s.level]
        base = '.'.join(parts + ([s.module] if s.module else []))
      for a in s.names:
        self.imports[a.asname or a.name] = base + '.' + a.name
    elif isinstance(s, ast.FunctionDef):
      self.functions[s.name] = FuncInfo(self, s)
    elif isinstance(s, ast.ClassDef):
      self.classes[s.name] = ClassInfo(self, s)
    elif isinstance(s, ast.Assign):
      for t in s.targets:
        if isinstance(t, ast.Name):
          self.assigns[t.id] = s.value
    elif isinstance(s, ast.AnnAssign) and isinstance(s.target, ast.Name) and s.value:
      self.assigns[s.target.id] = s.value
    elif isinstance(s, (ast.If, ast.Try)):
      for sub in ast.iter_child_nodes(s):
        if isinstance(sub, ast.stmt):
          self._index(sub)

  def all_functions(self):
    """Every def in the module (methods and nested defs included)."""
    out = []

    def walk(fi):
      out.append(fi)
      for n in ast.walk(fi.node):
        pass
      for s in _nested_defs(fi.node):
        walk(FuncInfo(self, s, outer=fi))

    for f in self.functions.values():
      walk(f)
    for c in self.classes.values():
      for m in c.methods.values():
        walk(m)
    return out


def _nested_defs(fn):
  out = []

  def rec(n):
    for ch in ast.iter_child_nodes(n):
      if isinstance(ch, ast.FunctionDef):
        out.append(ch)
      elif isinstance(ch, (ast.ClassDef, ast.Lambda)):
        continue
      else:
        rec(ch)

  rec(fn)
  return out


class Model:
  """All modules of malt/, parsed, with import / class / method resolution."""

  def __init__(self, repo=None):
    self.repo = pathlib.Path(repo) if repo else REPO
    root = self.repo / PKG
    if not root.is_dir():
      raise AnalysisError('package directory %s not found' % root)
    self.modules = {}
    self.by_rel = {}
    self.unparsed = []
    for p in sorted(root.rglob('*.py')):
      rel = str(p.relative_to(self.repo))
      parts = list(p.relative_to(self.repo).with_suffix('').parts)
      if parts[-1] == '__init__':
        parts = parts[:-1]
      name = '.'.join(parts)
      try:
        m = ModuleInfo(self, name, p, rel)
      except SyntaxError as e:
        raise AnalysisError('cannot parse %s: %s' % (rel, e))
      self.modules[name] = m
      self.by_rel[rel] = m

  # ---- lookup with hard failure (vanished anchor => analysis error)
  def module(self, key):
    m = self.by_rel.get(key) or self.modules.get(key)
    if m is None:
      raise AnalysisError('module %s not found' % key)
    return m

  def cls(self, rel, name):
    m = self.module(rel)
    if name not in m.classes:
      raise AnalysisError('class %s not found in %s' % (name, rel))
    return m.classes[name]

  def func(self, rel, qualname):
    m = self.module(rel)
    parts = qualname.split('.')
    if len(parts) == 1:
      f = m.functions.get(parts[0])
    else:
      c = m.classes.get(parts[0])
      f = c.methods.get(parts[1]) if c else None
      if f is None and parts[0] in m.functions:
        for s in _nested_defs(m.functions[parts[0]].node):
          if s.name == parts[1]:
            f = FuncInfo(m, s, outer=m.functions[parts[0]])
    if f is None:
      raise AnalysisError('function %s not found in %s' % (qualname, rel))
    return f

  def has_func(self, rel, qualname):
    try:
      self.func(rel, qualname)
      return True
    except AnalysisError:
      return False

  # ---- name resolution
  def resolve_dotted(self, dotted):
    """'malt.pyct.templates.replace' -> ('func', FuncInfo) etc."""
    if dotted in self.modules:
      return ('module', self.modules[dotted])
    if '.' in dotted:
      head, last = dotted.rsplit('.', 1)
      r = self.resolve_dotted(head)
      if r and r[0] == 'module':
        return self._member(r[1], last)
      if r and r[0] == 'class':
        f = r[1].find(last)
        if f:
          return ('func', f)
        if last in r[1].attrs:
          return ('classattr', r[1], last)
        return None
      if r and r[0] == 'ext':
        return ('ext', dotted)
    if not dotted.startswith(PKG + '.') and dotted != PKG:
      return ('ext', dotted)
    return None

  def _member(self, mod, name, depth=0):
    if name in mod.functions:
      return ('func', mod.functions[name])
    if name in mod.classes:
      return ('class', mod.classes[name])
    if name in mod.imports and depth < 6:
      d = mod.imports[name]
      if d.startswith(PKG):
        r = self.resolve_dotted(d)
        if r:
          return r
        # submodule import: from malt.pyct import templates
        return None
      return ('ext', d)
    if name in mod.assigns:
      return ('var', mod, name)
    sub = mod.name + '.' + name
    if sub in self.modules:
      return ('module', self.modules[sub])
    return None

  def resolve(self, mod, expr):
    """Resolve a Name / dotted Attribute expression written in module `mod`."""
    parts = []
    e = expr
    while isinstance(e, ast.Attribute):
      parts.append(e.attr)
      e = e.value
    if not isinstance(e, ast.Name):
      return None
    parts.append(e.id)
    parts.reverse()
    cur = self._member(mod, parts[0])
    if cur is None:
      return None
    for p in parts[1:]:
      if cur[0] == 'module':
        cur = self._member(cur[1], p)
      elif cur[0] == 'class':
        f = cur[1].find(p)
        if f:
          cur = ('func', f)
        elif p in cur[1].attrs:
          cur = ('classattr', cur[1], p)
        else:
          # attribute declared in a base?
          found = None
          for c in cur[1].mro():
            if isinstance(c, ClassInfo) and p in c.attrs:
              found = ('classattr', c, p)
              break
          cur = found
      elif cur[0] == 'ext':
        cur = ('ext', cur[1] + '.' + p)
      else:
        return None
      if cur is None:
        return None
    return cur

  def classes(self):
    for m in self.modules.values():
      for c in m.classes.values():
        yield c

  def visitor_classes(self):
    return [c for c in self.classes() if c.is_ast_visitor()]

  def digest(self, rels=None):
    h = hashlib.sha256()
    for rel in sorted(rels if rels is not None else self.by_rel):
      m = self.by_rel.get(rel)
      if m is not None:
        h.update(rel.encode())
        h.update(m.src.encode())
    return h.hexdigest()[:16]


# --------------------------------------------------------------------------
# small AST helpers shared by the rules
# --------------------------------------------------------------------------

def dotted(e):
  """'a.b.c' for Name/Attribute chains, else None."""
  parts = []
  while isinstance(e, ast.Attribute):
    parts.append(e.attr)
    e = e.value
  if isinstance(e, ast.Name):
    parts.append(e.id)
    return '.'.join(reversed(parts))
  return None


def calls_in(node):
  return [n for n in ast.walk(node) if isinstance(n, ast.Call)]


def norm(node):
  """Normalised source text of a node (formatting-independent)."""
  return ast.unparse(node)


def preorder(node):
  """Depth-first, field order: statements in program order, sub-expressions in
  (approximately) evaluation order -- independent of recorded positions, which
  the normalising pre-pass does not preserve."""
  yield node
  for ch in ast.iter_child_nodes(node):
    yield from preorder(ch)


def walk_no_nested(node, include_self=False):
  """ast.walk that does not descend into nested defs/lambdas/classes."""
  todo = list(ast.iter_child_nodes(node)) if not include_self else [node]
  while todo:
    n = todo.pop()
    yield n
    if isinstance(n, (ast.FunctionDef, ast.AsyncFunctionDef, ast.Lambda,
                      ast.ClassDef)):
      continue
    todo.extend(ast.iter_child_nodes(n))


# --------------------------------------------------------------------------
# E6: report
# --------------------------------------------------------------------------

KNOWN_FILE = VERIF / 'known_findings.json'


def load_known():
  if not KNOWN_FILE.exists():
    return []
  return json.loads(KNOWN_FILE.read_text())


class Report:

  def __init__(self, prop, tier, model=None):
    self.prop = prop
    self.tier = tier
    self.model = model
    self.t0 = time.time()
    self.instances = []      # (rule, site, verdict, facts, nontrivial)
    self.violations = []     # dicts
    self.floors = {}
    self.counts = {}
    self.notes = []
    self.rules = {}          # rule -> statement
    self.units = {}
    self.assumptions = []
    self.known = [k for k in load_known() if k.get('property') == prop]
    self.not_decided = ''
    self.files = set()

  # ---- registering
  def rule(self, name, statement, floor=0):
    self.rules[name] = statement
    self.floors[name] = max(self.floors.get(name, 0), floor)
    self.counts.setdefault(name, 0)

  def hold(self, rule, site, facts=None, nontrivial=True):
    self.counts[rule] = self.counts.get(rule, 0) + 1
    self.instances.append((rule, site, 'holds', facts, nontrivial))

  def violation(self, rule, site, msg, facts=None, witness=None, line=None):
    if any(v['rule'] == rule and v['site'] == site for v in self.violations):
      return   # one report per (rule, construct)
    self.counts[rule] = self.counts.get(rule, 0) + 1
    self.instances.append((rule, site, 'VIOLATION', facts, True))
    self.violations.append(dict(rule=rule, site=site, msg=msg, facts=facts,
                                witness=witness, line=line))

  def check(self, cond, rule, site, msg, facts=None, witness=None, line=None,
            nontrivial=True):
    if cond:
      self.hold(rule, site, facts, nontrivial)
    else:
      self.violation(rule, site, msg, facts, witness, line)
    return cond

  def depends(self, dep, rules, why, site_filter=None):
    """Imports rules of another property's checker as necessary conditions of
    this property (`why` states the dependency).  They are evaluated on the
    same tree by the other checker's code and reported here under the name
    <dep>.<rule>; findings listed for the other property stay listed."""
    if getattr(self, 'importing', False):
      return        # a checker run only to import its own rules imports nothing
    import importlib
    mod = importlib.import_module('sa.props.%s' % dep)
    sub = Report(dep, self.tier, self.model)
    sub.importing = True
    stopped = None
    try:
      mod.check(self.model, sub, self.tier)
    except AnalysisError as e:
      # the imported checker lost an anchor: what it found before that still
      # counts here (a violation is a violation); the error is re-raised after
      # the import so that this run cannot end as a pass
      stopped = e
    if rules is None:   # every rule of the other checker's own (no field-type lint)
      rules = [r for r in sub.rules if '.' not in r and not r.endswith('ASDL')]
    for r in rules:
      if r not in sub.rules:
        if stopped is not None:
          continue
        raise AnalysisError('%s has no rule %s (dependency of %s)' % (dep, r, self.prop))
      if r not in sub.rules:
        continue
      self.rule('%s.%s' % (dep, r), '[needed because %s] %s' % (why, sub.rules[r]),
                floor=sub.floors.get(r, 0) if site_filter is None else 1)
    keep = site_filter or (lambda site: True)
    for rule, site, verdict, facts, nontrivial in sub.instances:
      if rule in rules and verdict == 'holds' and keep(site):
        self.hold('%s.%s' % (dep, rule), site, facts, nontrivial)
    for v in sub.violations:
      if v['rule'] in rules and keep(v['site']):
        self.violation('%s.%s' % (dep, v['rule']), v['site'], v['msg'], v['facts'],
                       v['witness'], v['line'])
    for k in load_known():
      if k.get('property') == dep and k.get('rule') in rules:
        self.known.append(dict(k, rule='%s.%s' % (dep, k['rule']), property=self.prop))
    self.files |= sub.files
    if stopped is not None:
      raise AnalysisError('imported checker %s stopped: %s' % (dep, stopped))

  def note(self, msg):
    self.notes.append(msg)

  def unit(self, kind, n=1):
    self.units[kind] = self.units.get(kind, 0) + n

  def touch(self, *rels):
    self.files.update(rels)

  # ---- finishing
  def finish(self, seed=0):
    out = []
    exit_code = 0
    # floors: a rule that matched too few sites is an analysis error
    for r, fl in self.floors.items():
      if self.counts.get(r, 0) < fl:
        print('ANALYSIS-ERROR property=%s rule %s matched %d instances, floor '
              'is %d (anchor vanished or matcher broken)' %
              (self.prop, r, self.counts.get(r, 0), fl))
        exit_code = 2
    unlisted = []
    listed = []
    for v in self.violations:
      k = self._known_entry(v)
      if k is not None:
        listed.append((v, k))
      else:
        unlisted.append(v)
    seen_known = set()
    for v, k in listed:
      kid = (k['rule'], k['key'])
      if kid in seen_known:
        continue
      seen_known.add(kid)
      print('KNOWN-FINDING: property=%s rule=%s site=%s %s' %
            (self.prop, v['rule'], v['site'], k.get('what', v['msg'])))
    dry = bool(os.environ.get('VERIF_NO_EVIDENCE'))
    if not dry:
      (VERIF / 'replays').mkdir(exist_ok=True)
    for v in unlisted:
      h = hashlib.sha256(
          (v['rule'] + '|' + v['site']).encode()).hexdigest()[:10]
      path = VERIF / 'replays' / ('%s-%s-%s.json' % (self.prop, v['rule'], h))
      (path.write_text if not dry else (lambda _t: None))(json.dumps(dict(
          property=self.prop, rule=v['rule'],
          rule_statement=self.rules.get(v['rule'], ''), site=v['site'],
          line=v['line'], message=v['msg'], facts=_js(v['facts']),
          witness=v['witness'], repo=str(REPO)), indent=1, default=str))
      loc = (' line=%s' % v['line']) if v['line'] else ''
      print('  %s %s%s: %s' % (v['rule'], v['site'], loc, v['msg']))
      if v['witness']:
        print('    witness: %s' % v['witness'])
      print('VIOLATION property=%s replay=%s' % (self.prop, path))
      # a violation that is not a listed finding decides the verdict, also when
      # some other rule lost instances (the tree is being changed, after all)
      exit_code = 1
    if not dry:
      self._write_evidence(seed, len(unlisted), len(listed))
    total = len(self.instances)
    print('%s %s: %d rule instances over %d rules, %d violations '
          '(%d known), %.2fs' %
          (self.prop, self.tier, total, len(self.rules), len(self.violations),
           len(listed), time.time() - self.t0))
    return exit_code

  def _known_entry(self, v):
    for k in self.known:
      if k.get('status', 'known') != 'known':
        continue   # "fixed" entries suppress nothing
      if k['rule'] == v['rule'] and k['key'] == v['site']:
        return k
    # the listed construct sits in a private helper that is gone, and the same
    # construct is now reported in a function that used to call that helper
    # (the helper was inlined into its caller): still the listed finding
    for k in self.known:
      if k.get('status', 'known') != 'known' or k['rule'] != v['rule']:
        continue
      kp, vp = k['key'].split(':', 2), v['site'].split(':', 2)
      if len(kp) != 3 or len(vp) != 3 or kp[0] != vp[0] or kp[2] != vp[2]:
        continue
      if not kp[1].split('.')[-1].startswith('_'):
        continue
      try:
        self.model.func(kp[0], kp[1])
        continue                       # the helper still exists: no relocation
      except AnalysisError:
        pass
      from sa import inline
      callers = inline.known_shapes(kp[0]).get(kp[1], {}).get('callers', [])
      if vp[1] in callers:
        return k
    return None

  def _write_evidence(self, seed, n_unlisted, n_listed):
    distinct = set()
    for rule, site, verdict, facts, nontrivial in self.instances:
      if nontrivial:
        distinct.add((rule, site))
    samples = []
    per_rule = {}
    for rule, site, verdict, facts, nontrivial in self.instances:
      if per_rule.get(rule, 0) < 3:
        per_rule[rule] = per_rule.get(rule, 0) + 1
        samples.append(dict(rule=rule, site=site, verdict=verdict,
                            facts=_js(facts)))
    held = sum(1 for i in self.instances if i[2] == 'holds')
    cov = dict(
        explanation=(
            'Static analysis of %s (never imported or executed). Rules: ' %
            (REPO / PKG) + ' | '.join(
                '%s: %s' % (r, s) for r, s in self.rules.items()) +
            ((' || NOT decided by this check: ' + self.not_decided)
             if self.not_decided else '')),
        rule=('one evaluation = one (rule, site) instance decided on the '
              'current source; non-trivial = the premise of the rule matched '
              'at that site and the conclusion needed facts extracted from '
              'the source (resolved callee, field type, template, formula, '
              'path set); distinct = distinct (rule, site) pairs'),
        evaluations=len(self.instances),
        distinct_nontrivial=len(distinct),
        obligations=len(self.instances),
        discharged=held + n_listed,
        samples=samples[:40],
        rule_instance_counts=self.counts,
        instance_floors=self.floors,
        units_analysed=self.units,
        known_findings_reported=n_listed,
        notes=self.notes[:40],
        exhaustive=True,
        interpreter=sys.version.split()[0],
        source_digest=(self.model.digest(self.files or None)
                       if self.model else None),
        files_consulted=sorted(self.files),
    )
    ev = dict(property_id=self.prop, tier=self.tier, seed=seed, level='other',
              coverage=cov, assumptions=self.assumptions or [
                  'CPython %s ast grammar (ASDL read from ast class '
                  'docstrings) is the grammar the converters must obey' %
                  sys.version.split()[0],
                  'the structural clauses are necessary, not sufficient, '
                  'conditions of the behavioural property'],
              wall_s=round(time.time() - self.t0, 3), violations=n_unlisted)
    d = VERIF / 'evidence'
    d.mkdir(exist_ok=True)
    (d / ('%s.json' % self.prop)).write_text(
        json.dumps(ev, indent=1, default=str))


def _js(x):
  if x is None:
    return None
  try:
    json.dumps(x)
    return x
  except TypeError:
    if isinstance(x, dict):
      return {str(k): _js(v) for k, v in x.items()}
    if isinstance(x, (list, tuple, set, frozenset)):
      return [_js(v) for v in (sorted(x, key=str) if isinstance(
          x, (set, frozenset)) else x)]
    return str(x)
