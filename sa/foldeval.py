"""Abstract evaluation of an expression handler on a symbolic node whose list
fields have a concrete length: what term does the handler build out of the
operands, in which order, and did every operand go through the visitor first?

Values
  ('leaf', field, i, visited)   i-th element of node.<field> (or the scalar field)
  ('op', field, i)              an operator token (node.ops[i], node.op)
  list of values                Python lists (pop / index / slice / zip / reversed)
  ('term', helper, args...)     result of a term-building helper of the class
  ('none',) / ('const', v)      None / other constants
Anything else raises Unsupported: an idiom the evaluator does not understand is
an analysis error, never a guess.
"""
import ast

from sa import core


class Unsupported(core.AnalysisError):
  pass


class _Return(Exception):

  def __init__(self, v):
    self.v = v


class Node:
  """The symbolic node: scalar fields and list fields, plus a version flag that
  generic_visit flips (NodeTransformer.generic_visit replaces list contents and
  scalar children in place: values read before the visit are stale)."""

  def __init__(self, scalars, lists, ops=()):
    self.scalars = scalars     # field names holding one operand
    self.lists = lists         # {field: length}
    self.ops = ops             # fields holding operator tokens (scalar or list)
    self.visited = False
    self.cache = {}

  def field(self, f):
    key = (f, self.visited)
    if key in self.cache:
      return self.cache[key]
    if f in self.ops:
      if f in self.lists:
        v = [('op', f, i) for i in range(self.lists[f])]
      else:
        v = ('op', f, 0)
    elif f in self.lists:
      v = [('leaf', f, i, self.visited) for i in range(self.lists[f])]
    elif f in self.scalars:
      v = ('leaf', f, 0, self.visited)
    else:
      raise Unsupported('field %s of the symbolic node' % f)
    self.cache[key] = v
    return v


class Eval:

  def __init__(self, cls, fi, node, term_helpers, passthrough=()):
    self.cls = cls
    self.fi = fi
    self.node = node
    self.param = fi.params()[0]
    self.term_helpers = set(term_helpers)
    self.passthrough = set(passthrough)
    self.steps = 0

  def run(self):
    env = {self.param: self.node}
    try:
      self.block(self.fi.node.body, env)
    except _Return as r:
      return r.v
    return ('none',)

  # ------------------------------------------------------------ statements
  def block(self, stmts, env):
    for s in stmts:
      self.stmt(s, env)

  def truth(self, v):
    if isinstance(v, list):
      return bool(v)
    if v == ('none',):
      return False
    if isinstance(v, tuple) and v and v[0] == 'const':
      return bool(v[1])
    if isinstance(v, tuple) and v and v[0] in ('leaf', 'term', 'op'):
      return True
    if isinstance(v, bool):
      return v
    raise Unsupported('truth value of %r' % (v,))

  def stmt(self, s, env):
    self.steps += 1
    if self.steps > 2000:
      raise Unsupported('evaluation does not terminate')
    if isinstance(s, ast.Expr):
      if isinstance(s.value, ast.Constant):
        return
      self.ev(s.value, env)
    elif isinstance(s, ast.Assign):
      v = self.ev(s.value, env)
      for t in s.targets:
        self.assign(t, v, env)
    elif isinstance(s, ast.Return):
      raise _Return(self.ev(s.value, env) if s.value is not None else ('none',))
    elif isinstance(s, ast.If):
      self.block(s.body if self.truth(self.ev(s.test, env)) else s.orelse, env)
    elif isinstance(s, ast.While):
      while self.truth(self.ev(s.test, env)):
        self.steps += 1
        if self.steps > 2000:
          raise Unsupported('evaluation does not terminate')
        self.block(s.body, env)
    elif isinstance(s, ast.For):
      it = self.ev(s.iter, env)
      if not isinstance(it, list):
        raise Unsupported('for over %s' % core.norm(s.iter))
      for x in list(it):
        self.assign(s.target, x, env)
        self.block(s.body, env)
    elif isinstance(s, ast.Assert):
      return
    elif isinstance(s, ast.Pass):
      return
    else:
      raise Unsupported('statement %s' % type(s).__name__)

  def assign(self, t, v, env):
    if isinstance(t, ast.Name):
      env[t.id] = v
    elif isinstance(t, (ast.Tuple, ast.List)):
      if not isinstance(v, (list, tuple)) or (isinstance(v, tuple) and v and isinstance(
          v[0], str)):
        raise Unsupported('unpacking %r' % (v,))
      stars = [i for i, tt in enumerate(t.elts) if isinstance(tt, ast.Starred)]
      if len(stars) == 1 and len(v) >= len(t.elts) - 1:
        i = stars[0]
        after = len(t.elts) - i - 1
        vals = list(v[:i]) + [list(v[i:len(v) - after])] + list(v[len(v) - after:])
        for tt, vv in zip(t.elts, vals):
          self.assign(tt.value if isinstance(tt, ast.Starred) else tt, vv, env)
        return
      if stars or len(v) != len(t.elts):
        raise Unsupported('unpacking %r' % (v,))
      for tt, vv in zip(t.elts, v):
        self.assign(tt, vv, env)
    elif isinstance(t, ast.Attribute) and isinstance(t.value, ast.Name) and \
        env.get(t.value.id) is self.node:
      # node.f = <value>: later reads see it
      self.node.cache[(t.attr, self.node.visited)] = v
    elif isinstance(t, ast.Subscript) and isinstance(t.slice, ast.Slice):
      base = self.ev(t.value, env)

      def c(x):
        if x is None:
          return None
        b_ = self.ev(x, env)
        if isinstance(b_, tuple) and b_[0] == 'const' and isinstance(b_[1], int):
          return b_[1]
        raise Unsupported('slice bound %s' % core.norm(x))
      if isinstance(base, list) and isinstance(v, list) and t.slice.step is None:
        base[slice(c(t.slice.lower), c(t.slice.upper))] = v
      else:
        raise Unsupported('slice store')
    elif isinstance(t, ast.Subscript):
      base = self.ev(t.value, env)
      idx = self.ev(t.slice, env)
      if isinstance(base, list) and isinstance(idx, tuple) and idx[0] == 'const':
        base[idx[1]] = v
      else:
        raise Unsupported('subscript store')
    else:
      raise Unsupported('assignment target %s' % core.norm(t))

  # ------------------------------------------------------------ expressions
  def ev(self, e, env):
    if isinstance(e, ast.Constant):
      return ('none',) if e.value is None else ('const', e.value)
    if isinstance(e, ast.Name):
      if e.id in env:
        return env[e.id]
      raise Unsupported('name %s' % e.id)
    if isinstance(e, ast.Attribute):
      b = e.value
      if isinstance(b, ast.Name) and env.get(b.id) is self.node:
        return self.node.field(e.attr)
      raise Unsupported('attribute %s' % core.norm(e))
    if isinstance(e, (ast.Tuple, ast.List)):
      return [self.ev(x, env) for x in e.elts]
    if isinstance(e, ast.Subscript):
      b = self.ev(e.value, env)
      if not isinstance(b, list):
        raise Unsupported('subscript of %s' % core.norm(e.value))
      if isinstance(e.slice, ast.Slice):
        def c(x):
          if x is None:
            return None
          v = self.ev(x, env)
          if isinstance(v, tuple) and v[0] == 'const' and isinstance(v[1], int):
            return v[1]
          raise Unsupported('slice bound %s' % core.norm(x))
        return b[slice(c(e.slice.lower), c(e.slice.upper), c(e.slice.step))]
      i = self.ev(e.slice, env)
      if isinstance(i, tuple) and i[0] == 'const' and isinstance(i[1], int):
        return b[i[1]]
      raise Unsupported('index %s' % core.norm(e.slice))
    if isinstance(e, ast.UnaryOp) and isinstance(e.op, ast.USub):
      v = self.ev(e.operand, env)
      if isinstance(v, tuple) and v[0] == 'const':
        return ('const', -v[1])
    if isinstance(e, ast.UnaryOp) and isinstance(e.op, ast.Not):
      return ('const', not self.truth(self.ev(e.operand, env)))
    if isinstance(e, ast.Compare) and len(e.ops) == 1:
      l = self.ev(e.left, env)
      r = self.ev(e.comparators[0], env)
      if isinstance(e.ops[0], (ast.Is, ast.IsNot)):
        same = (l == r) if (l == ('none',) or r == ('none',)) else (l is r)
        return ('const', same if isinstance(e.ops[0], ast.Is) else not same)
      if isinstance(e.ops[0], (ast.Gt, ast.Lt, ast.GtE, ast.LtE, ast.Eq, ast.NotEq)) \
          and all(isinstance(x, tuple) and x[0] == 'const' for x in (l, r)):
        import operator
        f = {ast.Gt: operator.gt, ast.Lt: operator.lt, ast.GtE: operator.ge,
             ast.LtE: operator.le, ast.Eq: operator.eq, ast.NotEq: operator.ne}[
                 type(e.ops[0])]
        return ('const', f(l[1], r[1]))
      raise Unsupported('comparison %s' % core.norm(e))
    if isinstance(e, ast.BoolOp):
      vals = [self.ev(x, env) for x in e.values]   # (no side effects modelled here)
      ts = [self.truth(v) for v in vals]
      return ('const', all(ts) if isinstance(e.op, ast.And) else any(ts))
    if isinstance(e, ast.IfExp):
      return self.ev(e.body if self.truth(self.ev(e.test, env)) else e.orelse, env)
    if isinstance(e, ast.BinOp) and isinstance(e.op, ast.Add):
      l, r = self.ev(e.left, env), self.ev(e.right, env)
      if isinstance(l, list) and isinstance(r, list):
        return l + r
      if all(isinstance(x, tuple) and x[0] == 'const' for x in (l, r)):
        return ('const', l[1] + r[1])
    if isinstance(e, ast.BinOp) and isinstance(e.op, ast.Sub):
      l, r = self.ev(e.left, env), self.ev(e.right, env)
      if all(isinstance(x, tuple) and x[0] == 'const' for x in (l, r)):
        return ('const', l[1] - r[1])
    if isinstance(e, ast.Call):
      return self.call(e, env)
    if isinstance(e, (ast.ListComp, ast.GeneratorExp)):
      out = []

      def gen(i, env_):
        if i == len(e.generators):
          out.append(self.ev(e.elt, env_))
          return
        g = e.generators[i]
        it = self.ev(g.iter, env_)
        if not isinstance(it, list):
          raise Unsupported('comprehension over %s' % core.norm(g.iter))
        for x in list(it):
          e2 = dict(env_)
          self.assign(g.target, x, e2)
          if all(self.truth(self.ev(c, e2)) for c in g.ifs):
            gen(i + 1, e2)
      gen(0, dict(env))
      return out
    raise Unsupported('expression %s' % core.norm(e)[:60])

  def call(self, e, env):
    d = core.dotted(e.func) or ''
    args = e.args
    if d in ('self.generic_visit', 'self.visit') and len(args) == 1:
      v = self.ev(args[0], env)
      if v is self.node:
        self.node.visited = True
        return self.node
      if isinstance(v, tuple) and v[0] == 'leaf':
        return v[:3] + (True,)
      raise Unsupported('visit of %r' % (v,))
    if d in ('list', 'tuple') and len(args) == 1:
      v = self.ev(args[0], env)
      if isinstance(v, list):
        return list(v)
      raise Unsupported('list() of %r' % (v,))
    if d == 'zip':
      vs = [self.ev(a, env) for a in args]
      if all(isinstance(v, list) for v in vs):
        return [list(t) for t in zip(*vs)]
      raise Unsupported('zip of non-lists')
    if d == 'reversed' and len(args) == 1:
      v = self.ev(args[0], env)
      if isinstance(v, list):
        return list(reversed(v))
    if d == 'len' and len(args) == 1:
      v = self.ev(args[0], env)
      if isinstance(v, list):
        return ('const', len(v))
    if d == 'range':
      vs = [self.ev(a, env) for a in args]
      if all(isinstance(v, tuple) and v[0] == 'const' for v in vs):
        return [('const', i) for i in range(*[v[1] for v in vs])]
    if d == 'enumerate' and len(args) == 1:
      v = self.ev(args[0], env)
      if isinstance(v, list):
        return [[('const', i), x] for i, x in enumerate(v)]
    if isinstance(e.func, ast.Attribute) and e.func.attr in ('pop', 'append', 'copy',
                                                             'insert', 'extend'):
      b = self.ev(e.func.value, env)
      if isinstance(b, list):
        m = e.func.attr
        if m == 'pop':
          if args:
            i = self.ev(args[0], env)
            return b.pop(i[1])
          return b.pop()
        if m == 'append':
          b.append(self.ev(args[0], env))
          return ('none',)
        if m == 'copy':
          return list(b)
        if m == 'insert':
          b.insert(self.ev(args[0], env)[1], self.ev(args[1], env))
          return ('none',)
        if m == 'extend':
          b.extend(self.ev(args[0], env))
          return ('none',)
    if d.startswith('self.') and d.count('.') == 1:
      name = d[5:]
      vals = [self.ev(a, env) for a in args]
      for k in e.keywords:
        vals.append(self.ev(k.value, env))
      if name in self.term_helpers:
        return ('term', name) + tuple(vals)
      if name in self.passthrough and vals:
        return vals[0]
    # a node of the user grammar built by hand: the operands it holds stay
    # under a *native* operator (nobody converts a node created after the visit)
    if d in ('ast.BoolOp', 'ast.Compare', 'ast.UnaryOp', 'ast.BinOp', 'ast.IfExp'):
      vals = [self.ev(a, env) for a in args] + [self.ev(k.value, env) for k in e.keywords]
      return ('term', 'native:' + d[4:]) + tuple(vals)
    raise Unsupported('call %s' % core.norm(e)[:60])


# ---------------------------------------------------------------- term queries
def leaves(t, under_lambda=False, out=None, lam=('_as_lambda',)):
  """[(leaf, under_lambda)] in left-to-right (evaluation) order."""
  out = [] if out is None else out
  if isinstance(t, tuple) and t and t[0] == 'leaf':
    out.append((t, under_lambda))
  elif isinstance(t, tuple) and t and t[0] == 'term':
    ul = under_lambda or t[1] in lam
    for a in t[2:]:
      leaves(a, ul, out, lam)
  elif isinstance(t, list):
    for a in t:
      leaves(a, under_lambda, out, lam)
  return out
