"""Traversal rules for the analysis visitors (activity analysis, qualified-name
resolver): a symbol that is not visited is silently absent from every read /
modified set, every liveness and definition set and every free-variable set.

 analysis_trav   every visit_<Kind> handler hands every field of <Kind> that can
                 contain a Name to the visitor machinery on every path to every
                 normal exit (guards of the form `field is not None` / `if
                 field:` are understood as "field absent")
 visit_order     inside one handler, field A is dispatched before field B on
                 every path (evaluation / scoping order the analysis relies on)
"""
import ast

from sa import asdl
from sa import core
from sa import pycfg
from sa import trav


def analysis_trav(model, rep, rule, rel, cname, exceptions, kinds=('Name',)):
  """exceptions: {(Kind, field): reason}"""
  cls = model.cls(rel, cname)
  rep.touch(rel)
  T = trav.HandlerTraversal(model, cls)
  K = set(kinds)
  n = 0
  for P in sorted(asdl.FIELDS):
    need = [(f, t, q) for (f, t, q) in asdl.fields(P) if asdl.can_derive(t, K)]
    if not need:
      continue
    h = cls.find('visit_' + P)
    if h is None:
      continue
    n += 1
    site = '%s:%s:visit_%s' % (rel, cname, P)
    exits = T.analyse(h)
    bad = {}
    for ex in exits:
      for (f, t, q) in need:
        if trav.covered(P, f, t, q, K, ex.paths):
          continue
        subs = trav.missing_subfields(t, K, ex.paths, f) if q != '*' and len(
            asdl.alts(t)) == 1 and asdl.fields(asdl.alts(t)[0]) else [f]
        for sp in (subs or [f]):
          if (P, sp) in exceptions:
            continue
          bad.setdefault(sp, ex)
    if not bad:
      rep.hold(rule, site, {'handler': h.site, 'exits': len(exits),
                            'fields': [f for f, _, _ in need],
                            'excepted': sorted(sp for (k, sp) in exceptions if k == P)})
    for sp, ex in sorted(bad.items()):
      rep.violation(
          rule, '%s:field(%s)' % (site, sp),
          'visit_%s can finish (exit at line %s%s) without visiting %s.%s: the '
          'symbols in it are missing from every set this analysis produces' %
          (P, ex.line, (' under ' + ' and '.join(
              '%s[%s]' % (p, t) for p, t in ex.guards)) if ex.guards else '', P, sp),
          {'traversed_on_that_path': sorted(ex.paths), 'handler': h.site},
          line=ex.line or h.node.lineno,
          witness='a variable that is only read inside the %s of a %s' % (sp, P))
  return n


def visit_order(model, rep, rule, rel, cname, hname, first, then, why):
  """On every path through handler `hname`, self.visit(node.<first>) happens
  before the first dispatch that reaches node.<then> (an explicit visit of it or
  generic_visit of the node)."""
  cls = model.cls(rel, cname)
  h = cls.find(hname)
  site = '%s:%s:%s:%s-before-%s' % (rel, cname, hname, first, then)
  if h is None:
    rep.violation(rule, site, 'handler %s is gone' % hname)
    return
  p = h.params()[0]
  g = pycfg.CFG(h.node)

  def visits(i, field):
    for c in pycfg.calls_at(g, i):
      d = core.dotted(c.func) or ''
      if d in ('self.visit', 'self.visit_block') and c.args and \
          core.norm(c.args[0]) == '%s.%s' % (p, field):
        return True
    return False

  def reaches(i, field):
    if visits(i, field):
      return True
    for c in pycfg.calls_at(g, i):
      d = core.dotted(c.func) or ''
      if d in ('self.generic_visit',) and c.args and core.norm(c.args[0]) == p:
        return True
    return False

  firsts = [i for i in range(len(g.nodes)) if g.nodes[i][1] is not None and visits(i, first)]
  thens = [i for i in range(len(g.nodes)) if g.nodes[i][1] is not None and reaches(i, then)]
  dom = g.dominators()
  ok = bool(firsts) and bool(thens) and all(
      any(f in dom.get(t, ()) and f != t for f in firsts) for t in thens)
  rep.check(ok, rule, site, why, {'visits_of_' + first: len(firsts),
                                  'dispatches_reaching_' + then: len(thens)},
            line=h.node.lineno)


def state_pairing(model, rep, rule, rels):
  """Every manual `self.state[K].enter()` is matched by an `.exit()` of the same
  frame on every path to every normal exit of the function (a frame left open
  makes every later node look as if it were inside that construct)."""
  from sa import tpl
  n = 0
  for rel in rels:
    mod = model.module(rel)
    for fi in mod.all_functions():
      calls = []
      for c in core.walk_no_nested(fi.node):
        if isinstance(c, ast.Call) and isinstance(c.func, ast.Attribute) and \
            c.func.attr in ('enter', 'exit') and not c.args:
          try:
            base = tpl.xnorm(fi, c.func.value, c)
          except Exception:
            base = core.norm(c.func.value)
          if base.startswith('self.state['):
            calls.append((c, c.func.attr, base))
      if not calls:
        continue
      keys = sorted({b for _, _, b in calls})
      g = pycfg.CFG(fi.node)
      for key in keys:
        n += 1
        bad = None
        for path in g.paths(limit=3000, ends={g.exit}, max_visits=2):
          depth = 0
          for i, _ in path:
            for c in pycfg.calls_at(g, i):
              for cc, kind, b in calls:
                if cc is c and b == key:
                  depth += 1 if kind == 'enter' else -1
          if depth != 0:
            last = [g.nodes[i][1] for i, _ in path if g.nodes[i][1] is not None]
            bad = (depth, getattr(last[-1], 'lineno', None) if last else None)
            break
        if bad is not None and bad[0] == -1 and fi.cls is not None:
          # the frame is opened by the block visitor's before_visit callback and
          # closed by this function as its after_visit callback
          for other in fi.cls.methods.values():
            for c in core.walk_no_nested(other.node):
              if isinstance(c, ast.Call) and core.dotted(c.func) == 'self.visit_block':
                kw = {k.arg: core.norm(k.value) for k in c.keywords if k.arg}
                if kw.get('before_visit') == key + '.enter' and \
                    kw.get('after_visit') == 'self.' + fi.name:
                  bad = None
        rep.check(bad is None, rule, '%s:balanced(%s)' % (fi.site, key),
                  'a path through the function leaves the %s frame %s: every node '
                  'visited afterwards is treated as if it were still inside that '
                  'construct' % (key, 'open' if bad and bad[0] > 0 else 'closed twice'),
                  {'net_enters_on_path': bad[0] if bad else 0,
                   'path_ends_at_line': bad[1] if bad else None},
                  line=fi.node.lineno,
                  witness='a dict comprehension followed by ordinary assignments')
  return n


def cursor_scoped(model, rep, rule, rel, cname, mname='visit'):
  """A visitor's `visit` override that moves a cursor attribute (`self.X = ...`)
  before it dispatches to the children must put the old value back after the
  dispatch on every path: the cursor is scoped to the subtree, siblings visited
  afterwards must see the parent's value again."""
  cls = model.cls(rel, cname)
  fi = cls.methods.get(mname)
  if fi is None:
    raise core.AnalysisError('%s.%s not found' % (cname, mname))
  g = pycfg.CFG(fi.node)
  disp = [i for i in range(len(g.nodes)) if any(
      isinstance(c.func, ast.Attribute) and c.func.attr in ('visit', 'generic_visit') and
      isinstance(c.func.value, ast.Call) and core.dotted(c.func.value.func) == 'super'
      for c in pycfg.calls_at(g, i))]
  if len(disp) != 1:
    raise core.AnalysisError('%s.%s: dispatch to the base visitor not found' % (cname, mname))
  d = disp[0]
  moved = {}
  for i, (k, a) in enumerate(g.nodes):
    if isinstance(a, ast.Assign) and len(a.targets) == 1 and isinstance(
        a.targets[0], ast.Attribute) and core.norm(a.targets[0].value) == 'self' and \
        d in g.reachable(i) and i not in g.reachable(d):
      moved.setdefault(a.targets[0].attr, []).append(i)
  n = 0
  dom = g.dominators()
  for attr, sets in sorted(moved.items()):
    n += 1
    saves = [(i, a.targets[0].id) for i, (k, a) in enumerate(g.nodes)
             if isinstance(a, ast.Assign) and len(a.targets) == 1 and isinstance(
                 a.targets[0], ast.Name) and core.norm(a.value) == 'self.' + attr and
             all(i in dom.get(s, ()) and i != s for s in sets)]
    ok = bool(saves)
    if ok:
      names = {nm for _, nm in saves}
      w = {i: 1 for i, (k, a) in enumerate(g.nodes) if isinstance(a, ast.Assign) and
           len(a.targets) == 1 and core.norm(a.targets[0]) == 'self.' + attr and
           isinstance(a.value, ast.Name) and a.value.id in names}
      rng = g.count_range(w, start=d, skip_labels=('exc',))
      ok = rng is not None and rng[0] >= 1
    rep.check(ok, rule, '%s:%s:%s:restores(%s)' % (rel, cname, mname, attr),
              '%s.%s sets self.%s for the subtree it is about to visit and does '
              'not put the previous value back afterwards on every path: what is '
              'visited next (the rest of the enclosing expression, the following '
              'siblings) is handled with the wrong %s' % (cname, mname, attr, attr),
              line=fi.node.lineno,
              witness='while any(map(lambda t: t > 0, pending)): pending = ...')
  return n



def visit_arg_conditions(model):
  """The conditions under which ActivityAnalyzer.visit_arg records a parameter
  as bound / marks it as parameter, as formulas over ANNOT (the
  annotations-only pass is running) and HASQN (the node has a qualified name).
  -> (FuncInfo, {'bound': F or None, 'param': F or None, 'n_bound': int})"""
  from sa import formula
  va = model.func('malt/pyct/static_analysis/activity.py', 'ActivityAnalyzer.visit_arg')
  p0 = va.params()[0]

  def at(e):
    t = core.norm(e)
    if t == 'self._track_annotations_only':
      return 'ANNOT'
    if t.startswith('anno.hasanno(%s, anno.Basic.QN' % p0):
      return 'HASQN'
    return None
  out = {'bound': None, 'param': None, 'n_bound': 0}
  for c in ast.walk(va.node):
    if isinstance(c, ast.Call):
      f = core.norm(c.func)
      if f == 'self.scope.bound.add':
        out['n_bound'] += 1
        out['bound'] = formula.condition_formula(va.node, c, at)
      elif f == 'self.scope.mark_param':
        out['param'] = formula.condition_formula(va.node, c, at)
  return va, out
