"""Traversal rules for the analysis visitors (activity analysis, qualified-name
resolver): a symbol that is not visited is silently absent from every read /
modified set, every liveness and definition set and every free-variable set.

 analysis_trav   every visit_<Kind> handler hands every field of <Kind> that can
                 contain a Name to the visitor machinery on every path to every
                 normal exit (guards of the form `field is not None` / `if
                 field:` are understood as "field absent")
 visit_order     inside one handler, field A is dispatched before field B on
                 every path (evaluation / scoping order the analysis relies on)
"""
import ast

from sa import asdl
from sa import core
from sa import pycfg
from sa import trav


def analysis_trav(model, rep, rule, rel, cname, exceptions, kinds=('Name',)):
  """exceptions: {(Kind, field): reason}"""
  cls = model.cls(rel, cname)
  rep.touch(rel)
  T = trav.HandlerTraversal(model, cls)
  K = set(kinds)
  n = 0
  for P in sorted(asdl.FIELDS):
    need = [(f, t, q) for (f, t, q) in asdl.fields(P) if asdl.can_derive(t, K)]
    if not need:
      continue
    h = cls.find('visit_' + P)
    if h is None:
      continue
    n += 1
    site = '%s:%s:visit_%s' % (rel, cname, P)
    exits = T.analyse(h)
    bad = {}
    for ex in exits:
      for (f, t, q) in need:
        if trav.covered(P, f, t, q, K, ex.paths):
          continue
        subs = trav.missing_subfields(t, K, ex.paths, f) if q != '*' and len(
            asdl.alts(t)) == 1 and asdl.fields(asdl.alts(t)[0]) else [f]
        for sp in (subs or [f]):
          if (P, sp) in exceptions:
            continue
          bad.setdefault(sp, ex)
    if not bad:
      rep.hold(rule, site, {'handler': h.site, 'exits': len(exits),
                            'fields': [f for f, _, _ in need],
                            'excepted': sorted(sp for (k, sp) in exceptions if k == P)})
    for sp, ex in sorted(bad.items()):
      rep.violation(
          rule, '%s:field(%s)' % (site, sp),
          'visit_%s can finish (exit at line %s%s) without visiting %s.%s: the '
          'symbols in it are missing from every set this analysis produces' %
          (P, ex.line, (' under ' + ' and '.join(
              '%s[%s]' % (p, t) for p, t in ex.guards)) if ex.guards else '', P, sp),
          {'traversed_on_that_path': sorted(ex.paths), 'handler': h.site},
          line=ex.line or h.node.lineno,
          witness='a variable that is only read inside the %s of a %s' % (sp, P))
  return n


def visit_order(model, rep, rule, rel, cname, hname, first, then, why):
  """On every path through handler `hname`, self.visit(node.<first>) happens
  before the first dispatch that reaches node.<then> (an explicit visit of it or
  generic_visit of the node)."""
  cls = model.cls(rel, cname)
  h = cls.find(hname)
  site = '%s:%s:%s:%s-before-%s' % (rel, cname, hname, first, then)
  if h is None:
    rep.violation(rule, site, 'handler %s is gone' % hname)
    return
  p = h.params()[0]
  g = pycfg.CFG(h.node)

  def visits(i, field):
    for c in pycfg.calls_at(g, i):
      d = core.dotted(c.func) or ''
      if d in ('self.visit', 'self.visit_block') and c.args and \
          core.norm(c.args[0]) == '%s.%s' % (p, field):
        return True
    return False

  def reaches(i, field):
    if visits(i, field):
      return True
    for c in pycfg.calls_at(g, i):
      d = core.dotted(c.func) or ''
      if d in ('self.generic_visit',) and c.args and core.norm(c.args[0]) == p:
        return True
    return False

  firsts = [i for i in range(len(g.nodes)) if g.nodes[i][1] is not None and visits(i, first)]
  thens = [i for i in range(len(g.nodes)) if g.nodes[i][1] is not None and reaches(i, then)]
  dom = g.dominators()
  ok = bool(firsts) and bool(thens) and all(
      any(f in dom.get(t, ()) and f != t for f in firsts) for t in thens)
  rep.check(ok, rule, site, why, {'visits_of_' + first: len(firsts),
                                  'dispatches_reaching_' + then: len(thens)},
            line=h.node.lineno)
