"""E4: evaluate set-valued / boolean analysis code to membership formulas.

Every set value is described by a formula `F` over named atoms giving the
membership of one *generic element* (the same element for all sets), so that
`|`, `&`, `-`, comprehension filters, for/if/append accumulation, `x in S`,
in-place `|=` / `-=` / `.update` / `.add` become boolean algebra, and two
expressions can be compared by truth table.

Leaf expressions are turned into atoms by a caller-supplied `atom_of(expr)`
(returns an atom name, an `F`, a `SetV`, or None); anything the evaluator cannot
interpret is an AnalysisError, never a guess.  Constants are folded.
"""
import ast

from sa import core
from sa.formula import satisfiable
from sa.formula import F, TRUE, FALSE, atom, implies, equivalent  # noqa: F401


def single_assignment_aliases(fn):
  """local name -> normalised text of its only definition (for locals that are
  assigned exactly once by a plain `name = expr`)."""
  counts, vals = {}, {}
  for n in ast.walk(fn):
    if isinstance(n, ast.Assign):
      for t in n.targets:
        for x in ast.walk(t):
          if isinstance(x, ast.Name):
            counts[x.id] = counts.get(x.id, 0) + 1
            if isinstance(t, ast.Name):
              vals[x.id] = n.value
    elif isinstance(n, (ast.AugAssign, ast.AnnAssign)) and isinstance(n.target, ast.Name):
      counts[n.target.id] = counts.get(n.target.id, 0) + 2
    elif isinstance(n, (ast.For, ast.comprehension)):
      for x in ast.walk(n.target):
        if isinstance(x, ast.Name):
          counts[x.id] = counts.get(x.id, 0) + 2
    elif isinstance(n, ast.withitem) and n.optional_vars is not None:
      for x in ast.walk(n.optional_vars):
        if isinstance(x, ast.Name):
          counts[x.id] = counts.get(x.id, 0) + 2
  return {k: vals[k] for k, c in counts.items() if c == 1 and k in vals}


def alias_text(e, aliases, depth=4):
  """Normalised text of e with a leading single-assignment local replaced by
  its definition (so `fn_scope.globals` reads `self.state[...].scope.globals`)."""
  parts = []
  base = e
  while isinstance(base, ast.Attribute):
    parts.append(base.attr)
    base = base.value
  if isinstance(base, ast.Name) and base.id in aliases and depth > 0:
    inner = alias_text(aliases[base.id], aliases, depth - 1)
    return inner + ''.join('.' + p for p in reversed(parts))
  return core.norm(e)


class SetV:
  """A set, by the membership formula of the generic element."""

  def __init__(self, f, mutated_in_place=False):
    self.f = f
    self.inplace = mutated_in_place

  def __repr__(self):
    return 'SetV(%s)' % self.f


class Elem:
  """The generic element (loop variable / candidate)."""

  def __init__(self, name='elem'):
    self.name = name


class Opaque:

  def __init__(self, text):
    self.text = text

  def __repr__(self):
    return 'Opaque(%s)' % self.text


class BoolV:

  def __init__(self, f):
    self.f = f


class TupleV:

  def __init__(self, items):
    self.items = items


class SeqV(SetV):
  """An ordered collection: consecutive segments, each described by the
  membership formula of its elements (order inside a segment: sorted)."""

  def __init__(self, segs):
    f = FALSE
    for g in segs:
      f = f | g
    super().__init__(f)
    self.segs = list(segs)


class CountV:
  """len() of the collection with membership formula f."""

  def __init__(self, f):
    self.f = f

  def __repr__(self):
    return 'Count(%s)' % self.f


class Ev:

  def __init__(self, model, fi, atom_of, methods=None, max_depth=4,
               elem_names=()):
    self.model = model
    self.fi = fi
    self.atom_of = atom_of
    self.cls = fi.cls
    self.max_depth = max_depth
    self.facts = []          # notes: in-place mutation, joins, ...
    self.elem_names = set(elem_names)
    self.alias_attrs = {'value', 'types'}   # state objects wrap one dict / set
    self.state_classes = set()

  # ------------------------------------------------------------ entry
  def run(self, env=None, fn=None, depth=0):
    env = dict(env or {})
    fn = fn or self.fi.node
    rets = []
    pc = self.block(fn.body, env, TRUE, rets, depth)
    if pc is not None:
      rets.append((pc, None, env))
    return rets, env

  def result(self, env=None):
    """Single merged return value (formula-wise ite over return paths)."""
    rets, env = self.run(env)
    return self.merge_returns(rets)

  def merge_returns(self, rets):
    vals = [(pc, v) for pc, v, _ in rets if v is not None]
    if not vals:
      return None
    if len(vals) == 1:
      return vals[0][1]
    # a path whose value the algebra does not model makes the whole result opaque
    if any(isinstance(v, Opaque) for _, v in vals):
      return Opaque('|'.join(sorted({getattr(v, 'text', '?') for _, v in vals
                                     if isinstance(v, Opaque)})))
    # merge sets / tuples of sets path-wise
    first = vals[0][1]
    if isinstance(first, SetV):
      f = FALSE
      for pc, v in vals:
        if not isinstance(v, SetV):
          raise core.AnalysisError('return values of different kinds')
        f = f | (pc & v.f)
      return SetV(f)
    if isinstance(first, BoolV):
      f = FALSE
      for pc, v in vals:
        f = f | (pc & v.f)
      return BoolV(f)
    if isinstance(first, TupleV):
      n = len(first.items)
      out = []
      for i in range(n):
        col = [(pc, v.items[i]) for pc, v in vals]
        if all(isinstance(x, SetV) for _, x in col):
          f = FALSE
          for pc, x in col:
            f = f | (pc & x.f)
          out.append(SetV(f))
        elif all(isinstance(x, BoolV) for _, x in col):
          f = FALSE
          for pc, x in col:
            f = f | (pc & x.f)
          out.append(BoolV(f))
        else:
          out.append(col[-1][1])
      return TupleV(out)
    return vals[-1][1]

  # ------------------------------------------------------------ expressions
  def leaf(self, e, env):
    a = self.atom_of(e)
    if a is None:
      return None
    if isinstance(a, (SetV, BoolV, Elem, Opaque, TupleV)):
      return a
    if isinstance(a, F):
      return SetV(a)
    return SetV(atom(a))

  def ev(self, e, env, depth=0):
    if isinstance(e, ast.Name):
      if e.id in env:
        return env[e.id]
      if e.id in self.elem_names:
        return Elem(e.id)
      lf = self.leaf(e, env)
      if lf is not None:
        return lf
      if e.id in ('True', 'False'):
        return BoolV(TRUE if e.id == 'True' else FALSE)
      return Opaque(e.id)
    lf = self.leaf(e, env)
    if lf is not None:
      return lf
    if isinstance(e, ast.Constant):
      if isinstance(e.value, bool):
        return BoolV(TRUE if e.value else FALSE)
      return Opaque(repr(e.value))
    if isinstance(e, ast.BinOp):
      l = self.ev(e.left, env, depth)
      r = self.ev(e.right, env, depth)
      if isinstance(e.op, ast.Add) and isinstance(l, SeqV) and isinstance(r, SeqV):
        return SeqV(l.segs + r.segs)
      if isinstance(e.op, ast.Sub) and isinstance(l, CountV) and isinstance(r, CountV):
        # |A| - |B| = |A \ B| exactly when B is a subset of A
        if implies(r.f, l.f)[0]:
          return CountV(l.f & ~r.f)
        return Opaque(core.norm(e))
      if isinstance(e.op, ast.Add) and isinstance(l, CountV) and isinstance(r, CountV):
        if not satisfiable(l.f & r.f):
          return CountV(l.f | r.f)
        return Opaque(core.norm(e))
      if isinstance(l, SetV) and isinstance(r, SetV):
        if isinstance(e.op, ast.BitOr):
          return SetV(l.f | r.f)
        if isinstance(e.op, ast.BitAnd):
          return SetV(l.f & r.f)
        if isinstance(e.op, ast.Sub):
          return SetV(l.f & ~r.f)
        if isinstance(e.op, ast.BitXor):
          return SetV((l.f & ~r.f) | (r.f & ~l.f))
      if isinstance(e.op, (ast.BitOr, ast.BitAnd, ast.Sub)) and (
          isinstance(l, SetV) or isinstance(r, SetV)):
        # an operand this evaluator cannot describe: a set of unknown content
        lf = l.f if isinstance(l, SetV) else atom('?[%s]' % core.norm(e.left))
        rf = r.f if isinstance(r, SetV) else atom('?[%s]' % core.norm(e.right))
        if isinstance(e.op, ast.BitOr):
          return SetV(lf | rf)
        if isinstance(e.op, ast.BitAnd):
          return SetV(lf & rf)
        return SetV(lf & ~rf)
      return Opaque(core.norm(e))
    if isinstance(e, (ast.Tuple, ast.List, ast.Set)):
      if not e.elts:
        return SetV(FALSE)
      items = [self.ev(x, env, depth) for x in e.elts]
      if all(isinstance(x, Elem) for x in items):
        # a literal collection of the generic element
        return SetV(TRUE) if False else TupleV(items)
      return TupleV(items)
    if isinstance(e, ast.IfExp):
      c = self.cond(e.test, env, depth)
      a = self.ev(e.body, env, depth)
      b = self.ev(e.orelse, env, depth)
      if isinstance(a, SetV) and isinstance(b, SetV):
        return SetV((c & a.f) | (~c & b.f))
      if isinstance(a, BoolV) and isinstance(b, BoolV):
        return BoolV((c & a.f) | (~c & b.f))
      return Opaque(core.norm(e))
    if isinstance(e, (ast.GeneratorExp, ast.ListComp, ast.SetComp)):
      return self.comprehension(e, env, depth)
    if isinstance(e, ast.DictComp) and len(e.generators) == 1 and \
        core.norm(e.key) == core.norm(e.generators[0].target):
      # {s: f(s) for s in S if c}: a table whose key set is {s in S | c}
      g = e.generators[0]
      return self.comprehension(ast.SetComp(elt=e.key, generators=[g]), env, depth)
    if isinstance(e, ast.Call):
      return self.call(e, env, depth)
    if isinstance(e, (ast.BoolOp, ast.Compare)) or (
        isinstance(e, ast.UnaryOp) and isinstance(e.op, ast.Not)):
      return BoolV(self.cond(e, env, depth))
    if isinstance(e, ast.Dict) and not e.keys:
      return SetV(FALSE)
    if isinstance(e, ast.Subscript):
      if ('@' + core.norm(e)) in env:
        return env['@' + core.norm(e)]
      return Opaque(core.norm(e))
    if isinstance(e, ast.Attribute):
      if e.attr in self.alias_attrs and isinstance(e.value, ast.Name) and \
          isinstance(env.get(e.value.id), SetV):
        return env[e.value.id]
      if ('@' + core.norm(e)) in env:
        return env['@' + core.norm(e)]
      return Opaque(core.norm(e))
    return Opaque(core.norm(e))

  def comprehension(self, e, env, depth):
    if len(e.generators) != 1:
      raise core.AnalysisError('nested comprehension: %s' % core.norm(e))
    g = e.generators[0]
    src = self.ev(g.iter, env, depth)
    if not isinstance(src, SetV):
      return Opaque(core.norm(e))
    if not isinstance(g.target, ast.Name):
      return Opaque(core.norm(e))
    env2 = dict(env)
    env2[g.target.id] = Elem(g.target.id)
    c = TRUE
    for i in g.ifs:
      c = c & self.cond(i, env2, depth)
    elt = self.ev(e.elt, env2, depth)
    if isinstance(elt, Elem):
      return SetV(src.f & c)
    if isinstance(elt, BoolV):
      # all()/any() argument: remember domain
      return ('forall-arg', src.f & c, elt.f)
    # a mapped image (str(v), ast.Constant(str(v))): same index set
    return SetV(src.f & c)

  def call(self, e, env, depth):
    f = e.func
    d = core.dotted(f)
    if isinstance(f, ast.Name) and f.id in ('frozenset', 'set', 'tuple', 'list',
                                           'sorted', 'reversed'):
      if not e.args:
        return SetV(FALSE)
      v = self.ev(e.args[0], env, depth)
      if f.id == 'sorted' and isinstance(v, SetV):
        return self.sorted_(e, v, env, depth)
      if f.id == 'reversed' and isinstance(v, SeqV):
        return SeqV(v.segs[::-1]) if len(v.segs) > 1 else v
      if isinstance(v, TupleV) and all(isinstance(x, SetV) for x in v.items):
        out = FALSE
        for x in v.items:
          out = out | x.f
        return SetV(out)
      if isinstance(v, TupleV) and all(isinstance(x, Elem) for x in v.items):
        return Opaque(core.norm(e))
      return v
    if isinstance(f, ast.Name) and f.id in ('str', 'repr') and len(e.args) == 1:
      v = self.ev(e.args[0], env, depth)
      if isinstance(v, Elem):
        return v               # the image of the generic element: same index
    if isinstance(f, ast.Name) and f.id in self.state_classes:
      if not e.args:
        return SetV(FALSE)
      v = self.ev(e.args[0], env, depth)
      if isinstance(v, SetV):
        return SetV(v.f)
      return SetV(atom('?[%s]' % core.norm(e.args[0])))
    if isinstance(f, ast.Name) and f.id in ('all', 'any') and e.args:
      g = e.args[0]
      # all(x in S for x in T): quantifies over another domain; the atom is
      # named by the *meaning* of S (its formula), not by the local spelling
      if isinstance(g, (ast.GeneratorExp, ast.ListComp)) and len(g.generators) == 1 \
          and isinstance(g.elt, ast.Compare) and len(g.elt.ops) == 1 and \
          isinstance(g.elt.ops[0], (ast.In, ast.NotIn)) and \
          core.norm(g.elt.left) == core.norm(g.generators[0].target):
        sv = self.ev(g.elt.comparators[0], env, depth)
        if isinstance(sv, SetV):
          rel = '∈' if isinstance(g.elt.ops[0], ast.In) else '∉'
          return BoolV(atom('%s[· %s %s]' % (f.id.upper(), rel, sv.f)))
      return BoolV(atom('%s[%s]' % (f.id.upper(), core.norm(e.args[0]))))
    if isinstance(f, ast.Name) and f.id == 'sum' and len(e.args) == 1 and isinstance(
        e.args[0], (ast.GeneratorExp, ast.ListComp)) and isinstance(
            e.args[0].elt, ast.Constant) and e.args[0].elt.value == 1 and \
        len(e.args[0].generators) == 1 and isinstance(e.args[0].generators[0].target, ast.Name):
      # sum(1 for v in S if c)  ==  len({v for v in S if c})  for S without duplicates
      g = e.args[0].generators[0]
      v = self.comprehension(ast.SetComp(elt=ast.Name(id=g.target.id, ctx=ast.Load()),
                                         generators=[g]), env, depth)
      if isinstance(v, SetV):
        return CountV(v.f)
      return Opaque(core.norm(e))
    if isinstance(f, ast.Name) and f.id == 'len':
      if len(e.args) == 1:
        v = self.ev(e.args[0], env, depth)
        if isinstance(v, SetV):
          return CountV(v.f)
      return Opaque(core.norm(e))
    if isinstance(f, ast.Attribute):
      base = f.value
      m = f.attr
      if m == 'copy' and not e.args:
        v = self.ev(base, env, depth)
        if isinstance(v, SetV):
          return SetV(v.f)
      if m in ('union', 'intersection', 'difference') and e.args:
        l = self.ev(base, env, depth)
        r = self.ev(e.args[0], env, depth)
        if isinstance(l, SetV) and isinstance(r, SetV):
          return SetV({'union': l.f | r.f, 'intersection': l.f & r.f,
                       'difference': l.f & ~r.f}[m])
      if m in ('keys', 'items', 'values') and not e.args:
        return self.ev(base, env, depth)
      if m in ('is_composite', 'is_simple', 'is_symbol') and not e.args:
        b = self.ev(base, env, depth)
        if isinstance(b, Elem):
          if m == 'is_simple':
            return BoolV(~atom('is_composite'))
          return BoolV(atom(m))
      if isinstance(base, ast.Name) and base.id == 'self' and self.cls is not None:
        h = self.cls.find(m)
        if h is not None and depth < self.max_depth:
          return self.inline(h, e, env, depth)
    return Opaque(core.norm(e))

  def sorted_(self, e, v, env, depth):
    """sorted(S [, key=k] [, reverse=const]): with a key whose first component
    is a membership test the result has two segments (False sorts first)."""
    key = [k.value for k in e.keywords if k.arg == 'key']
    rev = [k.value for k in e.keywords if k.arg == 'reverse']
    if any(k.arg not in ('key', 'reverse') for k in e.keywords):
      return SetV(v.f)
    if rev and not (isinstance(rev[0], ast.Constant) and isinstance(rev[0].value, bool)):
      return SetV(v.f)
    flip = bool(rev and rev[0].value)
    if not key:
      return SeqV([v.f])
    k = key[0]
    if isinstance(k, ast.Name):
      defs = [n for n in ast.walk(self.fi.node) if isinstance(n, ast.FunctionDef)
              and n.name == k.id and n is not self.fi.node]
      if len(defs) == 1 and len(defs[0].body) >= 1 and isinstance(
          defs[0].body[-1], ast.Return) and all(
              isinstance(s, ast.Expr) and isinstance(s.value, ast.Constant)
              for s in defs[0].body[:-1]) and len(defs[0].args.args) == 1:
        k = ast.Lambda(args=defs[0].args, body=defs[0].body[-1].value)
    if not isinstance(k, ast.Lambda) or len(k.args.args) != 1:
      return SetV(v.f)       # an order this evaluator cannot describe
    p = k.args.args[0].arg
    first = k.body.elts[0] if isinstance(k.body, ast.Tuple) and k.body.elts else k.body
    env2 = dict(env)
    env2[p] = Elem(p)
    saved = set(self.elem_names)
    self.elem_names.add(p)
    try:
      c = self.cond(first, env2, depth)
    finally:
      self.elem_names = saved
    if any(a.startswith('OPAQUE[') for a in c.atoms):
      return SetV(v.f)
    segs = [v.f & ~c, v.f & c]
    return SeqV(segs[::-1] if flip else segs)

  def inline(self, h, call, env, depth):
    ps = h.params()
    env2 = {}
    for p, a in zip(ps, call.args):
      env2[p] = self.ev(a, env, depth)
    for k in call.keywords:
      if k.arg:
        env2[k.arg] = self.ev(k.value, env, depth)
    sub = Ev(self.model, h, self.atom_of, max_depth=self.max_depth,
             elem_names=self.elem_names)
    sub.facts = self.facts
    rets, _ = sub.run(env2, depth=depth + 1)
    return sub.merge_returns(rets)

  # ------------------------------------------------------------ conditions
  def cond(self, e, env, depth=0):
    if isinstance(e, ast.BoolOp):
      vs = [self.cond(v, env, depth) for v in e.values]
      r = vs[0]
      for v in vs[1:]:
        r = (r & v) if isinstance(e.op, ast.And) else (r | v)
      return r
    if isinstance(e, ast.UnaryOp) and isinstance(e.op, ast.Not):
      return ~self.cond(e.operand, env, depth)
    if isinstance(e, ast.Constant):
      return TRUE if e.value else FALSE
    if isinstance(e, ast.Compare) and len(e.ops) == 1 and isinstance(
        e.ops[0], (ast.In, ast.NotIn)):
      l = self.ev(e.left, env, depth)
      if isinstance(e.left, ast.Name) and e.left.id in self.elem_names:
        l = Elem(e.left.id)
      r = self.ev(e.comparators[0], env, depth)
      if isinstance(r, SetV) and isinstance(l, (Elem, Opaque)):
        if isinstance(l, Opaque) and l.text not in self.elem_names:
          return atom('OPAQUE[%s]' % core.norm(e))
        return r.f if isinstance(e.ops[0], ast.In) else ~r.f
      return atom('OPAQUE[%s]' % core.norm(e))
    if isinstance(e, ast.Compare) and len(e.ops) == 1 and isinstance(
        e.ops[0], (ast.Eq, ast.NotEq)):
      l = self.ev(e.left, env, depth)
      r = self.ev(e.comparators[0], env, depth)
      if isinstance(l, SetV) and isinstance(r, SetV):
        ok, _ = equivalent(l.f, r.f)
        # symbolic: "the sets are equal"  -- opaque atom named by meaning
        a = atom('EQ[%s,%s]' % (core.norm(e.left), core.norm(e.comparators[0])))
        return a if isinstance(e.ops[0], ast.Eq) else ~a
    v = self.ev(e, env, depth) if not isinstance(
        e, (ast.BoolOp, ast.Compare)) else None
    if isinstance(v, BoolV):
      return v.f
    if isinstance(v, SetV):
      return atom('NONEMPTY[%s]' % core.norm(e))
    return atom('OPAQUE[%s]' % core.norm(e))

  # ------------------------------------------------------------ statements
  def block(self, stmts, env, pc, rets, depth):
    """Returns the path condition of falling through (None if never)."""
    for s in stmts:
      pc = self.stmt(s, env, pc, rets, depth)
      if pc is None:
        return None
    return pc

  def assign(self, target, val, env):
    if isinstance(target, ast.Name):
      env[target.id] = val
    elif isinstance(target, (ast.Tuple, ast.List)):
      if isinstance(val, TupleV) and len(val.items) == len(target.elts):
        for t, v in zip(target.elts, val.items):
          self.assign(t, v, env)
      else:
        for t in target.elts:
          self.assign(t, Opaque(core.norm(t)), env)
    elif isinstance(target, ast.Subscript) and self._setvar(target.value, env) \
        is not None and isinstance(self.ev(target.slice, env), Elem):
      key = self._setvar(target.value, env)
      cur = env[key]
      env[key] = SetV(cur.f | self._pc)
    elif isinstance(target, ast.Attribute) and target.attr in self.alias_attrs \
        and isinstance(target.value, ast.Name):
      env[target.value.id] = val
    elif isinstance(target, (ast.Attribute, ast.Subscript)):
      env['@' + core.norm(target)] = val

  def _setvar(self, e, env):
    """env key of a set-valued variable named by `x` or `x.value`."""
    if isinstance(e, ast.Name) and isinstance(env.get(e.id), SetV):
      return e.id
    if isinstance(e, ast.Attribute) and e.attr in self.alias_attrs and isinstance(
        e.value, ast.Name) and isinstance(env.get(e.value.id), SetV):
      return e.value.id
    return None

  def stmt(self, s, env, pc, rets, depth):
    self._pc = pc
    if isinstance(s, ast.Expr) and isinstance(s.value, ast.Constant):
      return pc
    if isinstance(s, (ast.Pass, ast.Assert, ast.Global, ast.Nonlocal,
                      ast.Import, ast.ImportFrom, ast.FunctionDef, ast.Delete)):
      return pc
    if isinstance(s, ast.Assign):
      v = self.ev(s.value, env, depth)
      for t in s.targets:
        self.assign(t, v, env)
      return pc
    if isinstance(s, ast.AugAssign):
      cur = self.ev(s.target, env, depth)
      v = self.ev(s.value, env, depth)
      key = s.target.id if isinstance(s.target, ast.Name) else '@' + core.norm(s.target)
      if isinstance(cur, SetV) and isinstance(v, SetV):
        if isinstance(s.op, ast.BitOr):
          new = cur.f | (pc & v.f)
        elif isinstance(s.op, ast.Sub):
          new = cur.f & ~(pc & v.f)
        elif isinstance(s.op, ast.BitAnd):
          new = cur.f & (~pc | v.f)
        else:
          raise core.AnalysisError('augmented set operator %s' % core.norm(s))
        self.facts.append(('inplace', core.norm(s.target), type(s.op).__name__))
        env[key] = SetV(new, True)
        return pc
      if isinstance(cur, SetV) and isinstance(v, tuple) and v[0] == 'IN_OF':
        env[key] = SetV(cur.f | (pc & v[1]))
        return pc
      env[key] = Opaque(core.norm(s))
      return pc
    if isinstance(s, ast.Return):
      v = self.ev(s.value, env, depth) if s.value is not None else None
      rets.append((pc, v, dict(env)))
      return None
    if isinstance(s, ast.Raise):
      return None
    if isinstance(s, (ast.Continue, ast.Break)):
      return None
    if isinstance(s, ast.If):
      c = self.cond(s.test, env, depth)
      e1 = dict(env)
      e2 = dict(env)
      p1 = self.block(s.body, e1, pc & c, rets, depth)
      p2 = self.block(s.orelse, e2, pc & ~c, rets, depth)
      # merge environments
      for k in set(e1) | set(e2):
        a, b = e1.get(k), e2.get(k)
        if a is b:
          env[k] = a
        elif isinstance(a, SetV) and isinstance(b, SetV):
          # each branch already guarded its additions with its path condition
          # relative to env; recombine
          base = env.get(k)
          env[k] = SetV((c & a.f) | (~c & b.f)) if not _same(a, b) else a
        elif isinstance(a, BoolV) and isinstance(b, BoolV):
          env[k] = BoolV((c & a.f) | (~c & b.f))
        elif a is None or b is None:
          env[k] = a if a is not None else b
        elif isinstance(a, Opaque) and isinstance(b, SetV) and isinstance(
            e2.get('@' + a.text), SetV) and _same(e2['@' + a.text], b):
          # memo: one branch reads the table entry the other branch has just
          # stored (`if key in memo: v = memo[key]` / `else: v = memo[key] = ...`)
          env[k] = b
        elif isinstance(b, Opaque) and isinstance(a, SetV) and isinstance(
            e1.get('@' + b.text), SetV) and _same(e1['@' + b.text], a):
          env[k] = a
        else:
          env[k] = a
      if p1 is None and p2 is None:
        return None
      if p1 is None:
        return p2
      if p2 is None:
        return p1
      return p1 | p2
    if isinstance(s, ast.For):
      src = self.ev(s.iter, env, depth)
      tgt = s.target
      if isinstance(tgt, ast.Tuple) and tgt.elts and isinstance(
          tgt.elts[0], ast.Name) and isinstance(src, SetV):
        for extra in tgt.elts[1:]:
          if isinstance(extra, ast.Name):
            env[extra.id] = Opaque(extra.id)
        tgt = tgt.elts[0]
      if isinstance(src, SetV) and isinstance(tgt, ast.Name):
        s = _ForProxy(s, tgt)
        env2 = env
        saved = env.get(s.target.id)
        env[s.target.id] = Elem(s.target.id)
        sub_rets = []
        self.block(s.body, env, src.f, sub_rets, depth)
        if saved is not None:
          env[s.target.id] = saved
        else:
          env.pop(s.target.id, None)
        if sub_rets:
          raise core.AnalysisError('return inside an element loop: %s' %
                                   core.norm(s)[:60])
        return pc
      # loop over something that is not a symbol set (neighbours, ...)
      hook = getattr(self, 'loop_hook', None)
      if hook is not None:
        r = hook(self, s, env, pc, rets, depth)
        if r is not NotImplemented:
          return r
      return self.generic_loop(s, env, pc, rets, depth)
    if isinstance(s, ast.Expr) and isinstance(s.value, ast.Call):
      c = s.value
      f = c.func
      if isinstance(f, ast.Attribute) and f.attr in ('append', 'add') and c.args:
        arg = self.ev(c.args[0], env, depth)
        key = self._setvar(f.value, env) or (
            f.value.id if isinstance(f.value, ast.Name) else '@' + core.norm(f.value))
        cur = env.get(key)
        if cur is None:
          cur = self.ev(f.value, env, depth)
        if isinstance(arg, Elem):
          curf = cur.f if isinstance(cur, SetV) else FALSE
          env[key] = SetV(curf | pc)
          return pc
        if isinstance(cur, SetV):
          # adding one specific (non-generic) element: does not change the
          # membership of the generic element in any guaranteed way
          self.facts.append(('adds-single-element', key, core.norm(c.args[0])))
          return pc
        return pc
      if isinstance(f, ast.Attribute) and f.attr in ('update', 'extend') and c.args:
        arg = self.ev(c.args[0], env, depth)
        key = self._setvar(f.value, env) or (
            f.value.id if isinstance(f.value, ast.Name) else '@' + core.norm(f.value))
        cur = env.get(key)
        if cur is None:
          cur = self.ev(f.value, env, depth)
        if isinstance(arg, SetV) and isinstance(cur, SetV):
          env[key] = SetV(cur.f | (pc & arg.f), True)
          self.facts.append(('inplace', key, 'update'))
          return pc
        return pc
      if isinstance(f, ast.Attribute) and f.attr == 'pop' and c.args and \
          self._setvar(f.value, env) is not None and isinstance(
              self.ev(c.args[0], env, depth), Elem):
        key = self._setvar(f.value, env)
        env[key] = SetV(env[key].f & ~pc, True)
        return pc
      if isinstance(f, ast.Attribute) and f.attr in ('discard', 'remove',
                                                     'difference_update') and c.args:
        key = f.value.id if isinstance(f.value, ast.Name) else '@' + core.norm(f.value)
        cur = env.get(key) or self.ev(f.value, env, depth)
        arg = self.ev(c.args[0], env, depth)
        if isinstance(cur, SetV) and isinstance(arg, Elem):
          env[key] = SetV(cur.f & ~pc, True)
        elif isinstance(cur, SetV) and isinstance(arg, SetV):
          env[key] = SetV(cur.f & ~(pc & arg.f), True)
        self.facts.append(('inplace', key, f.attr))
        return pc
      return pc
    if isinstance(s, (ast.With,)):
      return self.block(s.body, env, pc, rets, depth)
    if isinstance(s, ast.While):
      raise core.AnalysisError('while loop in evaluated code: %s' % core.norm(s)[:60])
    if isinstance(s, ast.Try):
      return self.block(s.body, env, pc, rets, depth)
    return pc


def _same(a, b):
  return a.f is b.f


class _ForProxy:

  def __init__(self, s, target):
    self.body = s.body
    self.iter = s.iter
    self.target = target
    self.lineno = s.lineno


def _generic_loop(self, s, env, pc, rets, depth):
  """Loop over something that is not a symbol set (graph neighbours, reaching
  functions): the body runs for *some* element; additions are guarded by an
  EXISTS atom; `continue` under a condition restricts the rest of the body."""
  it = core.norm(s.iter)
  # named by what is iterated, with locals that merely name it resolved
  try:
    from sa import tpl
    it = tpl.xnorm(self.fi, s.iter, s.iter)
  except Exception:
    pass
  ex = atom('EXISTS[%s]' % it)
  if isinstance(s.target, ast.Name):
    env[s.target.id] = Opaque(s.target.id)
  has_break = any(isinstance(n, ast.Break) for n in core.walk_no_nested(s))
  conds = [core.norm(n.test) for n in core.walk_no_nested(s) if isinstance(n, ast.If)]
  self.facts.append(('loop', it, {'statements': len(s.body), 'break': has_break,
                                  'conditions': conds}))
  sub = []
  self.block(s.body, env, pc & ex, sub, depth)
  if sub:
    # the function can leave from inside the loop: the elements after that point
    # are never looked at (recorded; the rule that owns the loop decides)
    self.facts.append(('early-return', it, {'line': getattr(s, 'lineno', None)}))
    rets.extend(sub)
  return pc


Ev.generic_loop = _generic_loop
