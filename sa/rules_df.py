"""Shared rules for the worklist dataflow analyses (C06, C07, C19)."""
import ast

from sa import core
from sa import pat
from sa import pycfg
from sa import setalg
from sa.formula import atom, implies, TRUE

CFG = 'malt/pyct/cfg.py'


SCOPE_ATTRS = {'read': 'READ', 'modified': 'MODIFIED', 'deleted': 'DELETED',
               'bound': 'BOUND', 'globals': 'GLOBALS', 'nonlocals': 'NONLOCALS',
               'params': 'PARAMS', 'annotations': 'ANNOTATIONS'}


def df_atoms(fi, extra=None):
  """Atom naming for a dataflow visit_node, independent of local names:
  <statement scope>.<set>  -> READ / MODIFIED / ...   (scope = the SCOPE annotation)
  <function scope>.<set>   -> FN.read / ...           (ARGS_AND_BODY_SCOPE annotation)
  self.out[<neighbour>]    -> NB_OUT ;  self.in_[<neighbour>] -> NB_IN"""
  aliases = setalg.single_assignment_aliases(fi.node)
  node_p = fi.params()[0] if fi.params() else 'node'

  def at(e):
    if extra is not None:
      r = extra(e, aliases)
      if r is not None:
        return r
    if isinstance(e, ast.Subscript) and isinstance(e.slice, ast.Name) and \
        e.slice.id != node_p and core.norm(e.value) in ('self.out', 'self.in_'):
      return 'NB_OUT' if core.norm(e.value) == 'self.out' else 'NB_IN'
    if isinstance(e, ast.Attribute) and e.attr in SCOPE_ATTRS:
      t = setalg.alias_text(e.value, aliases)
      if 'ARGS_AND_BODY_SCOPE' in t:
        return 'FN.' + e.attr
      if 'Static.SCOPE' in t:
        return SCOPE_ATTRS[e.attr]
    return None

  return at


def eval_visit_node(model, fi, atom_of, state_classes=()):
  ev = setalg.Ev(model, fi, atom_of)
  ev.state_classes = set(state_classes)
  rets, env = ev.run({})
  return ev, rets


def final_env(rets):
  """Environment at the (single) return, as a dict; with the path condition."""
  if len(rets) != 1:
    raise core.AnalysisError('expected a single return in the transfer function')
  pc, v, env = rets[0]
  return pc, v, env


def check_join_loop(rep, rule, fi, direction, source, why):
  """`for n in node.<direction>: X |= self.<source>[n]` over *all* neighbours."""
  loops = [n for n in ast.walk(fi.node) if isinstance(n, ast.For) and
           core.norm(n.iter) == 'node.' + direction]
  ok = bool(loops)
  facts = []
  for lp in loops:
    body = [core.norm(s) for s in lp.body]
    tgt = core.norm(lp.target)
    shape = len(lp.body) == 1 and isinstance(lp.body[0], (ast.AugAssign, ast.Expr))
    if shape and isinstance(lp.body[0], ast.AugAssign):
      shape = isinstance(lp.body[0].op, ast.BitOr) and core.norm(
          lp.body[0].value) == 'self.%s[%s]' % (source, tgt)
    elif shape:
      c = lp.body[0].value
      shape = isinstance(c, ast.Call) and isinstance(c.func, ast.Attribute) and \
          c.func.attr == 'update' and core.norm(c.args[0]) == 'self.%s[%s]' % (
              source, tgt)
    facts.append({'line': lp.lineno, 'body': body})
    ok = ok and shape
  rep.check(ok, rule, '%s:join-over-all-%s' % (fi.site, direction),
            'the incoming state must be the union of self.%s[n] over *every* n '
            'in node.%s, without filter or early exit: %s' % (source, direction, why),
            {'loops': facts}, line=fi.node.lineno,
            witness='a join point where the dropped neighbour carries the only '
            'definition / use')
  return ok


def check_change_flag(rep, rule, fi, state):
  """return <old self.state[node]> != <value stored into self.state[node]>"""
  g = pycfg.CFG(fi.node)
  key = 'self.%s[node]' % state
  olds = [(i, a) for i, (k, a) in enumerate(g.nodes) if isinstance(a, ast.Assign)
          and core.norm(a.value) == key and isinstance(a.targets[0], ast.Name)]
  stores = [(i, a) for i, (k, a) in enumerate(g.nodes) if isinstance(a, ast.Assign)
            and core.norm(a.targets[0]) == key]
  rets = [(i, a) for i, (k, a) in enumerate(g.nodes) if k == 'return']
  ok = len(olds) >= 1 and len(stores) == 1 and len(rets) == 1
  facts = {}
  if ok:
    dom = g.dominators(skip_labels=('exc',))
    old_i, old_a = olds[0]
    st_i, st_a = stores[0]
    r = rets[0][1].value
    facts = {'returns': core.norm(r), 'old': core.norm(old_a), 'store': core.norm(st_a)}
    ok = old_i in dom[st_i] and st_i in dom[rets[0][0]] and isinstance(
        r, ast.Compare) and len(r.ops) == 1 and isinstance(r.ops[0], ast.NotEq) and \
        {core.norm(r.left), core.norm(r.comparators[0])} == {
            core.norm(old_a.targets[0]), core.norm(st_a.value)}
  rep.check(ok, rule, '%s:revisit-iff-%s-changed' % (fi.site, state),
            'the visitor must report "revisit" exactly when the state it '
            'propagates (self.%s[node]) changed: comparing anything else stops '
            'the iteration before the fixed point' % state, facts,
            line=fi.node.lineno,
            witness='a definition / use that has to travel around a loop twice')
  return ok


def check_driver(model, rep, rule):
  """cfg.GraphVisitor._visit_internal: a worklist that reaches a fixed point."""
  fi = model.func(CFG, 'GraphVisitor._visit_internal')
  rep.touch(CFG)
  wl = [n for n in ast.walk(fi.node) if isinstance(n, ast.While)]
  ok = len(wl) == 1
  facts = {}
  if ok:
    lp = wl[0]
    fake = ast.FunctionDef(name='_iter', args=fi.node.args, body=lp.body,
                           decorator_list=[], lineno=lp.lineno)
    g = pycfg.CFG(fake)
    vis = {i: 1 for i in range(len(g.nodes)) if any(
        core.norm(c.func) == 'self.visit_node' for c in pycfg.calls_at(g, i))}
    rng = g.count_range(vis, skip_labels=())
    jumps = [n for n in ast.walk(lp) if isinstance(n, (ast.Break, ast.Continue,
                                                       ast.Return))]
    facts['visit_node_per_iteration'] = rng
    facts['jumps'] = [core.norm(j) for j in jumps]
    wl_name = core.norm(lp.test)
    ok = rng == (1, 1) and not jumps and isinstance(lp.test, ast.Name)
    # re-enqueue rule: the loop over the neighbours (next / prev)
    nb = {core.norm(n.targets[0]) for n in ast.walk(lp) if isinstance(n, ast.Assign)
          and core.norm(n.value) in ('node.next', 'node.prev') or (
              isinstance(n, ast.Assign) and isinstance(n.value, ast.Attribute) and
              n.value.attr in ('next', 'prev'))}
    inner = [n for n in ast.walk(lp) if isinstance(n, ast.For) and
             core.norm(n.iter) in nb]
    ok = ok and len(inner) == 1
    if ok:
      ilp = inner[0]

      rv = [core.norm(n.targets[0]) for n in ast.walk(lp) if isinstance(n, ast.Assign)
            and isinstance(n.value, ast.Call) and core.norm(n.value.func) ==
            'self.visit_node']
      closed_adds = [core.norm(c.func.value) for c in ast.walk(lp)
                     if isinstance(c, ast.Call) and isinstance(c.func, ast.Attribute)
                     and c.func.attr == 'add' and c.args and core.norm(c.args[0]) ==
                     (core.norm([n for n in ast.walk(lp) if isinstance(n, ast.Assign)
                                 and isinstance(n.value, ast.Call) and isinstance(
                                     n.value.func, ast.Attribute) and
                                 n.value.func.attr == 'pop'][0].targets[0])
                      if any(isinstance(n, ast.Assign) and isinstance(n.value, ast.Call)
                             and isinstance(n.value.func, ast.Attribute) and
                             n.value.func.attr == 'pop' for n in ast.walk(lp)) else '')]
      revisit_name = rv[0] if rv else None
      closed_name = closed_adds[0] if closed_adds else None

      def at(e):
        t = core.norm(e)
        if revisit_name and t == revisit_name:
          return 'REVISIT'
        if closed_name and t.endswith(' in ' + closed_name):
          return 'VISITED'
        return None

      from sa import formula
      conds = []
      for n in ast.walk(ilp):
        if isinstance(n, ast.If) and any(
            isinstance(c, ast.Call) and core.norm(c.func) == wl_name + '.append'
            for b in n.body for c in ast.walk(b)):
          conds.append(n.test)
      appends = [c for c in ast.walk(ilp) if isinstance(c, ast.Call) and
                 core.norm(c.func) == wl_name + '.append']
      facts['append_conditions'] = [core.norm(c) for c in conds]
      if len(appends) == 1 and len(conds) == 1:
        f = formula.bool_formula(conds[0], at)
        o1, _ = implies(atom('REVISIT'), f)
        o2, _ = implies(~atom('VISITED'), f)
        ok = o1 and o2
      elif len(appends) == 1 and not conds:
        ok = True
      else:
        ok = False
    ok = ok and pat.has(fi.node, '_C_ = _N_.next') and pat.has(
        fi.node, '_C_ = _N_.prev') and pat.has(
            fi.node, '%s = [self.graph.entry]' % wl_name) and pat.has(
                fi.node, '%s = list(self.graph.exit)' % wl_name)
  rep.check(ok, rule, '%s:worklist' % fi.site,
            'every dequeued node must be evaluated, and every neighbour '
            're-enqueued whenever the node asked for a revisit or the neighbour '
            'was never visited; forward from the entry over next, backward from '
            'the exits over prev', facts, line=fi.node.lineno,
            witness='three nested loops: the solution needs more than a fixed '
            'number of evaluations per node')
  return ok


# ---------------------------------------------------------------- value types
INPLACE_DUNDERS = ('__ior__', '__iadd__', '__isub__', '__iand__', '__ixor__')
_MUTATORS = {'update', 'add', 'discard', 'remove', 'pop', 'clear', 'append',
             'extend', 'setdefault', 'popitem', 'difference_update',
             'intersection_update', 'symmetric_difference_update'}


def check_value_type(rep, rule, cls, why=None):
  """The lattice state class is a value type: the analysis aliases states
  (`x = self.out[n]`) and compares the old and the new value to decide whether
  to revisit.  So outside __init__ no method may mutate the receiver or return
  it, and no in-place operator may be defined (Python then falls back to the
  pure binary operator)."""
  why = why or ('the transfer function keeps references to previous states and '
                'compares old with new: a method that mutates its receiver makes '
                'the comparison trivially equal and the fixed point iteration '
                'stops early')
  for name in INPLACE_DUNDERS:
    rep.check(name not in cls.methods, rule, '%s:no(%s)' % (cls.site, name), why,
              line=cls.methods[name].node.lineno if name in cls.methods else None,
              witness='`defs_in = prev_out; defs_in |= other` mutates prev_out',
              nontrivial=False)
  for name, m in sorted(cls.methods.items()):
    if name in ('__init__',) or name in INPLACE_DUNDERS:
      continue
    bad = []
    for x in core.walk_no_nested(m.node):
      if isinstance(x, (ast.Assign, ast.AugAssign, ast.Delete)):
        tgs = x.targets if not isinstance(x, ast.AugAssign) else [x.target]
        for t in tgs:
          b = t
          while isinstance(b, (ast.Attribute, ast.Subscript)):
            b = b.value
          if isinstance(b, ast.Name) and b.id == 'self' and t is not b:
            bad.append(core.norm(x)[:60])
      elif isinstance(x, ast.Call) and isinstance(x.func, ast.Attribute) and \
          x.func.attr in _MUTATORS:
        b = x.func.value
        while isinstance(b, (ast.Attribute, ast.Subscript)):
          b = b.value
        if isinstance(b, ast.Name) and b.id == 'self':
          bad.append(core.norm(x)[:60])
      elif isinstance(x, ast.Return) and isinstance(x.value, ast.Name) and \
          x.value.id == 'self':
        bad.append('return self')
    rep.check(not bad, rule, '%s:pure(%s)' % (cls.site, name), why,
              {'mutations': bad}, line=m.node.lineno)
