"""Shared rules for the worklist dataflow analyses (C06, C07, C19)."""
import ast

from sa import core
from sa import pat
from sa import pycfg
from sa import setalg
from sa.formula import atom, implies, TRUE

CFG = 'malt/pyct/cfg.py'


SCOPE_ATTRS = {'read': 'READ', 'modified': 'MODIFIED', 'deleted': 'DELETED',
               'bound': 'BOUND', 'globals': 'GLOBALS', 'nonlocals': 'NONLOCALS',
               'params': 'PARAMS', 'annotations': 'ANNOTATIONS'}


def df_atoms(fi, extra=None):
  """Atom naming for a dataflow visit_node, independent of local names:
  <statement scope>.<set>  -> READ / MODIFIED / ...   (scope = the SCOPE annotation)
  <function scope>.<set>   -> FN.read / ...           (ARGS_AND_BODY_SCOPE annotation)
  self.out[<neighbour>]    -> NB_OUT ;  self.in_[<neighbour>] -> NB_IN"""
  aliases = setalg.single_assignment_aliases(fi.node)
  node_p = fi.params()[0] if fi.params() else 'node'

  def at(e):
    if extra is not None:
      r = extra(e, aliases)
      if r is not None:
        return r
    if isinstance(e, ast.Subscript) and isinstance(e.slice, ast.Name) and \
        e.slice.id != node_p and core.norm(e.value) in ('self.out', 'self.in_'):
      return 'NB_OUT' if core.norm(e.value) == 'self.out' else 'NB_IN'
    if isinstance(e, ast.Attribute) and e.attr in SCOPE_ATTRS:
      t = setalg.alias_text(e.value, aliases)
      if 'ARGS_AND_BODY_SCOPE' in t:
        return 'FN.' + e.attr
      if 'Static.SCOPE' in t:
        return SCOPE_ATTRS[e.attr]
    return None

  return at


def eval_visit_node(model, fi, atom_of, state_classes=()):
  ev = setalg.Ev(model, fi, atom_of)
  ev.state_classes = set(state_classes)
  rets, env = ev.run({})
  return ev, rets


def final_env(rets):
  """Environment at the (single) return, as a dict; with the path condition."""
  if len(rets) != 1:
    raise core.AnalysisError('expected a single return in the transfer function')
  pc, v, env = rets[0]
  return pc, v, env


def check_join_loop(rep, rule, fi, direction, source, why):
  """`for n in node.<direction>: X |= self.<source>[n]` over *all* neighbours."""
  loops = [n for n in ast.walk(fi.node) if isinstance(n, ast.For) and
           core.norm(n.iter) == 'node.' + direction]
  ok = bool(loops)
  facts = []
  for lp in loops:
    body = [core.norm(s) for s in lp.body]
    tgt = core.norm(lp.target)
    shape = len(lp.body) == 1 and isinstance(lp.body[0], (ast.AugAssign, ast.Expr,
                                                          ast.Assign))
    src = 'self.%s[%s]' % (source, tgt)
    if shape and isinstance(lp.body[0], ast.Assign):
      # X = X | S  /  X = S | X  /  X = X.union(S)
      a = lp.body[0]
      x = core.norm(a.targets[0])
      v = a.value
      shape = len(a.targets) == 1 and ((
          isinstance(v, ast.BinOp) and isinstance(v.op, ast.BitOr) and
          {core.norm(v.left), core.norm(v.right)} == {x, src} and x != src) or (
              isinstance(v, ast.Call) and isinstance(v.func, ast.Attribute) and
              v.func.attr == 'union' and core.norm(v.func.value) == x and
              [core.norm(z) for z in v.args] == [src] and not v.keywords))
    elif shape and isinstance(lp.body[0], ast.AugAssign):
      shape = isinstance(lp.body[0].op, ast.BitOr) and core.norm(
          lp.body[0].value) == 'self.%s[%s]' % (source, tgt)
    elif shape:
      c = lp.body[0].value
      shape = isinstance(c, ast.Call) and isinstance(c.func, ast.Attribute) and \
          c.func.attr == 'update' and core.norm(c.args[0]) == 'self.%s[%s]' % (
              source, tgt)
    facts.append({'line': lp.lineno, 'body': body})
    ok = ok and shape
  rep.check(ok, rule, '%s:join-over-all-%s' % (fi.site, direction),
            'the incoming state must be the union of self.%s[n] over *every* n '
            'in node.%s, without filter or early exit: %s' % (source, direction, why),
            {'loops': facts}, line=fi.node.lineno,
            witness='a join point where the dropped neighbour carries the only '
            'definition / use')
  return ok


def check_change_flag(rep, rule, fi, state):
  """return <old self.state[node]> != <value stored into self.state[node]>"""
  g = pycfg.CFG(fi.node)
  key = 'self.%s[node]' % state
  olds = [(i, a) for i, (k, a) in enumerate(g.nodes) if isinstance(a, ast.Assign)
          and core.norm(a.value) == key and isinstance(a.targets[0], ast.Name)]
  stores = [(i, a) for i, (k, a) in enumerate(g.nodes) if isinstance(a, ast.Assign)
            and core.norm(a.targets[0]) == key]
  rets = [(i, a) for i, (k, a) in enumerate(g.nodes) if k == 'return']
  ok = len(olds) >= 1 and len(stores) == 1 and len(rets) == 1
  facts = {}
  if ok:
    dom = g.dominators(skip_labels=('exc',))
    old_i, old_a = olds[0]
    st_i, st_a = stores[0]
    r = rets[0][1].value
    if isinstance(r, ast.Name):
      # the verdict through a local (`changed = old != new; return changed`):
      # its one definition, which must lie after the store
      defs_ = [(i, a) for i, (k, a) in enumerate(g.nodes) if isinstance(a, ast.Assign)
               and len(a.targets) == 1 and core.norm(a.targets[0]) == r.id]
      if len(defs_) == 1 and defs_[0][0] in dom[rets[0][0]]:
        r = defs_[0][1].value
    facts = {'returns': core.norm(r), 'old': core.norm(old_a), 'store': core.norm(st_a)}
    ok = old_i in dom[st_i] and st_i in dom[rets[0][0]] and isinstance(
        r, ast.Compare) and len(r.ops) == 1 and isinstance(r.ops[0], ast.NotEq) and \
        {core.norm(r.left), core.norm(r.comparators[0])} == {
            core.norm(old_a.targets[0]), core.norm(st_a.value)}
  rep.check(ok, rule, '%s:revisit-iff-%s-changed' % (fi.site, state),
            'the visitor must report "revisit" exactly when the state it '
            'propagates (self.%s[node]) changed: comparing anything else stops '
            'the iteration before the fixed point' % state, facts,
            line=fi.node.lineno,
            witness='a definition / use that has to travel around a loop twice')
  return ok


def _guarded_values(fi, stmts, name, mode_atom, guard=None):
  """[(formula, value_expr)] for the assignments to `name` in stmts; formula over
  the atoms FWD / REV.  if/elif chains, conditional expressions."""
  from sa import formula
  guard = formula.TRUE if guard is None else guard
  out = []
  for st in stmts:
    if isinstance(st, ast.Assign) and len(st.targets) == 1 and isinstance(
        st.targets[0], ast.Name) and st.targets[0].id == name:
      v = st.value
      if isinstance(v, ast.IfExp):
        c = formula.bool_formula(v.test, mode_atom)
        out.append((guard & c, v.body))
        out.append((guard & ~c, v.orelse))
      else:
        out.append((guard, v))
    elif isinstance(st, ast.If):
      c = formula.bool_formula(st.test, mode_atom)
      out += _guarded_values(fi, st.body, name, mode_atom, guard & c)
      out += _guarded_values(fi, st.orelse, name, mode_atom, guard & ~c)
  return out


def _enqueue_form(lp, wl):
  """the construct that puts neighbours on the worklist:
  -> (element name, source expr, condition expr or None) or None"""
  for n in ast.walk(lp):
    if isinstance(n, ast.For) and isinstance(n.target, ast.Name):
      apps = [c for c in ast.walk(n) if isinstance(c, ast.Call) and
              core.norm(c.func) == wl + '.append' and len(c.args) == 1 and
              core.norm(c.args[0]) == n.target.id]
      if len(apps) == 1 and not any(isinstance(x, (ast.Break, ast.Continue, ast.Return))
                                    for x in ast.walk(n)):
        if len(n.body) == 1 and isinstance(n.body[0], ast.If) and not n.body[0].orelse \
            and any(apps[0] is x for x in ast.walk(n.body[0])):
          return n.target.id, n.iter, n.body[0].test
        if len(n.body) == 1 and isinstance(n.body[0], ast.Expr) and n.body[0].value is apps[0]:
          return n.target.id, n.iter, None
    comp = None
    if isinstance(n, ast.Call) and core.norm(n.func) == wl + '.extend' and len(n.args) == 1:
      comp = n.args[0]
    if isinstance(n, ast.AugAssign) and core.norm(n.target) == wl and isinstance(n.op, ast.Add):
      comp = n.value
    if isinstance(comp, (ast.ListComp, ast.GeneratorExp)) and len(comp.generators) == 1 \
        and isinstance(comp.generators[0].target, ast.Name) and \
        core.norm(comp.elt) == comp.generators[0].target.id:
      g = comp.generators[0]
      cond = None
      if len(g.ifs) == 1:
        cond = g.ifs[0]
      elif len(g.ifs) > 1:
        cond = ast.BoolOp(op=ast.And(), values=list(g.ifs))
      return g.target.id, g.iter, cond
  return None


def check_driver(model, rep, rule):
  """cfg.GraphVisitor._visit_internal: a worklist that reaches a fixed point."""
  from sa import formula
  from sa import tpl
  fi = model.func(CFG, 'GraphVisitor._visit_internal')
  rep.touch(CFG)
  wl = [n for n in ast.walk(fi.node) if isinstance(n, ast.While)]
  ok = len(wl) == 1 and isinstance(wl[0].test, ast.Name)
  facts = {}
  if ok:
    lp = wl[0]
    wl_name = lp.test.id
    mode = fi.params()[0]

    def mode_atom(e):
      t = tpl.xnorm(fi, e, e) if isinstance(e, ast.Name) else core.norm(e)
      if t in ('%s == _WalkMode.FORWARD' % mode, '%s is _WalkMode.FORWARD' % mode):
        return 'FWD'
      if t in ('%s == _WalkMode.REVERSE' % mode, '%s is _WalkMode.REVERSE' % mode):
        return ~atom('FWD')        # the assert admits only the two modes
      return None
    fake = ast.FunctionDef(name='_iter', args=fi.node.args, body=lp.body,
                           decorator_list=[], lineno=lp.lineno)
    g = pycfg.CFG(fake)
    vis = {i: 1 for i in range(len(g.nodes)) if any(
        core.norm(c.func) == 'self.visit_node' for c in pycfg.calls_at(g, i))}
    rng = g.count_range(vis, skip_labels=())
    jumps = [n for n in ast.walk(lp) if isinstance(n, (ast.Break, ast.Continue,
                                                       ast.Return))]
    facts['visit_node_per_iteration'] = rng
    ok = rng == (1, 1) and not jumps
    # initial worklist per direction
    pre = fi.node.body[:fi.node.body.index(lp)]
    # `wl = <empty>` followed by one guarded `wl.append(x)` / `wl.extend(S)` is
    # the initialisation `wl = [x]` / `wl = list(S)`
    def _empty(v):
      return (isinstance(v, (ast.List, ast.Tuple)) and not v.elts) or (
          isinstance(v, ast.Call) and core.dotted(v.func) in (
              'list', 'collections.deque', 'deque') and not v.args and not v.keywords)
    empties = [st for st in pre if isinstance(st, ast.Assign) and len(st.targets) == 1 and
               core.norm(st.targets[0]) == wl_name and _empty(st.value)]
    if len(empties) == 1:
      import copy as _copy

      class _Fill(ast.NodeTransformer):
        def visit_Expr(self, st):
          c = st.value
          if isinstance(c, ast.Call) and isinstance(c.func, ast.Attribute) and \
              core.norm(c.func.value) == wl_name and len(c.args) == 1 and not c.keywords:
            if c.func.attr == 'append':
              v = ast.List(elts=[c.args[0]], ctx=ast.Load())
            elif c.func.attr == 'extend':
              v = ast.Call(func=ast.Name(id='list', ctx=ast.Load()), args=[c.args[0]],
                           keywords=[])
            else:
              return st
            return ast.fix_missing_locations(ast.copy_location(ast.Assign(
                targets=[ast.Name(id=wl_name, ctx=ast.Store())], value=v), st))
          return st
      after = pre[pre.index(empties[0]) + 1:]
      pre = [_Fill().visit(_copy.deepcopy(st)) for st in after]
    init = _guarded_values(fi, pre, wl_name, mode_atom)
    facts['initial'] = [(str(f), core.norm(v)) for f, v in init]

    def coll(v):
      """a worklist initialiser, whatever sequence type holds it: ONE(x) for a
      single element, the source expression for a copy of a collection"""
      while isinstance(v, ast.Call) and core.dotted(v.func) in (
          'list', 'collections.deque', 'deque', 'tuple') and len(v.args) == 1 \
          and not v.keywords:
        v = v.args[0]
      if isinstance(v, (ast.List, ast.Tuple)) and len(v.elts) == 1:
        if isinstance(v.elts[0], ast.Starred):
          return core.norm(v.elts[0].value)
        return 'ONE(%s)' % core.norm(v.elts[0])
      return core.norm(v)

    def under(vals, assume, want, norm=core.norm):
      hit = [norm(v) for f, v in vals if formula.implies(assume, f)[0]]
      return bool(hit) and all(h in want for h in hit)
    FWD = atom('FWD')
    ok = ok and under(init, FWD, ('ONE(self.graph.entry)',), coll) \
        and under(init, ~FWD, ('self.graph.exit',), coll)
    # dequeued node, closed set, revisit flag
    pops = [n for n in ast.walk(lp) if isinstance(n, ast.Assign) and isinstance(
        n.value, ast.Call) and core.norm(n.value.func) in (
            wl_name + '.pop', wl_name + '.popleft') and
            isinstance(n.targets[0], ast.Name)]
    rv = [n.targets[0].id for n in ast.walk(lp) if isinstance(n, ast.Assign) and
          isinstance(n.value, ast.Call) and core.norm(n.value.func) == 'self.visit_node'
          and isinstance(n.targets[0], ast.Name)]
    ok = ok and len(pops) == 1 and len(rv) == 1
    enq = _enqueue_form(lp, wl_name) if ok else None
    ok = ok and enq is not None
    if ok:
      nodev = pops[0].targets[0].id
      closed = [core.norm(c.func.value) for c in ast.walk(lp) if isinstance(c, ast.Call)
                and isinstance(c.func, ast.Attribute) and c.func.attr == 'add' and
                c.args and core.norm(c.args[0]) == nodev]
      ok = len(closed) == 1 and core.norm(
          [c for c in ast.walk(lp) if isinstance(c, ast.Call) and core.norm(c.func) ==
           'self.visit_node'][0].args[0]) == nodev
    if ok:
      elem, src, cond = enq
      # neighbours per direction
      if isinstance(src, ast.Name):
        nb = _guarded_values(fi, lp.body, src.id, mode_atom)
      elif isinstance(src, ast.IfExp):
        c = formula.bool_formula(src.test, mode_atom)
        nb = [(c, src.body), (~c, src.orelse)]
      else:
        nb = [(formula.TRUE, src)]
      # a getter chosen once per direction (operator.attrgetter('next')) and
      # applied to the node: the attribute it reads, under the guard it was
      # chosen under
      nb2 = []
      for f, v in nb:
        if isinstance(v, ast.Call) and isinstance(v.func, ast.Name) and len(v.args) == 1 \
            and not v.keywords:
          gv = _guarded_values(fi, fi.node.body, v.func.id, mode_atom)
          if gv and all(isinstance(x, ast.Call) and core.dotted(x.func) ==
                        'operator.attrgetter' and len(x.args) == 1 and isinstance(
                            x.args[0], ast.Constant) for g_, x in gv):
            for g_, x in gv:
              nb2.append((f & g_, ast.Attribute(value=v.args[0], attr=x.args[0].value,
                                                ctx=ast.Load())))
            continue
        nb2.append((f, v))
      nb = nb2
      facts['neighbours'] = [(str(f), core.norm(v)) for f, v in nb]
      ok = under(nb, FWD, (nodev + '.next',)) and under(nb, ~FWD, (nodev + '.prev',))
      if cond is not None:
        def at(e):
          t = core.norm(e)
          if t == rv[0]:
            return 'REVISIT'
          if t == '%s in %s' % (elem, closed[0]):
            return 'VISITED'
          return None
        f = formula.bool_formula(cond, at)
        facts['enqueue_condition'] = core.norm(cond)
        o1, _ = implies(atom('REVISIT'), f)
        o2, _ = implies(~atom('VISITED'), f)
        ok = ok and o1 and o2
  rep.check(ok, rule, '%s:worklist' % fi.site,
            'every dequeued node must be evaluated, and every neighbour '
            're-enqueued whenever the node asked for a revisit or the neighbour '
            'was never visited; forward from the entry over next, backward from '
            'the exits over prev', facts, line=fi.node.lineno,
            witness='three nested loops: the solution needs more than a fixed '
            'number of evaluations per node')
  return ok


# ---------------------------------------------------------------- value types
INPLACE_DUNDERS = ('__ior__', '__iadd__', '__isub__', '__iand__', '__ixor__')
_MUTATORS = {'update', 'add', 'discard', 'remove', 'pop', 'clear', 'append',
             'extend', 'setdefault', 'popitem', 'difference_update',
             'intersection_update', 'symmetric_difference_update'}


def check_value_type(rep, rule, cls, why=None):
  """The lattice state class is a value type: the analysis aliases states
  (`x = self.out[n]`) and compares the old and the new value to decide whether
  to revisit.  So outside __init__ no method may mutate the receiver or return
  it, and no in-place operator may be defined (Python then falls back to the
  pure binary operator)."""
  why = why or ('the transfer function keeps references to previous states and '
                'compares old with new: a method that mutates its receiver makes '
                'the comparison trivially equal and the fixed point iteration '
                'stops early')
  for name in INPLACE_DUNDERS:
    rep.check(name not in cls.methods, rule, '%s:no(%s)' % (cls.site, name), why,
              line=cls.methods[name].node.lineno if name in cls.methods else None,
              witness='`defs_in = prev_out; defs_in |= other` mutates prev_out',
              nontrivial=False)
  for name, m in sorted(cls.methods.items()):
    if name in ('__init__',) or name in INPLACE_DUNDERS:
      continue
    bad = []
    for x in core.walk_no_nested(m.node):
      if isinstance(x, (ast.Assign, ast.AugAssign, ast.Delete)):
        tgs = x.targets if not isinstance(x, ast.AugAssign) else [x.target]
        for t in tgs:
          b = t
          while isinstance(b, (ast.Attribute, ast.Subscript)):
            b = b.value
          if isinstance(b, ast.Name) and b.id == 'self' and t is not b:
            bad.append(core.norm(x)[:60])
      elif isinstance(x, ast.Call) and isinstance(x.func, ast.Attribute) and \
          x.func.attr in _MUTATORS:
        b = x.func.value
        while isinstance(b, (ast.Attribute, ast.Subscript)):
          b = b.value
        if isinstance(b, ast.Name) and b.id == 'self':
          bad.append(core.norm(x)[:60])
      elif isinstance(x, ast.Return) and isinstance(x.value, ast.Name) and \
          x.value.id == 'self':
        bad.append('return self')
    rep.check(not bad, rule, '%s:pure(%s)' % (cls.site, name), why,
              {'mutations': bad}, line=m.node.lineno)
  # the constructor copies: a state built from another state's content (or from
  # a caller's collection) must not share it, otherwise the "pure" operators,
  # which start from `State(self.value)`, mutate their own receiver
  init = cls.methods.get('__init__')
  if init is not None:
    ps = set(init.params())

    def fresh(e):
      if isinstance(e, (ast.Constant, ast.Set, ast.Dict, ast.List, ast.Tuple, ast.SetComp,
                        ast.DictComp, ast.ListComp)):
        return True
      if isinstance(e, ast.Call):
        d = core.dotted(e.func) or ''
        if d in ('set', 'dict', 'frozenset', 'list', 'tuple', 'copy.copy',
                 'copy.deepcopy', 'collections.OrderedDict', 'weakref.WeakKeyDictionary'):
          return True
        if isinstance(e.func, ast.Attribute) and e.func.attr == 'copy' and not e.args:
          return True
        return not any(isinstance(x, ast.Name) and x.id in ps for x in ast.walk(e))
      if isinstance(e, ast.IfExp):
        return fresh(e.body) and fresh(e.orelse)
      if isinstance(e, ast.BoolOp):
        return all(fresh(v) for v in e.values)
      # a bare parameter / attribute of a parameter: shared with the caller
      return not any(isinstance(x, ast.Name) and x.id in ps for x in ast.walk(e))
    shared = [core.norm(a)[:70] for a in ast.walk(init.node) if isinstance(a, ast.Assign)
              and any(isinstance(t, ast.Attribute) and core.norm(t.value) == 'self'
                      for t in a.targets) and not fresh(a.value)]
    rep.check(not shared, rule, '%s:constructor-copies' % cls.site,
              'a state object must own its collection: storing the argument '
              'itself makes `State(self.value)` an alias of self, and the '
              'operators that update the copy then change the stored state in '
              'place (the revisit test compares a state with itself)',
              {'shared': shared}, line=init.node.lineno,
              witness='two local functions reaching a loop header at different times')


def check_state_eq(model, rep, rule, cls):
  """The change flag of the transfer function is `old != new` on the state
  class: its equality must look at every symbol.  Decided on the shape of
  __eq__ / __ne__: inside a loop over the symbols the only return is `return
  False`; outside, `all(<comparison> for s in <symbols>)` without a filter, a
  plain comparison of the two tables, or a constant; __ne__ is the negation of
  __eq__ (or absent: Python derives it)."""
  from sa import tpl
  eq = cls.methods.get('__eq__')
  if eq is None:
    raise core.AnalysisError('%s.__eq__ not found' % cls.name)
  probs = []
  par = {}
  for a in ast.walk(eq.node):
    for b in ast.iter_child_nodes(a):
      par[b] = a

  def in_loop(n):
    while n in par:
      n = par[n]
      if isinstance(n, (ast.For, ast.While)):
        return True
    return False
  n_ret = 0
  for r in ast.walk(eq.node):
    if not isinstance(r, ast.Return):
      continue
    n_ret += 1
    v = tpl.expand(eq, r.value, r) if r.value is not None else None
    if in_loop(r):
      if not (isinstance(v, ast.Constant) and v.value is False):
        probs.append('returns %s from inside the loop over the symbols' % core.norm(r))
      continue
    if isinstance(v, ast.Constant) and isinstance(v.value, bool):
      continue
    if isinstance(v, ast.Call) and core.dotted(v.func) == 'all' and len(v.args) == 1 and \
        isinstance(v.args[0], (ast.GeneratorExp, ast.ListComp)):
      g = v.args[0]
      if any(gen.ifs for gen in g.generators):
        probs.append('all() over a filtered selection of the symbols')
      continue
    if isinstance(v, ast.Compare) and len(v.ops) == 1 and isinstance(v.ops[0], ast.Eq):
      continue
    if isinstance(v, ast.BoolOp) and isinstance(v.op, ast.And):
      continue
    probs.append('returns %s' % core.norm(r)[:60])
  if any(isinstance(x, ast.Break) for x in ast.walk(eq.node)):
    probs.append('leaves the loop over the symbols early (break)')
  ne = cls.methods.get('__ne__')
  if ne is not None:
    rets = [r for r in ast.walk(ne.node) if isinstance(r, ast.Return)]
    p0 = (ne.params() + ['other'])[0]
    okn = len(rets) == 1 and core.norm(rets[0].value) in (
        'not self.__eq__(%s)' % p0, 'not self == %s' % p0, 'not (self == %s)' % p0)
    if not okn:
      probs.append('__ne__ is not the negation of __eq__')
  rep.check(n_ret >= 1 and not probs, rule, '%s:%s:equality-looks-at-every-symbol' % (
      eq.module.rel, cls.name),
            'the fixed-point iteration stops when the new state equals the old one: '
            'an equality that answers before it has compared every symbol ends the '
            'iteration while information is still moving', {'problems': probs},
            line=eq.node.lineno,
            witness='a loop that changes the type / definitions of a variable that is '
            'not the first symbol of the table')


def check_state_encapsulated(model, rep, rule, rel, cls, field):
  """The state's table is only combined through the class's own operators (`|`
  unites the definitions of a symbol, `-` drops symbols): outside the class
  nothing writes into `<state>.<field>` -- a dict-level update *replaces* the
  entry of a symbol that both states hold."""
  m = model.module(rel)
  bad = []
  for fi in m.all_functions():
    if fi.cls is not None and fi.cls.name == cls.name:
      continue
    for x in core.walk_no_nested(fi.node):
      recv = None
      if isinstance(x, ast.Call) and isinstance(x.func, ast.Attribute) and \
          x.func.attr in _MUTATORS:
        recv = x.func.value
      elif isinstance(x, (ast.Assign, ast.AugAssign, ast.Delete)):
        tgs = x.targets if not isinstance(x, ast.AugAssign) else [x.target]
        for t in tgs:
          if isinstance(t, ast.Subscript):
            recv = t.value
          elif isinstance(t, ast.Attribute) and t.attr == field and isinstance(
              x, ast.AugAssign):
            recv = t
      if recv is None:
        continue
      b = recv
      while isinstance(b, ast.Subscript):
        b = b.value
      if isinstance(b, ast.Attribute) and b.attr == field and not (
          isinstance(b.value, ast.Name) and b.value.id == 'self'):
        bad.append('%s: %s' % (fi.qualname, core.norm(x)[:70]))
  rep.check(not bad, rule, '%s:%s:table-written-only-by-the-class' % (rel, cls.name),
            'the table of a state is changed from outside the state class: a symbol '
            'present in both operands keeps only one side\'s definitions (the class\'s '
            '| unites them)', {'writes': bad},
            witness='a global / nonlocal declaration inside a loop body: the '
            'definitions carried by the back edge are replaced, not united')


def check_no_early_exit(rep, rule, fi, ev):
  """A loop over neighbours / reaching definitions that the transfer function
  (or a helper it calls) can leave by `return` looks at a prefix only -- of a
  set, i.e. at an arbitrary subset."""
  early = [f for f in ev.facts if f[0] == 'early-return']
  rep.check(not early, rule, '%s:loops-run-to-the-end' % fi.site,
            'a loop over graph neighbours or reaching function definitions is left '
            'by a return: what the remaining elements contribute is lost',
            {'loops': [f[1] for f in early]}, line=fi.node.lineno,
            witness='a lambda ahead of a local def in the (unordered) set of '
            'reaching function definitions')


def check_loop_target_kill(model, rep, rule):
  """The CFG node of a for statement's header lies on both edges out of the loop
  head: into the body and past the loop (zero iterations, or the iterable is
  exhausted).  The transfer functions read kill (liveness) and gen / kill
  (reaching definitions) of a node from the Scope recorded on its AST node.  If
  that scope has the loop *target* as modified, the value the target holds
  before the loop is killed on the exit edge too, although no iteration may
  have assigned it.  Decided by following ActivityAnalyzer.visit_For's enter /
  exit calls on a symbolic scope stack: which fields are visited inside the
  scope that is recorded on the node the CFG uses as loop header."""
  CFGM = 'malt/pyct/cfg.py'
  ACTM = 'malt/pyct/static_analysis/activity.py'
  cf = model.func(CFGM, 'AstToCfg.visit_For')
  cp = cf.params()[0]
  heads = [c for c in ast.walk(cf.node) if isinstance(c, ast.Call) and core.norm(
      c.func) == 'self.builder.enter_loop_section' and len(c.args) == 2]
  if len(heads) != 1:
    raise core.AnalysisError('cfg.visit_For: loop header not identified')
  head_field = core.norm(heads[0].args[1])
  if not head_field.startswith(cp + '.'):
    raise core.AnalysisError('cfg.visit_For: loop header is not a field of the statement')
  head_field = head_field[len(cp) + 1:]
  af = model.func(ACTM, 'ActivityAnalyzer.visit_For')
  ap = af.params()[0]
  stack, visits, recorded = [], {}, {}

  def walk(stmts):
    for st in stmts:
      if isinstance(st, (ast.If, ast.With, ast.For, ast.While, ast.Try)):
        if any(isinstance(c, ast.Call) and core.norm(c.func) in (
            'self._enter_scope', 'self._exit_and_record_scope', 'self._exit_scope')
               for c in ast.walk(st)):
          raise core.AnalysisError('activity.visit_For: scopes entered conditionally')
        continue
      for c in core.preorder(st):
        if not isinstance(c, ast.Call):
          continue
        f = core.norm(c.func)
        if f == 'self._enter_scope':
          sid = len(visits)
          visits[sid] = []
          stack.append(sid)
        elif f in ('self._exit_and_record_scope', 'self._exit_scope'):
          if not stack:
            raise core.AnalysisError('activity.visit_For: scope stack underflow')
          sid = stack.pop()
          if f.endswith('record_scope') and c.args:
            tag = c.args[1] if len(c.args) > 1 else next(
                (k.value for k in c.keywords if k.arg == 'tag'), None)
            recorded[sid] = (core.norm(c.args[0]), core.norm(tag) if tag is not None
                             else 'anno.Static.SCOPE')
        elif f in ('self.visit', 'self.visit_block') and c.args and stack:
          visits[stack[-1]].append(core.norm(c.args[0]))
  walk(af.node.body)
  hdr = [sid for sid, (n_, tag) in recorded.items()
         if n_ == '%s.%s' % (ap, head_field) and tag == 'anno.Static.SCOPE']
  if len(hdr) != 1:
    raise core.AnalysisError('activity.visit_For: the scope of the loop header node '
                             'was not found')
  inside = visits[hdr[0]]
  rep.check('%s.target' % ap not in inside, rule,
            '%s:loop-target-killed-on-exit-edge' % af.site,
            'the loop target is visited (as a store) inside the scope recorded on '
            '%s.%s, the node the CFG uses as loop header: that node also lies on '
            'the edge that leaves the loop, so the value the target had before a '
            'zero-iteration loop is killed -- not live across the preceding '
            'statement, not among the reaching definitions after the loop'
            % (ap, head_field),
            {'header_node': head_field, 'visited_in_header_scope': inside},
            line=af.node.lineno,
            witness='if c: i = 5 / else: i = 6 / for i in xs: pass / return i  with xs == []')

