"""Repository facts shared by several property checkers (extracted structurally,
independent of local variable names)."""
import ast

from sa import core

API = 'malt/impl/api.py'


def extra_locals(model):
  """What PyToPy.get_extra_locals exports under the alias it returns.

  -> dict(alias=str, explicit={attr: value text}, merged=[module expression
  text whose __dict__ is merged], func=FuncInfo)
  """
  gel = model.func(API, 'PyToPy.get_extra_locals')
  modvar = None
  for n in ast.walk(gel.node):
    if isinstance(n, ast.Assign) and isinstance(n.targets[0], ast.Name) and \
        isinstance(n.value, ast.Call) and core.dotted(n.value.func) in (
            'importlib.util.module_from_spec', 'types.ModuleType'):
      modvar = n.targets[0].id
  if modvar is None:
    raise core.AnalysisError('get_extra_locals: injected module object not found')
  explicit, merged = {}, []
  for n in ast.walk(gel.node):
    if isinstance(n, ast.Assign) and isinstance(n.targets[0], ast.Attribute) and \
        core.norm(n.targets[0].value) == modvar:
      explicit[n.targets[0].attr] = core.norm(n.value)
    if isinstance(n, ast.Call) and core.norm(n.func) == modvar + '.__dict__.update':
      merged.append(core.norm(n.args[0]))
  alias = None
  for n in ast.walk(gel.node):
    if isinstance(n, ast.Dict) and len(n.keys) == 1 and isinstance(n.keys[0], ast.Constant):
      v = n.values[0]
      same = core.norm(v) == modvar
      if not same and isinstance(v, ast.Name):
        # a copy of the module variable (e.g. the result slot of an inlined helper)
        from sa import tpl
        ex = tpl.expand(gel, v, n)
        same = isinstance(ex, ast.Call) and core.dotted(ex.func) in (
            'importlib.util.module_from_spec', 'types.ModuleType')
      if same:
        alias = n.keys[0].value
  return dict(alias=alias, explicit=explicit, merged=merged, func=gel)
