"""E1b: ASDL field-type discipline (rules ASDL-1 .. ASDL-5).

A small typed abstract interpreter over every `visit_<T>` method of every
class whose MRO reaches ast.NodeVisitor: `node : T`, `node.f : fieldtype`,
iteration / indexing of `*` fields, locals, helper methods of the same class
inlined to a bounded depth with the argument types of the call site.
"""
import ast

from sa import asdl
from sa import core

DEAD_EXTRA = {'Num', 'Str', 'Bytes', 'NameConstant', 'Ellipsis'}
DEAD = asdl.DEAD | DEAD_EXTRA

NODE_ATTRS = {'lineno', 'col_offset', 'end_lineno', 'end_col_offset', '_fields',
              '__class__', '_attributes', '__dict__'}

# callee (resolved dotted name) -> which positional argument must be a node
ANNO_SINKS = {'getanno', 'hasanno', 'setanno', 'delanno', 'copyanno', 'dup'}
AST_NODE_SINKS = {'ast.walk', 'ast.iter_child_nodes', 'ast.iter_fields',
                  'ast.copy_location', 'ast.fix_missing_locations', 'ast.dump',
                  'ast.unparse', 'ast.increment_lineno'}


def t_node(kinds):
  return ('node', frozenset(kinds))


def t_field(kind, fname):
  f = asdl.field(kind, fname)
  if f is None:
    return 'NOFIELD'
  _, ft, q = f
  base = ('prim', ft) if ft in asdl.PRIM else t_node(asdl.alts(ft))
  if q == '*':
    return ('list', base)
  if q == '?':
    return ('opt', base)
  return base


def strip_opt(t):
  return t[1] if t and t != 'NOFIELD' and t[0] == 'opt' else t


class Finding:

  def __init__(self, rule, fi, line, construct, msg, kind=None):
    self.rule = rule
    self.fi = fi
    self.line = line
    self.construct = construct
    self.msg = msg
    self.kind = kind


class Analyzer:

  def __init__(self, model, depth=2):
    self.model = model
    self.depth = depth
    self.findings = []
    self.dead_handlers = []
    self.guarded_reads = []
    self.n_methods = 0
    self.n_sinks = 0
    self.n_attr = 0

  # ---------------------------------------------------------------- handlers
  def run_class(self, cls):
    for name, fi in cls.methods.items():
      if not name.startswith('visit_'):
        continue
      a = fi.node.args.args
      if len(a) < 2:
        continue
      T = name[6:]
      if T not in asdl.FIELDS:
        if T not in asdl.SUMS:
          self.dead_handlers.append((fi, T))
        continue
      self.n_methods += 1
      self.analyse(fi, {a[1].arg: t_node([T])}, 0, entry=fi)

  # ---------------------------------------------------------------- core
  def analyse(self, fi, env, depth, entry, consts=None):
    st = _State(self, fi, entry, depth)
    st.probes = _probes(fi.node)
    st.block(fi.node.body, dict(env), dict(consts or {}))


class _State:
  """One abstract run over a function body (path pruning on constant flags and
  on isinstance tests whose narrowing is empty)."""

  def __init__(self, an, fi, entry, depth):
    self.an = an
    self.fi = fi
    self.entry = entry
    self.depth = depth
    self.probes = set()
    self.params = set()

  # ---- types of expressions
  def ty(self, e, env, report=False):
    an = self.an
    if isinstance(e, ast.Name):
      return env.get(e.id)
    if isinstance(e, ast.Attribute):
      b = strip_opt(self.ty(e.value, env, report))
      if b and b != 'NOFIELD' and b[0] == 'node':
        res = set()
        for a in b[1]:
          ft = t_field(a, e.attr)
          if ft != 'NOFIELD':
            res.add(ft)
        if not res:
          if e.attr not in NODE_ATTRS and not e.attr.startswith('_') and \
              report and isinstance(e.ctx, ast.Load):
            an.n_attr += 1
            base = e.value.id if isinstance(e.value, ast.Name) else None
            if (base, e.attr) in self.probes:
              an.guarded_reads.append((self.fi, e.lineno, ast.unparse(e)))
            else:
              an.findings.append(Finding(
                  'ASDL-4', self.entry, e.lineno,
                  '%s.%s' % ('|'.join(sorted(b[1])[:3]), e.attr),
                  '%s: no alternative of %s has a field %r' %
                  (ast.unparse(e), sorted(b[1])[:4], e.attr)))
          return None
        if report:
          an.n_attr += 1
        if len(res) == 1:
          return next(iter(res))
        shapes = {strip_opt(r)[0] for r in res}
        if shapes == {'node'}:
          ks = set()
          for r in res:
            ks |= strip_opt(r)[1]
          return t_node(ks)
        return None
      return None
    if isinstance(e, ast.Subscript):
      b = strip_opt(self.ty(e.value, env, report))
      if b and b != 'NOFIELD' and b[0] == 'list':
        return b if isinstance(e.slice, ast.Slice) else b[1]
      return None
    if isinstance(e, ast.IfExp):
      a, b2 = self.ty(e.body, env), self.ty(e.orelse, env)
      return a if a == b2 else None
    if isinstance(e, ast.Call) and e.args and isinstance(e.func, ast.Attribute) \
        and isinstance(e.func.value, ast.Name) and e.func.value.id == 'self' \
        and e.func.attr == 'generic_visit':
      return self.ty(e.args[0], env)
    return None

  # ---- constant tests / narrowing
  def const_test(self, t, consts):
    if isinstance(t, ast.Name) and t.id in consts:
      return bool(consts[t.id])
    if isinstance(t, ast.UnaryOp) and isinstance(t.op, ast.Not):
      v = self.const_test(t.operand, consts)
      return None if v is None else (not v)
    if isinstance(t, ast.Compare) and len(t.ops) == 1 and isinstance(
        t.left, ast.Name) and t.left.id in consts and isinstance(
            t.comparators[0], ast.Constant) and t.comparators[0].value is None:
      if isinstance(t.ops[0], ast.Is):
        return consts[t.left.id] is None
      if isinstance(t.ops[0], ast.IsNot):
        return consts[t.left.id] is not None
    return None

  def isinstance_kinds(self, call):
    """isinstance(x, ast.K | (ast.K1, ...)) -> (name, kinds) or None."""
    if not (isinstance(call, ast.Call) and isinstance(call.func, ast.Name) and
            call.func.id == 'isinstance' and len(call.args) == 2 and
            isinstance(call.args[0], ast.Name)):
      return None
    spec = call.args[1]
    elts = spec.elts if isinstance(spec, ast.Tuple) else [spec]
    kinds = set()
    for el in elts:
      if isinstance(el, ast.Attribute) and isinstance(el.value, ast.Name) and \
          self.fi.module.imports.get(el.value.id) == 'ast':
        kinds |= set(asdl.alts(el.attr)) if el.attr in asdl.SUMS else {el.attr}
      else:
        return None
    return call.args[0].id, kinds

  def narrow(self, test, env):
    """-> (env_true or None if dead, env_false or None if dead)."""
    neg = False
    t = test
    if isinstance(t, ast.UnaryOp) and isinstance(t.op, ast.Not):
      neg = True
      t = t.operand
    ik = self.isinstance_kinds(t)
    if ik is None:
      if isinstance(test, ast.BoolOp) and isinstance(test.op, ast.And):
        et = dict(env)
        dead = False
        for v in test.values:
          r = self.narrow(v, et)
          if r[0] is None:
            dead = True
            break
          et = r[0]
        return (None if dead else et), dict(env)
      return dict(env), dict(env)
    name, kinds = ik
    cur = strip_opt(env.get(name))
    if not cur or cur == 'NOFIELD' or cur[0] != 'node':
      et = dict(env)
      if cur is None:
        et[name] = t_node(kinds)
      ef = dict(env)
      return (ef, et) if neg else (et, ef)
    inter = cur[1] & kinds
    rest = cur[1] - kinds
    et = dict(env)
    ef = dict(env)
    et[name] = t_node(inter)
    ef[name] = t_node(rest)
    rt = et if inter else None
    rf = ef if rest else None
    return (rf, rt) if neg else (rt, rf)

  # ---- statements
  def block(self, stmts, env, consts):
    """Runs stmts; returns env at fall-through, or None if no fall-through."""
    for s in stmts:
      env = self.stmt(s, env, consts)
      if env is None:
        return None
    return env

  @staticmethod
  def merge(a, b):
    if a is None:
      return b
    if b is None:
      return a
    return {k: v for k, v in a.items() if b.get(k) == v}

  def stmt(self, s, env, consts):
    if isinstance(s, (ast.FunctionDef, ast.AsyncFunctionDef, ast.ClassDef)):
      return env
    if isinstance(s, ast.If):
      c = self.const_test(s.test, consts)
      if c is True:
        return self.block(s.body, env, consts)
      if c is False:
        return self.block(s.orelse, env, consts)
      et, ef = self.narrow(s.test, env)
      self.exprs(s.test, env)
      r1 = self.block(s.body, et, consts) if et is not None else None
      r2 = self.block(s.orelse, ef, consts) if ef is not None else None
      if et is None and ef is None:
        return env
      return self.merge(r1, r2)
    if isinstance(s, ast.Assert):
      self.exprs(s.test, env)
      et, _ = self.narrow(s.test, env)
      return et if et is not None else env
    if isinstance(s, (ast.For, ast.AsyncFor)):
      self.exprs(s.iter, env)
      e2 = dict(env)
      self.bind_iter(s.target, s.iter, e2)
      r = self.block(s.body, e2, consts)
      out = self.merge(env, r) if r is not None else env
      r2 = self.block(s.orelse, dict(out), consts)
      return out if r2 is None else self.merge(out, r2)
    if isinstance(s, ast.While):
      self.exprs(s.test, env)
      r = self.block(s.body, dict(env), consts)
      return self.merge(env, r) if r is not None else env
    if isinstance(s, (ast.With, ast.AsyncWith)):
      for it in s.items:
        self.exprs(it.context_expr, env)
      return self.block(s.body, env, consts)
    if isinstance(s, ast.Try):
      r = self.block(s.body, dict(env), consts)
      outs = [r]
      for h in s.handlers:
        outs.append(self.block(h.body, dict(env), consts))
      if r is not None and s.orelse:
        outs[0] = self.block(s.orelse, r, consts)
      cur = None
      for o in outs:
        cur = self.merge(cur, o)
      if s.finalbody:
        cur = self.block(s.finalbody, cur if cur is not None else dict(env),
                         consts)
      return cur
    if isinstance(s, (ast.Return, ast.Raise)):
      for ch in ast.iter_child_nodes(s):
        self.exprs(ch, env)
      return None
    if isinstance(s, (ast.Break, ast.Continue)):
      return None
    if isinstance(s, ast.Assign):
      self.exprs(s.value, env)
      for t in s.targets:
        self.exprs(t, env)
      if len(s.targets) == 1 and isinstance(s.targets[0], ast.Name):
        nm = s.targets[0].id
        t = self.ty(s.value, env)
        env = dict(env)
        if t and t != 'NOFIELD':
          env[nm] = t
        elif nm in env and not _keeps_type(s.value, nm):
          env.pop(nm)
      elif len(s.targets) == 1 and isinstance(s.targets[0], ast.Tuple):
        env = dict(env)
        for el in s.targets[0].elts:
          if isinstance(el, ast.Name):
            env.pop(el.id, None)
      return env
    for ch in ast.iter_child_nodes(s):
      self.exprs(ch, env)
    return env

  def bind_iter(self, target, it, env):
    if isinstance(it, ast.Call) and isinstance(it.func, ast.Name) and \
        it.func.id in ('enumerate', 'reversed', 'list', 'tuple') and it.args:
      src = strip_opt(self.ty(it.args[0], env))
      if it.func.id == 'enumerate':
        target = target.elts[-1] if isinstance(target, ast.Tuple) else None
    else:
      src = strip_opt(self.ty(it, env))
    if isinstance(target, ast.Name):
      if src and src != 'NOFIELD' and src[0] == 'list':
        env[target.id] = src[1]
      else:
        env.pop(target.id, None)
    elif target is not None:
      for n in ast.walk(target):
        if isinstance(n, ast.Name):
          env.pop(n.id, None)

  # ---- expressions: attribute reads and sinks
  def exprs(self, e, env):
    if isinstance(e, (ast.ListComp, ast.SetComp, ast.GeneratorExp, ast.DictComp)):
      e2 = dict(env)
      for g in e.generators:
        self.exprs(g.iter, e2)
        self.bind_iter(g.target, g.iter, e2)
        for c in g.ifs:
          self.exprs(c, e2)
      if isinstance(e, ast.DictComp):
        self.exprs(e.key, e2)
        self.exprs(e.value, e2)
      else:
        self.exprs(e.elt, e2)
      return
    if isinstance(e, ast.Lambda):
      return
    if isinstance(e, ast.IfExp):
      et, ef = self.narrow(e.test, env)
      self.exprs(e.test, env)
      if et is not None:
        self.exprs(e.body, et)
      if ef is not None:
        self.exprs(e.orelse, ef)
      return
    if isinstance(e, ast.BoolOp) and isinstance(e.op, ast.And):
      cur = env
      for v in e.values:
        self.exprs(v, cur)
        nt, _ = self.narrow(v, cur)
        if nt is None:
          return
        cur = nt
      return
    if isinstance(e, ast.Attribute):
      self.ty(e, env, report=True)
      if not isinstance(e.value, (ast.Name, ast.Attribute, ast.Subscript)):
        self.exprs(e.value, env)
      elif isinstance(e.value, ast.Subscript):
        self.exprs(e.value.slice, env)
      return
    if isinstance(e, ast.Call):
      self.call(e, env)
    for ch in ast.iter_child_nodes(e):
      self.exprs(ch, env)

  def call(self, n, env):
    an = self.an
    f = n.func
    if isinstance(f, ast.Attribute) and isinstance(f.value, ast.Name) and \
        f.value.id == 'self' and n.args:
      name = f.attr
      if name in ('visit', 'generic_visit', 'visit_block'):
        an.n_sinks += 1
        an.sink(self.entry, n, name, strip_opt(self.ty(n.args[0], env)))
      elif self.fi.cls is not None and self.depth < an.depth:
        h = self.fi.cls.find(name)
        if h is not None and not name.startswith('visit_'):
          hp = h.params()
          henv, hconst = {}, {}
          a = h.node.args
          allp = [x.arg for x in a.posonlyargs + a.args][1:]
          defaults = dict(zip(reversed(allp), reversed(a.defaults)))
          bound = dict(zip(hp, n.args))
          for k in n.keywords:
            if k.arg:
              bound[k.arg] = k.value
          for p in allp:
            v = bound.get(p, defaults.get(p))
            if v is None:
              continue
            if isinstance(v, ast.Constant) and (v.value is None or isinstance(
                v.value, bool)):
              hconst[p] = v.value
              continue
            if p in bound:
              t = self.ty(v, env)
              if t and t != 'NOFIELD':
                henv[p] = t
          if henv:
            an.analyse(h, henv, self.depth + 1, self.entry, hconst)
      return
    d = core.dotted(f)
    if d is None or not n.args:
      return
    r = an.model.resolve(self.fi.module, f)
    full = None
    if r and r[0] == 'func':
      full = r[1].module.name + '.' + r[1].name
    elif r and r[0] == 'ext':
      full = r[1]
    if full is None:
      return
    if full.startswith('malt.pyct.anno.') and full.rsplit('.', 1)[1] in ANNO_SINKS:
      an.n_sinks += 1
      an.sink(self.entry, n, 'anno.' + full.rsplit('.', 1)[1],
              strip_opt(self.ty(n.args[0], env)))
    elif full in AST_NODE_SINKS:
      an.n_sinks += 1
      an.sink(self.entry, n, full, strip_opt(self.ty(n.args[0], env)))


def _keeps_type(value, name):
  # x = self.visit(x) / self.generic_visit(x) keep the static type
  return (isinstance(value, ast.Call) and value.args and isinstance(
      value.args[0], ast.Name) and value.args[0].id == name)


def _probes(fn):
  probes = set()
  for n in ast.walk(fn):
    if isinstance(n, ast.Call) and isinstance(n.func, ast.Name) and \
        n.func.id in ('getattr', 'hasattr') and len(n.args) >= 2 and \
        isinstance(n.args[0], ast.Name) and isinstance(n.args[1], ast.Constant):
      if n.func.id == 'hasattr' or len(n.args) == 3:
        probes.add((n.args[0].id, n.args[1].value))
  return probes


def _sink(self, entry, call, sink, t):
  if not t or t == 'NOFIELD':
    return
  src = ast.unparse(call)
  arg = ast.unparse(call.args[0])
  if t[0] == 'prim':
    self.findings.append(Finding(
        'ASDL-1', entry, call.lineno, '%s(%s)' % (sink, arg),
        '%s: the argument has ASDL type %s (a plain %s, not a node)' %
        (src, t[1], 'str' if t[1] in ('identifier', 'string') else 'value')))
  elif t[0] == 'list' and (sink in ('visit', 'generic_visit') or
                           sink.startswith('anno.')):
    self.findings.append(Finding(
        'ASDL-2', entry, call.lineno, '%s(%s)' % (sink, arg),
        '%s: a `*` (list) field is passed where a single node is expected' % src))
  elif t[0] == 'node' and sink == 'visit_block':
    self.findings.append(Finding(
        'ASDL-2', entry, call.lineno, '%s(%s)' % (sink, arg),
        '%s: a single node is passed to visit_block (expects a list)' % src))


Analyzer.sink = _sink


# ------------------------------------------------------------------ ASDL-3
def dead_class_refs(module):
  """References to dead grammar classes (ast.slice, ast.Index, ast.Num ...)."""
  out = []
  for n in ast.walk(module.tree):
    if isinstance(n, ast.Attribute) and isinstance(n.value, ast.Name) and \
        n.attr in DEAD:
      if module.imports.get(n.value.id) == 'ast':
        out.append(n)
  return out


# ------------------------------------------------------------------ ASDL-5
def constructions(module):
  """(call, kind) for every ast.<Kind>(...) call in a module."""
  out = []
  for n in ast.walk(module.tree):
    if isinstance(n, ast.Call) and isinstance(n.func, ast.Attribute) and \
        isinstance(n.func.value, ast.Name) and \
        module.imports.get(n.func.value.id) == 'ast' and \
        n.func.attr in asdl.CLASSES and n.func.attr[0].isupper():
      out.append((n, n.func.attr))
  return out


def check_construction(call, kind):
  """Returns list of problems for one ast.Kind(...) call."""
  probs = []
  if kind in DEAD:
    return ['constructs dead class ast.%s' % kind]
  fs = asdl.fields(kind)
  if kind in asdl.SUMS:
    return ['constructs abstract sum type ast.%s' % kind]
  names = [f[0] for f in fs]
  if any(isinstance(a, ast.Starred) for a in call.args) or any(
      k.arg is None for k in call.keywords):
    return probs
  if len(call.args) > len(names):
    probs.append('%d positional arguments for %d fields %s' %
                 (len(call.args), len(names), names))
  given = set(names[:len(call.args)])
  for k in call.keywords:
    if k.arg not in names and k.arg not in ('lineno', 'col_offset', 'end_lineno',
                                            'end_col_offset', 'kind', 'type_comment'):
      probs.append('unknown field %r (fields: %s)' % (k.arg, names))
    if k.arg in given:
      probs.append('field %r given twice' % k.arg)
    given.add(k.arg)
  for (fn, ft, q) in fs:
    if q == '' and fn not in given and ft != 'expr_context':
      probs.append('required field %r (%s) missing' % (fn, ft))
  # a `*` field holds a list: the tree is walked (printed, copied, mapped) more
  # than once, so a one-shot iterable or an unordered collection is malformed
  vals = dict(zip(names, call.args))
  for k in call.keywords:
    if k.arg:
      vals[k.arg] = k.value
  for (fn, ft, q) in fs:
    v = vals.get(fn)
    if v is None:
      continue
    if q == '*' and isinstance(v, (ast.GeneratorExp, ast.Set, ast.SetComp, ast.Dict,
                                   ast.DictComp)):
      probs.append('list field %r built as %s' % (fn, type(v).__name__))
    if q == '*' and isinstance(v, ast.Call) and core.dotted(v.func) in (
        'iter', 'map', 'filter', 'zip', 'reversed', 'set', 'frozenset'):
      probs.append('list field %r built by %s(...)' % (fn, core.dotted(v.func)))
  return probs
