"""Path-wise symbolic values: what a local expression denotes, in terms of the
function's parameters, on each path that reaches a statement.

For every entry -> target path of the statement CFG (loops cut after one visit)
assignments to plain local names are substituted forward, branch tests are
recorded with their polarity after the same substitution.  Result: a list of
(conditions, value) pairs, value being an expression over parameters / self
attributes.  Exact for straight-line and branching code; a name assigned inside
a loop that the path re-enters is left unsubstituted (opaque).
"""
import ast
import copy

from sa import core
from sa import pycfg


class _Sub(ast.NodeTransformer):

  def __init__(self, env):
    self.env = env

  def visit_Name(self, n):
    if isinstance(n.ctx, ast.Load) and n.id in self.env:
      return copy.deepcopy(self.env[n.id])
    return n


def subst(e, env):
  return _Sub(env).visit(copy.deepcopy(e))


def path_values(fn_node, target_stmt, expr, limit=400):
  """-> [(conds, value)] with conds = [(polarity 'T'/'F', test_expr_substituted)]"""
  g = pycfg.CFG(fn_node)
  ti = g.node_of(target_stmt)
  if ti is None:
    for i, (k, a) in enumerate(g.nodes):
      if a is not None and any(x is target_stmt for e in g.exprs_of(i) for x in ast.walk(e)):
        ti = i
        break
  if ti is None:
    return []
  out = []
  for path in g.paths(limit=limit, ends={ti}, max_visits=1):
    env = {}
    conds = []
    for idx, (i, lab) in enumerate(path):
      k, a = g.nodes[i]
      if a is None or i == ti:
        continue
      if k == 'test' and isinstance(a, ast.expr) and idx + 1 < len(path):
        nxt = path[idx + 1][1]
        if nxt in ('T', 'F'):
          conds.append((nxt, subst(a, env)))
      elif k == 'stmt' and isinstance(a, ast.Assign) and len(a.targets) == 1 and \
          isinstance(a.targets[0], ast.Name):
        env[a.targets[0].id] = subst(a.value, env)
      elif k == 'stmt' and isinstance(a, ast.Assign) and all(
          isinstance(t, ast.Name) for t in a.targets) and isinstance(
              a.value, (ast.Constant, ast.Name)):
        # a = b = None
        v = subst(a.value, env)
        for t in a.targets:
          env[t.id] = copy.deepcopy(v)
      elif k == 'stmt' and isinstance(a, ast.AugAssign) and isinstance(
          a.target, ast.Name) and a.target.id in env:
        # x += e  with a known x:  x = x + e
        env[a.target.id] = ast.BinOp(left=env[a.target.id], op=a.op,
                                     right=subst(a.value, env))
      elif k == 'stmt' and isinstance(a, (ast.Assign, ast.AugAssign, ast.For)):
        for t in ast.walk(a):
          if isinstance(t, ast.Name) and isinstance(t.ctx, ast.Store):
            env.pop(t.id, None)
    out.append((conds, subst(expr, env)))
  return out
