"""STALE: a converter handler never embeds a child it read off the node *before*
it let the visitor rewrite the node.

`node = self.generic_visit(node)` replaces scalar children (node.func,
node.left, node.test ...) by whatever their handlers return and rewrites list
fields in place.  A reference to a scalar child, or a copy of a list field
(list(...), zip(...), a slice, a comprehension), taken before that call still
points at the unconverted subtree.  Handing it to a template afterwards puts
native code back into the output (a call whose callee is itself a call keeps
the inner call native).  Plain aliases of a list field stay valid (the list is
updated in place) and annotation lookups do not embed anything.
"""
import ast

from sa import asdl
from sa import core
from sa import pycfg
from sa import rules_dup
from sa import tpl

ANNO_FUNCS = ('anno.getanno', 'anno.hasanno', 'anno.setanno', 'anno.copyanno',
              'anno.delanno', 'isinstance', 'type', 'len', 'str')


def _mentions(e, names, skip_anno=True):
  """Does evaluating e yield (part of) one of the named values?"""
  if isinstance(e, ast.Call) and skip_anno and (core.dotted(e.func) or '') in ANNO_FUNCS:
    return False
  if isinstance(e, ast.Name):
    return e.id in names
  return any(_mentions(c, names, skip_anno) for c in ast.iter_child_nodes(e))


def _stale_reads(e, p, kind):
  """Sub-expressions of e that capture an unconverted child of the node."""
  out = []

  def rec(x, copying):
    if isinstance(x, ast.Call) and (core.dotted(x.func) or '') in ANNO_FUNCS:
      return
    if isinstance(x, ast.Attribute) and isinstance(x.value, ast.Name) and x.value.id == p:
      try:
        ft = asdl.field(kind, x.attr)
      except Exception:
        ft = None
      if ft is None:
        return
      t, q = ft[1], ft[2]
      if not asdl.can_derive(t, {'Name', 'Call', 'Constant'}):
        return          # operator tokens, identifiers ...
      if q in ('', '?') or copying:
        out.append(core.norm(x))
      return
    if isinstance(x, ast.Call):
      d = core.dotted(x.func) or ''
      cp = copying or d in ('list', 'tuple', 'zip', 'reversed', 'sorted', 'enumerate')
      for a in x.args:
        rec(a, cp)
      for k in x.keywords:
        rec(k.value, cp)
      if isinstance(x.func, ast.Attribute):
        rec(x.func.value, copying or x.func.attr == 'copy')
      return
    if isinstance(x, ast.Subscript):
      rec(x.value, copying or isinstance(x.slice, ast.Slice) or True)
      return
    if isinstance(x, (ast.ListComp, ast.GeneratorExp, ast.SetComp)):
      for g in x.generators:
        rec(g.iter, True)
      return
    for c in ast.iter_child_nodes(x):
      rec(c, copying)
  rec(e, False)
  return out


def check(model, rep, rule, rels, sites):
  site_calls = {id(s.call): s for s in sites}
  memo = {}
  n = 0
  for rel in rels:
    mod = model.module(rel)
    for cls in mod.classes.values():
      if not cls.is_ast_transformer():
        continue
      for hname, fi in sorted(cls.methods.items()):
        if not hname.startswith('visit_') or hname[6:] not in asdl.FIELDS:
          continue
        kind = hname[6:]
        ps = fi.params()
        if not ps:
          continue
        p = ps[0]
        g = pycfg.CFG(fi.node)
        visits = [i for i in range(len(g.nodes)) if any(
            core.dotted(c.func) == 'self.generic_visit' and c.args and
            isinstance(c.args[0], ast.Name) and c.args[0].id == p
            for c in pycfg.calls_at(g, i))]
        if not visits:
          continue
        n += 1
        after = set()
        for v in visits:
          after |= g.reachable(v) - {v}
        tainted = {}      # name -> what it captured
        order = sorted(range(len(g.nodes)))
        for _ in range(3):
          for i in order:
            k, a = g.nodes[i]
            if not isinstance(a, ast.Assign):
              continue
            names = [x.id for t in a.targets for x in ast.walk(t) if isinstance(x, ast.Name)]
            before = any(v in g.reachable(i) and i not in g.reachable(v) for v in visits)
            cap = _stale_reads(a.value, p, kind) if before else []
            if cap:
              for nm in names:
                tainted.setdefault(nm, cap[0])
            elif _mentions(a.value, set(tainted)) and not (
                isinstance(a.value, ast.Call) and (core.dotted(a.value.func) or '') in (
                    'self.generic_visit', 'self.visit')):
              src = [tainted[x.id] for x in ast.walk(a.value)
                     if isinstance(x, ast.Name) and x.id in tainted]
              for nm in names:
                if nm != p:
                  tainted.setdefault(nm, src[0])
        bad = []
        for i in sorted(after):
          k, a = g.nodes[i]
          if a is None:
            continue
          for c in pycfg.calls_at(g, i):
            for lbl, val in rules_dup._consumed(model, fi, c, site_calls, memo):
              if _mentions(val, set(tainted)):
                nm = [x.id for x in ast.walk(val) if isinstance(x, ast.Name) and x.id in tainted][0]
                bad.append((tainted[nm], core.norm(c)[:60]))
        site = '%s:no-stale-child' % fi.site
        if not bad:
          rep.hold(rule, site, {'captured_before_visit': sorted(set(tainted.values()))})
        else:
          what, where = bad[0]
          rep.violation(rule, site,
                        'the handler embeds %s as it was before generic_visit '
                        'rewrote the node: that subtree is put into the generated '
                        'code unconverted' % what, {'embedded_by': where},
                        line=fi.node.lineno,
                        witness='make(k)(x): the inner call stays a native call')
  return n
