"""SHARED-MUT: module-level mutable objects of the converter are never mutated
through an alias.

A module-level `{}` / `[]` / `ast.X(...)` is one object for the whole process.
If a function obtains it (directly, as the default of a lookup such as
anno.getanno(node, key, DEFAULT), or as the return value of a helper that may
return it) and then mutates it in place, every later conversion sees the
mutation: per-node annotations and per-loop option nodes become shared.
"""
import ast

from sa import core

MUTATORS = {'append', 'extend', 'insert', 'update', 'add', 'pop', 'remove',
            'clear', 'setdefault', 'sort', 'discard', 'popitem', 'reverse'}
IMMUTABLE_CTORS = {'frozenset', 'tuple', 'str', 'int', 'float', 'bool', 'bytes',
                   'object', 're.compile', 'collections.namedtuple',
                   'namedtuple', 'threading.Lock', 'threading.RLock',
                   'threading.local', 'enum.Enum', 'weakref.WeakKeyDictionary'}


def module_mutables(mod):
  """{name: kind} for top-level NAME = <mutable display | constructor call>."""
  out = {}
  for s in mod.tree.body:
    tg = None
    if isinstance(s, ast.Assign) and len(s.targets) == 1 and isinstance(
        s.targets[0], ast.Name):
      tg, v = s.targets[0].id, s.value
    elif isinstance(s, ast.AnnAssign) and isinstance(s.target, ast.Name) and s.value:
      tg, v = s.target.id, s.value
    if tg is None:
      continue
    if isinstance(v, (ast.Dict, ast.List, ast.Set, ast.ListComp, ast.DictComp,
                      ast.SetComp)):
      out[tg] = type(v).__name__
    elif isinstance(v, ast.Call):
      d = core.dotted(v.func) or ''
      if d.startswith('ast.') or d in ('dict', 'list', 'set', 'collections.OrderedDict',
                                       'collections.defaultdict', 'bytearray'):
        out[tg] = d
  return out


def _root(e):
  while isinstance(e, (ast.Attribute, ast.Subscript)):
    e = e.value
  return e.id if isinstance(e, ast.Name) else None


def _may_be(e, names, aliases, returners):
  """does evaluating e possibly yield one of the shared objects? -> name|None"""
  if isinstance(e, ast.Name):
    if e.id in names:
      return e.id
    return aliases.get(e.id)
  if isinstance(e, ast.IfExp):
    return _may_be(e.body, names, aliases, returners) or _may_be(
        e.orelse, names, aliases, returners)
  if isinstance(e, ast.BoolOp):
    for v in e.values:
      r = _may_be(v, names, aliases, returners)
      if r:
        return r
    return None
  if isinstance(e, ast.Call):
    d = core.dotted(e.func) or ''
    last = d.split('.')[-1]
    # lookups with a default: the default comes back when the key is missing
    if last in ('getanno', 'get', 'getattr', 'pop', 'setdefault') and e.args:
      r = _may_be(e.args[-1], names, aliases, returners)
      if r:
        return r
      for k in e.keywords:
        if k.arg == 'default':
          r = _may_be(k.value, names, aliases, returners)
          if r:
            return r
    if last in returners:
      return returners[last]
  return None


def check(model, rep, rule, rels):
  n = 0
  for rel in rels:
    mod = model.module(rel)
    names = module_mutables(mod)
    if not names:
      continue
    rep.touch(rel)
    funcs = list(mod.all_functions())
    # helpers that may return a shared object
    returners = {}
    changed = True
    while changed:
      changed = False
      for fi in funcs:
        if fi.name in returners:
          continue
        aliases = _aliases(fi, names, returners)
        for r in core.walk_no_nested(fi.node):
          if isinstance(r, ast.Return) and r.value is not None:
            hit = _may_be(r.value, names, aliases, returners)
            if hit:
              returners[fi.name] = hit
              changed = True
              break
    for nm in sorted(names):
      bad = []
      for fi in funcs:
        aliases = _aliases(fi, names, returners)
        for x in core.walk_no_nested(fi.node):
          tgt = None
          if isinstance(x, (ast.Assign, ast.AugAssign, ast.Delete)):
            tgs = x.targets if not isinstance(x, ast.AugAssign) else [x.target]
            for t in tgs:
              if isinstance(t, (ast.Subscript, ast.Attribute)):
                tgt = t.value
                r = _root(tgt)
                if r and (r == nm or aliases.get(r) == nm):
                  bad.append((fi, x))
          elif isinstance(x, ast.Call) and isinstance(x.func, ast.Attribute) and \
              x.func.attr in MUTATORS:
            r = _root(x.func.value)
            if r and (r == nm or aliases.get(r) == nm):
              bad.append((fi, x))
      n += 1
      site = '%s:%s' % (rel, nm)
      if not bad:
        rep.hold(rule, site, {'kind': names[nm], 'mutated_through_alias': 0})
      for fi, x in bad[:3]:
        rep.violation(rule, '%s:mutated-in(%s)' % (site, fi.qualname),
                      'the module-level %s object %s is mutated in place (%s): '
                      'it is shared by every node / loop / conversion of the '
                      'process' % (names[nm], nm, core.norm(x)[:80]),
                      {'kind': names[nm]}, line=x.lineno,
                      witness='two loops with set_loop_options in one function; '
                      'a while loop converted after a for loop')
  return n


def _aliases(fi, names, returners):
  aliases = {}
  for _ in range(3):
    for x in core.walk_no_nested(fi.node):
      if isinstance(x, ast.Assign) and len(x.targets) == 1 and isinstance(
          x.targets[0], ast.Name):
        hit = _may_be(x.value, names, aliases, returners)
        if hit:
          aliases[x.targets[0].id] = hit
  return aliases


def selftest():
  """The rule must report both idioms of the positive control fixture."""
  root = core.VERIF / 'fixtures' / 'shared_mut'
  m = core.Model(str(root))

  class _R:
    def __init__(self):
      self.v, self.h = [], []
    def touch(self, *a):
      pass
    def hold(self, rule, site, *a, **k):
      self.h.append(site)
    def violation(self, rule, site, *a, **k):
      self.v.append(site)
  r = _R()
  check(m, r, 'SHARED-MUT', ['malt/converters/shared_fixture.py'])
  want = {'_NO_DIRECTIVES', '_NO_OPTIONS'}
  got = {s.split(':')[1] for s in r.v}
  if got != want or not any(s.endswith(':_TABLE') for s in r.h):
    raise core.AnalysisError('SHARED-MUT positive control: reported %s, expected %s'
                             % (sorted(got), sorted(want)))
