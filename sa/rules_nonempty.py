"""TREE-NONEMPTY: no generated compound statement has an empty statement list.

Python's grammar guarantees that `body` of every compound statement the user
wrote is non-empty; `ast.unparse` of a tree with an empty `body` prints text
that does not compile (`with x:` followed by nothing), so conversion fails in
the loader.  Two ways the converters can produce one:

 (b) a statement handler of a tree transformer returns None / an empty list:
     ast.NodeTransformer then deletes the statement, and a block that consisted
     of such statements only is left empty;
 (a) a handler shortens a user block (`node.body = node.body[1:]`, a filtering
     comprehension) and embeds the rest as the whole body of a generated
     compound statement (a placeholder that is the only statement of a `with` /
     `if` / `def` / loop body in a template) without putting `pass` in when
     nothing is left.

Both are decided structurally, per handler, over the converter passes.
"""
import ast

from sa import core
from sa import formula
from sa import tpl

CONV = 'malt/converters/'
STMT_KINDS = {n for n in dir(ast) if isinstance(getattr(ast, n), type) and
              issubclass(getattr(ast, n), ast.stmt) and n != 'stmt'}


def _is_empty_value(v):
  if v is None:
    return True
  if isinstance(v, ast.Constant) and v.value is None:
    return True
  if isinstance(v, (ast.List, ast.Tuple)) and not v.elts:
    return True
  return False


def _nonempty_literal(e):
  """an expression that certainly is a non-empty list"""
  if isinstance(e, (ast.List, ast.Tuple)) and e.elts and not any(
      isinstance(x, ast.Starred) for x in e.elts):
    return True
  if isinstance(e, ast.BoolOp) and isinstance(e.op, ast.Or):
    return _nonempty_literal(e.values[-1])
  if isinstance(e, ast.Call) and core.dotted(e.func) in (
      'templates.replace',):
    return True
  return False


def _shortens(e, chain):
  """`e` is a part of the block `chain` (text) chosen by a slice or a filter"""
  if isinstance(e, ast.Subscript) and isinstance(e.slice, ast.Slice) and \
      core.norm(e.value) == chain:
    return True
  if isinstance(e, (ast.ListComp, ast.GeneratorExp)) and len(e.generators) == 1 and \
      core.norm(e.generators[0].iter) == chain and e.generators[0].ifs:
    return True
  if isinstance(e, ast.Call) and core.dotted(e.func) in ('list', 'tuple') and e.args:
    return _shortens(e.args[0], chain)
  if isinstance(e, ast.Call) and core.dotted(e.func) == 'filter' and len(e.args) == 2 \
      and core.norm(e.args[1]) == chain:
    return True
  return False


def check(model, rep, rule, rels=None):
  # ------------------------------------------------------------------ (b)
  n_h = 0
  for m in model.modules.values():
    if not m.rel.startswith(CONV) and m.rel != 'malt/pyct/common_transformers/anf.py':
      continue
    if rels is not None and m.rel not in rels:
      continue
    for cls in m.classes.values():
      if not cls.is_ast_transformer():
        continue
      rep.touch(m.rel)
      for name, h in sorted(cls.methods.items()):
        if not name.startswith('visit_') or name[6:] not in STMT_KINDS:
          continue
        n_h += 1
        cases = formula.return_cases(h.node, lambda e: None)
        deleting = [core.norm(v) if v is not None else 'return'
                    for f, v in cases if _is_empty_value(v) and formula.satisfiable(f)]
        falls = formula.satisfiable(formula.completes(h.node.body, lambda e: None))
        # a body that ends in a loop / with / try is not decided by completes()
        last = h.node.body[-1]
        if isinstance(last, (ast.Return, ast.Raise)) or (
            isinstance(last, ast.If) and not falls):
          falls = False
        elif isinstance(last, (ast.With, ast.Try)):
          inner = last.body
          falls = not (inner and isinstance(inner[-1], (ast.Return, ast.Raise)))
        rep.check(not deleting and not falls, rule,
                  '%s:%s:returns-a-statement' % (cls.site, name),
                  'a statement handler that returns None (or falls off its end, or '
                  'returns an empty list) deletes the statement: a block made of '
                  'such statements only is left empty and the generated module '
                  'does not compile',
                  {'deleting_returns': deleting, 'falls_off_the_end': falls},
                  line=h.node.lineno,
                  witness='an if / while / function whose body consists only of '
                  'statements this handler removes')
  rep.unit('statement handlers of tree transformers', n_h)

  # ------------------------------------------------------------------ (a)
  n_s = 0
  for s in tpl.find_sites(model):
    if not s.fi.module.rel.startswith(CONV):
      continue
    if rels is not None and s.fi.module.rel not in rels:
      continue
    params = s.fi.params()
    if not params:
      continue
    for t in s.templates:
      for n in ast.walk(t.tree):
        if isinstance(n, ast.Module):
          continue
        for f in ('body', 'orelse', 'finalbody'):
          b = getattr(n, f, None)
          if not (isinstance(b, list) and b and all(isinstance(x, ast.stmt) for x in b)):
            continue
          phs = [x.value.id for x in b if isinstance(x, ast.Expr) and isinstance(
              x.value, ast.Name) and x.value.id in s.kwargs]
          if not phs or len(phs) != len(b):
            continue          # some literal statement keeps the list non-empty
          n_s += 1
          # every placeholder of this list: a shortened user block?
          short = []
          safe = False
          for ph in phs:
            v = s.kwargs[ph]
            vx = tpl.expand(s.fi, v, s.call)
            if _nonempty_literal(vx):
              safe = True
              continue
            if isinstance(v, ast.Attribute) and isinstance(v.value, ast.Name) and \
                v.value.id == params[0]:
              chain = core.norm(v)
              # assignments to this attribute in the handler, in program order
              state = None     # None: untouched / 'short' / 'ok'
              for st in core.preorder(s.fi.node):
                if any(x is s.call for x in ast.walk(st)) and isinstance(st, ast.stmt) \
                    and not isinstance(st, (ast.FunctionDef, ast.With, ast.If, ast.For,
                                            ast.While, ast.Try)):
                  break
                if isinstance(st, ast.Assign) and any(
                    core.norm(tg) == chain for tg in st.targets):
                  if _shortens(st.value, chain):
                    state = 'short'
                  elif _nonempty_literal(st.value):
                    state = 'ok'
                if isinstance(st, ast.If) and core.norm(st.test) == 'not ' + chain and any(
                    isinstance(a, ast.Assign) and any(core.norm(tg) == chain
                                                      for tg in a.targets)
                    and _nonempty_literal(a.value) for a in st.body):
                  state = 'ok'
              if state == 'short':
                short.append('%s=%s' % (ph, chain))
          rep.check(safe or not short, rule,
                    '%s:%s.%s(%s)' % (s.fi.site, type(n).__name__, f, ','.join(phs)),
                    'a user block that the handler has shortened is embedded as the '
                    'whole %s of a generated `%s` statement without a `pass` for '
                    'the case that nothing is left' % (f, type(n).__name__.lower()),
                    {'shortened': short}, line=s.call.lineno,
                    witness='a function whose body is only a docstring')
  rep.unit('generated statement lists made of placeholders only', n_s)

  # ------------------------------------------------------------------ (c)
  # visit_block hands the *result* of visiting a statement to its after_visit
  # callback: a node, or a list of nodes when the handler expanded the
  # statement.  A callback that puts that value into a list as one element
  # (append / list display) builds a nested list, which is not a statement list.
  seen = set()
  n_cb = 0
  for m in model.modules.values():
    if not m.rel.startswith(CONV):
      continue
    if rels is not None and m.rel not in rels:
      continue
    for cls in m.classes.values():
      for meth in cls.methods.values():
        for c in ast.walk(meth.node):
          if not (isinstance(c, ast.Call) and isinstance(c.func, ast.Attribute) and
                  c.func.attr == 'visit_block'):
            continue
          for k in c.keywords:
            if k.arg != 'after_visit' or not (isinstance(k.value, ast.Attribute) and
                                              core.norm(k.value.value) == 'self'):
              continue
            cb = cls.find(k.value.attr)
            if cb is None or cb.site in seen:
              continue
            seen.add(cb.site)
            n_cb += 1
            ps = cb.params()
            if not ps:
              continue
            P = ps[0]
            nested = []
            for x in core.walk_no_nested(cb.node):
              hit = None
              if isinstance(x, ast.Call) and isinstance(x.func, ast.Attribute) and \
                  x.func.attr in ('append', 'insert') and x.args and isinstance(
                      x.args[-1], ast.Name) and x.args[-1].id == P:
                hit = x
              elif isinstance(x, ast.List) and any(
                  isinstance(e, ast.Name) and e.id == P for e in x.elts):
                hit = x
              if hit is None:
                continue
              conds = formula.path_condition(cb.node, hit)
              guarded = any(pol != 'C' and ('isinstance(%s,' % P) in core.norm(t)
                            for pol, t in conds)
              if not guarded:
                nested.append(core.norm(hit)[:60])
            rep.check(not nested, rule, '%s:flat-result' % cb.site,
                      'the value visit_block passes to its after_visit callback '
                      'may be a list of statements (the handler expanded the '
                      'statement); adding it to a list as one element makes a '
                      'nested list, and the pass fails on it',
                      {'nested_in': nested}, line=cb.node.lineno,
                      witness='out.append(xs.pop()) under Feature.LISTS: the append '
                      'expands to an assignment, the pop adds a statement in front')
  rep.unit('after_visit callbacks', n_cb)
