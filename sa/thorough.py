"""Thorough tier: the quick rules, plus two things that test the *verdict*.

 TWIN     the same rules are evaluated on two behaviour-preserving twins of the
          current tree (sa/twins.py: re-printed; locals renamed; plain methods
          of every class in reverse order).  A violation
          that appears only on a twin is reported: the rules are phrased over
          resolved structure, so a violation that a rename or a re-print brings
          to light is a violation of the tree under test that its spelling hid.
 CONTROL  every confirmed seeded change of this property (seeded/<id>*/
          patch.diff) that still applies to the current tree is applied to a
          scratch copy, and the check must report a violation the unmodified
          tree does not have.  A control that is missed means the verdict
          "holds" cannot be trusted: ANALYSIS-ERROR (exit 2), never a pass.
 NEUTRAL  every recorded behaviour-preserving refactoring of this property
          (neutral/<id>*/patch.diff, written by independent agents, baseline
          suite passing) that still applies is applied to a scratch copy and must
          add no violation: a checker that alarms on an equivalent program is as
          untrustworthy as one that misses its controls.

Everything is static: the twins and the scratch copies are parsed, never
imported or run.  Scratch directories live under the system temp dir and are
removed before returning.
"""
import concurrent.futures as cf
import importlib
import json
import os
import pathlib
import shutil
import subprocess
import tempfile

from sa import core
from sa import twins


def _violations(prop, root):
  """(rule, site) of every violation that is not a listed known finding, on the
  tree at `root`, evaluated in a fresh interpreter state of this process."""
  mod = importlib.import_module('sa.props.%s' % prop)
  model = core.Model(str(root))
  rep = core.Report(prop, 'quick', model)
  mod.check(model, rep, 'quick')
  out = set()
  for v in rep.violations:
    out.add((v['rule'], v['site'], rep._known_entry(v) is not None))
  return out


def _worker(args):
  kind, prop, repo_pkg, patch = args
  tmp = pathlib.Path(tempfile.mkdtemp(prefix='verif_thorough_'))
  try:
    if kind == 'unparse':
      twins.make_unparse_twin(repo_pkg, tmp)
    elif kind == 'rename':
      twins.make_rename_twin(repo_pkg, tmp)
    elif kind == 'reorder':
      twins.make_reorder_twin(repo_pkg, tmp)
    else:
      shutil.copytree(repo_pkg, tmp / pathlib.Path(repo_pkg).name)
      r = subprocess.run(['patch', '-p1', '-s', '--no-backup-if-mismatch', '-i', patch],
                         cwd=tmp, capture_output=True, text=True)
      if r.returncode != 0:
        return kind, patch, None, 'patch does not apply to the current tree'
    try:
      return kind, patch, sorted(_violations(prop, tmp)), None
    except SyntaxError as e:
      return kind, patch, None, 'twin does not parse: %s' % e
    except core.AnalysisError as e:
      # an anchor the rules need is gone on the modified copy: the check would
      # stop with ANALYSIS-ERROR, which is not a pass
      return kind, patch, [('ANALYSIS-ERROR', str(e)[:120], False)], None
  finally:
    shutil.rmtree(tmp, ignore_errors=True)


def extend(prop, rep):
  """Adds TWIN and CONTROL rule instances to `rep` (before rep.finish)."""
  repo_pkg = str(core.REPO / core.PKG)
  # listed known findings are not alarms (the check prints them and exits 0);
  # a listed finding may legitimately be reported at another site of a scratch
  # copy (its helper inlined into the caller), so only unlisted ones are compared
  base = {(v['rule'], v['site']) for v in rep.violations if rep._known_entry(v) is None}
  seeds = []
  sd = core.VERIF / 'seeded'
  if sd.exists():
    for d in sorted(sd.iterdir()):
      meta = d / 'meta.json'
      if (d / 'patch.diff').exists() and meta.exists():
        try:
          if json.loads(meta.read_text()).get('property') == prop:
            seeds.append(d)
        except ValueError:
          pass
  neutrals = []
  nd = core.VERIF / 'neutral'
  if nd.exists():
    for d in sorted(nd.iterdir()):
      meta = d / 'meta.json'
      if (d / 'patch.diff').exists() and meta.exists():
        try:
          md = json.loads(meta.read_text())
          # a refactoring on which a check is known to alarm (documented false
          # alarm of the machinery, DESIGN.md 11.2) is not a control
          if md.get('property') == prop and not md.get('known_imprecision'):
            neutrals.append(d)
        except ValueError:
          pass
  jobs = [('unparse', prop, repo_pkg, None), ('rename', prop, repo_pkg, None),
          ('reorder', prop, repo_pkg, None)] + [
      ('control', prop, repo_pkg, str(d / 'patch.diff')) for d in seeds] + [
      ('neutral', prop, repo_pkg, str(d / 'patch.diff')) for d in neutrals]
  rep.rule('TWIN', 'the verdict is the same on behaviour-preserving twins of the '
           'tree (re-printed; locals renamed; methods reordered)', floor=0)
  rep.rule('CONTROL', 'every applicable confirmed seeded change of this property '
           'is reported on a scratch copy', floor=0)
  rep.rule('NEUTRAL', 'every applicable behaviour-preserving refactoring recorded '
           'for this property leaves the verdict unchanged', floor=0)
  workers = min(16, max(1, len(jobs)), os.cpu_count() or 1)
  with cf.ProcessPoolExecutor(max_workers=workers) as ex:
    results = list(ex.map(_worker, jobs))
  missed = []
  false_alarms = []
  applied = 0
  for kind, patch, vio, err in results:
    if kind in ('unparse', 'rename', 'reorder'):
      if vio is None:
        rep.note('twin(%s) not evaluated: %s' % (kind, err))
        continue
      tv = {(r, s) for r, s, known in vio if not known}
      extra = sorted(tv - base)
      gone = sorted(base - tv)
      if not extra:
        rep.hold('TWIN', 'twin(%s):same-violations' % kind,
                 {'violations_on_twin': len(tv), 'violations_on_tree': len(base),
                  'only_on_tree': [list(x) for x in gone][:5]})
      for r, s in extra:
        rep.violation('TWIN', 'twin(%s):%s:%s' % (kind, r, s),
                      'rule %s is violated at %s on the %s twin of the tree but '
                      'not on the tree as spelled: the twin has the same '
                      'behaviour, so the tree violates the rule as well' %
                      (r, s, kind))
    elif kind == 'neutral':
      name = pathlib.Path(patch).parent.name
      if vio is None:
        rep.note('neutral %s skipped: %s' % (name, err))
        continue
      extra = sorted({(r, s) for r, s, known in vio if not known} - base)
      if not extra:
        rep.hold('NEUTRAL', 'neutral/%s:silent' % name, {})
      else:
        false_alarms.append(name)
        rep.note('NEUTRAL ALARM: neutral/%s keeps behaviour but adds %s' % (
            name, ['%s %s' % x for x in extra][:3]))
    else:
      name = pathlib.Path(patch).parent.name
      if vio is None:
        rep.note('control %s skipped: %s' % (name, err))
        continue
      applied += 1
      new = sorted({(r, s) for r, s, known in vio if not known} - base)
      if new:
        rep.hold('CONTROL', 'seeded/%s:reported' % name,
                 {'rules_fired': sorted({r for r, s in new})[:6]})
      else:
        missed.append(name)
        rep.note('CONTROL MISSED: seeded/%s applies to the current tree and no '
                 'new violation is reported' % name)
  rep.unit('twins evaluated', sum(1 for k, p, v, e in results
                                  if k in ('unparse', 'rename', 'reorder') and v is not None))
  rep.unit('controls applied', applied)
  rep.unit('controls skipped (patch does not apply)',
           sum(1 for k, p, v, e in results if k == 'control' and v is None))
  rep.unit('neutral refactorings applied',
           sum(1 for k, p, v, e in results if k == 'neutral' and v is not None))
  return missed + ['neutral/' + n for n in false_alarms]
