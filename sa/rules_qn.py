"""Rules about qualified names (malt/pyct/qual_names.py) that several
properties rely on.

 support   QN.support_set is the structural fold
             simple    -> {self}
             a.b       -> support(a)
             a[i]      -> support(a) | support(i)
           (control_flow admits a composite into a statement's state only if
           its whole support is live, and reserves the support of every state
           variable against generated helper names)
 literal   Literal(...) only ever wraps the value of a parser-produced
           ast.Constant (QN.ast() renders it back as ast.Constant)
"""
import ast

from sa import core
from sa import pycfg

QNREL = 'malt/pyct/qual_names.py'


def _comp(e):
  """which component of a composite QN an expression denotes"""
  t = core.norm(e)
  if t in ('self.parent', 'self._parent', 'self.qn[0]'):
    return 'parent'
  if t == 'self.qn[1]':
    return 'index'
  if t == 'self':
    return 'self'
  return None


def _atoms(e, env):
  """abstract value of a set-valued expression: frozenset of atoms"""
  if isinstance(e, ast.Call) and core.dotted(e.func) == 'set' and not e.args:
    return frozenset()
  if isinstance(e, ast.Set):
    out = set()
    for x in e.elts:
      c = _comp(x)
      out.add(('elem', c) if c else ('raw', core.norm(x)))
    return frozenset(out)
  if isinstance(e, ast.Attribute) and e.attr == 'support_set':
    c = _comp(e.value)
    return frozenset([('rec', c)]) if c else frozenset([('raw', core.norm(e))])
  if isinstance(e, ast.BinOp) and isinstance(e.op, ast.BitOr):
    return _atoms(e.left, env) | _atoms(e.right, env)
  if isinstance(e, ast.Call) and isinstance(e.func, ast.Attribute) and \
      e.func.attr == 'union' and not e.keywords and not any(
          isinstance(a, ast.Starred) for a in e.args):
    out = _atoms(e.func.value, env)
    for a in e.args:
      out = out | _atoms(a, env)
    return out
  if isinstance(e, ast.Call) and core.dotted(e.func) in ('set', 'frozenset') and \
      len(e.args) == 1 and not e.keywords:
    return _atoms(e.args[0], env)          # a copy has the same elements
  if isinstance(e, ast.Name) and e.id in env:
    return env[e.id]
  return frozenset([('raw', core.norm(e))])


def support(model, rep, rule):
  cls = model.cls(QNREL, 'QN')
  fi = cls.methods.get('support_set')
  if fi is None:
    raise core.AnalysisError('QN.support_set not found')
  rep.touch(QNREL)
  g = pycfg.CFG(fi.node)
  want = {
      'simple': frozenset([('elem', 'self')]),
      'attribute': frozenset([('rec', 'parent')]),
      'subscript': frozenset([('rec', 'parent'), ('rec', 'index')]),
  }
  from sa import formula

  def flag_formula(e, flags):
    def atom_of(x):
      t = core.norm(x)
      if t in ('self.has_attr()', 'self._has_attr'):
        return 'ATTR'
      if t in ('self.has_subscript()', 'self._has_subscript'):
        return 'SUB'
      if isinstance(x, ast.Name) and x.id in flags:
        return flags[x.id]
      return None
    return formula.bool_formula(e, atom_of)

  paths = list(g.paths(limit=500, ends={g.exit}))
  # evaluated for the three kinds of name (a name is never both an attribute
  # and a subscript)
  for case, row in (('simple', {'ATTR': False, 'SUB': False}),
                    ('attribute', {'ATTR': True, 'SUB': False}),
                    ('subscript', {'ATTR': False, 'SUB': True})):
    results = []
    undecided = []
    for p in paths:
      env = {}
      flags = {}
      ret = None
      feasible = True
      for idx, (i, lab) in enumerate(p):
        k, a = g.nodes[i]
        if a is None:
          continue
        if k == 'test' and idx + 1 < len(p):
          nxt = p[idx + 1][1]
          if nxt not in ('T', 'F'):
            continue
          f = flag_formula(a, flags)
          if not f.atoms <= {'ATTR', 'SUB'}:
            undecided.append(core.norm(a))
            feasible = False
            break
          if f.fn(row) != (nxt == 'T'):
            feasible = False
            break
        elif k == 'stmt':
          if isinstance(a, ast.Assign) and len(a.targets) == 1 and isinstance(
              a.targets[0], ast.Name):
            ff_ = flag_formula(a.value, flags)
            if ff_.atoms and ff_.atoms <= {'ATTR', 'SUB'}:
              flags[a.targets[0].id] = ff_
              continue
            env[a.targets[0].id] = _atoms(a.value, env)
          elif isinstance(a, ast.AugAssign) and isinstance(a.target, ast.Name) and \
              isinstance(a.op, ast.BitOr):
            env[a.target.id] = env.get(a.target.id, frozenset()) | _atoms(a.value, env)
          elif isinstance(a, ast.Expr) and isinstance(a.value, ast.Call) and \
              isinstance(a.value.func, ast.Attribute) and isinstance(
                  a.value.func.value, ast.Name) and a.value.func.value.id in env \
              and len(a.value.args) == 1:
            nm = a.value.func.value.id
            arg = a.value.args[0]
            if a.value.func.attr == 'update':
              env[nm] = env[nm] | _atoms(arg, env)
            elif a.value.func.attr == 'add':
              c = _comp(arg)
              env[nm] = env[nm] | frozenset([('elem', c) if c else ('raw', core.norm(arg))])
            else:
              env[nm] = env[nm] | frozenset([('raw', core.norm(a))])
        elif k == 'return' and a.value is not None:
          ret = _atoms(a.value, env)
      if feasible:
        results.append(ret)
    ok = bool(results) and not undecided and all(r == want[case] for r in results)
    rep.check(ok, rule, '%s:support(%s)' % (fi.site, case),
              'the support of a %s name must be %s: a composite whose index (or '
              'base) is itself composite otherwise reports too small a support, '
              'is admitted into loop/conditional state although a part of it is '
              'not live, and its base is not reserved against helper names' %
              (case, sorted(want.get(case, []))),
              {'computed': sorted({str(sorted(map(str, r or []))) for r in results}),
               'undecided_tests': undecided[:3]}, line=fi.node.lineno,
              witness='table[r.slot] = v inside a loop over r; d[vars_.key] = v')


def literal(model, rep, rule):
  """Every Literal(x) construction takes x straight from an ast.Constant."""
  m = model.module(QNREL)
  n = 0
  for fi in m.all_functions():
    for c in core.walk_no_nested(fi.node):
      if isinstance(c, ast.Call) and core.dotted(c.func) == 'Literal' and len(c.args) == 1:
        n += 1
        a = c.args[0]
        ok = isinstance(a, ast.Attribute) and a.attr == 'value' and isinstance(
            a.value, ast.Name)
        if ok:
          # the base must be tested to be an ast.Constant on the way
          nm = a.value.id
          ok = any(isinstance(t, ast.Call) and core.dotted(t.func) == 'isinstance'
                   and len(t.args) == 2 and isinstance(t.args[0], ast.Name) and
                   t.args[0].id == nm and 'ast.Constant' in core.norm(t.args[1])
                   for t in ast.walk(fi.node))
        rep.check(ok, rule, '%s:Literal#%d' % (fi.site, n),
                  'a Literal must hold exactly the value of a parsed ast.Constant: '
                  'QN.ast() renders it as ast.Constant(value), and a value no '
                  'parser produces (a negative number) does not survive '
                  'unparse / parse', line=c.lineno,
                  witness='x[-1] = v inside an if: Constant(-1) re-parses as '
                  'UnaryOp(USub, Constant(1))')
  # ... and QN.ast() hands the value back as that constant, structurally: a
  # round trip through the display string (str(self), which does not escape
  # string keys) changes d['C:\\temp'] into another key
  qa = model.cls(QNREL, 'QN').methods.get('ast')
  if qa is None:
    raise core.AnalysisError('QN.ast not found')
  consts = [c for c in ast.walk(qa.node) if isinstance(c, ast.Call) and
            core.dotted(c.func) == 'ast.Constant' and c.args and
            core.norm(c.args[0]).endswith('.value')]
  via_text = [core.norm(c)[:60] for c in ast.walk(qa.node) if isinstance(c, ast.Call) and (
      (core.dotted(c.func) or '').endswith('parse_expression') or
      core.dotted(c.func) in ('str', 'repr', 'ast.parse', 'eval'))]
  rep.check(bool(consts) and not via_text, rule, '%s:structural' % qa.site,
            'QN.ast must rebuild the name from its parts (a Literal as '
            'ast.Constant(value)), never by parsing its display string',
            {'through_text': via_text}, line=qa.node.lineno,
            witness="d['C:\\temp'] modified in an if: the getter reads d['C:<TAB>emp']")
  return n


def fresh(model, rep, rule):
  """QnResolver is re-run after every converter pass, on trees whose nodes were
  copied together with their annotations (ast_util copies annotations, renames
  keep them): every handler must *set* the QN annotation from the node as it is
  now, never keep one that is already there."""
  from sa import formula
  cls = model.cls(QNREL, 'QnResolver')
  rep.touch(QNREL)
  for hname in ('visit_Name', 'visit_arg', 'visit_Attribute', 'visit_Subscript'):
    h = cls.methods.get(hname)
    if h is None:
      raise core.AnalysisError('QnResolver.%s not found' % hname)
    p0 = h.params()[0]
    sets = [c for c in ast.walk(h.node) if isinstance(c, ast.Call) and
            core.dotted(c.func) == 'anno.setanno' and len(c.args) >= 2 and
            core.norm(c.args[0]) == p0 and core.norm(c.args[1]) == 'anno.Basic.QN']

    def at(e):
      t = core.norm(e)
      if t.startswith('anno.hasanno(%s, anno.Basic.QN' % p0):
        return 'HAS_OWN'
      return None
    ok = bool(sets)
    conds = []
    for c in sets:
      f = formula.condition_formula(h.node, c, at)
      conds.append(str(f))
      # the node's own (possibly stale) annotation must not decide
      lo = formula.satisfiable(f & formula.atom('HAS_OWN'))
      hi = formula.satisfiable(f & ~formula.atom('HAS_OWN'))
      if 'HAS_OWN' in f.atoms and not (lo and hi and formula.equivalent(
          f & formula.atom('HAS_OWN') | f & ~formula.atom('HAS_OWN'), f)[0] and
                                       _independent(f)):
        ok = False
    if hname in ('visit_Name', 'visit_arg'):
      ok = ok and all(c == 'T' for c in conds)
    rep.check(ok, rule, '%s:sets-qn(%s)' % (cls.site, hname),
              'the qualified name of a node must be recomputed on every run: a '
              'node that still carries the annotation of the node it was copied '
              'from (renamed symbols, template copies) would keep the old name',
              {'conditions': conds}, line=h.node.lineno,
              witness='resolve, ast_util.rename_symbols, resolve again')


def _independent(f):
  from sa import formula
  others = sorted(f.atoms - {'HAS_OWN'})
  for r in formula.rows(others):
    a = dict(r, HAS_OWN=True)
    b = dict(r, HAS_OWN=False)
    if f.fn(a) != f.fn(b):
      return False
  return True
