"""Structural patterns with metavariables, so that rules do not depend on the
names of local variables (a rename of locals is behaviour preserving).

A pattern is Python source.  Identifiers of the form `_X_` (underscore, capitals
/ digits, underscore) are metavariables: they match any expression and must
match the *same* expression (by normalised text) at every occurrence.  `__`
matches anything without binding.  A metavariable in statement position
(`_BODY_` alone on a line) matches any single statement.
"""
import ast
import re

from sa import core

_META = re.compile(r'^_[A-Z][A-Z0-9]*_$')


def is_meta(name):
  return bool(_META.match(name))


_CACHE = {}


def compile_(src):
  p = _CACHE.get(src)
  if p is None:
    mod = ast.parse(src.strip())
    if len(mod.body) == 1 and isinstance(mod.body[0], ast.Expr):
      p = mod.body[0].value
      # a bare metavariable statement stays an Expr statement pattern
      p = ('expr', p)
    elif len(mod.body) == 1:
      p = ('stmt', mod.body[0])
    else:
      p = ('stmts', mod.body)
    _CACHE[src] = p
  return p


def _match(p, n, b):
  if isinstance(p, ast.Name):
    if p.id == '__':
      return True
    if is_meta(p.id):
      if not isinstance(n, ast.AST):
        return False
      t = core.norm(n)
      if p.id in b:
        return b[p.id] == t
      b[p.id] = t
      return True
  if isinstance(p, ast.Expr) and isinstance(p.value, ast.Name) and (
      is_meta(p.value.id) or p.value.id == '__') and isinstance(n, ast.stmt):
    if p.value.id == '__':
      return True
    t = core.norm(n)
    if p.value.id in b:
      return b[p.value.id] == t
    b[p.value.id] = t
    return True
  if type(p) is not type(n):
    return False
  if isinstance(p, ast.AST):
    for f in p._fields:
      if f in ('ctx', 'type_comment', 'kind', 'lineno'):
        continue
      pv, nv = getattr(p, f, None), getattr(n, f, None)
      if isinstance(pv, str) and is_meta(pv):
        # identifier-valued field (attr, arg name, def name)
        if pv in b:
          if b[pv] != nv:
            return False
        else:
          b[pv] = nv
        continue
      if not _match(pv, nv, b):
        return False
    return True
  if isinstance(p, list):
    if len(p) != len(n):
      return False
    return all(_match(x, y, b) for x, y in zip(p, n))
  return p == n


def match(src, node, binds=None):
  """Match one node (expression or statement) against a pattern; returns the
  bindings (dict) or None."""
  kind, p = compile_(src)
  b = dict(binds or {})
  if kind == 'expr':
    target = node.value if isinstance(node, ast.Expr) and not isinstance(
        p, ast.Name) else node
    if isinstance(node, ast.Expr) and isinstance(p, ast.Name) and is_meta(p.id):
      target = node
    if _match(p, target, b):
      return b
    if isinstance(node, ast.Expr) and _match(p, node.value, b):
      return b
    return None
  if kind == 'stmt':
    return b if _match(p, node, b) else None
  return None


def find(root, src, binds=None):
  """All (node, bindings) in `root` (any depth) matching the pattern."""
  kind, p = compile_(src)
  out = []
  for n in ast.walk(root):
    if kind == 'expr' and not isinstance(n, ast.expr):
      continue
    if kind == 'stmt' and not isinstance(n, ast.stmt):
      continue
    b = dict(binds or {})
    if _match(p, n, b):
      out.append((n, b))
  return out


def has(root, src, binds=None):
  return bool(find(root, src, binds))


def first(root, src, binds=None):
  r = find(root, src, binds)
  return r[0] if r else (None, None)


def seq(stmts, srcs, binds=None):
  """Match consecutive-or-not statements in order: returns bindings if the
  patterns match some statements of `stmts` in the given order."""
  b = dict(binds or {})
  i = 0
  for s in stmts:
    if i >= len(srcs):
      break
    b2 = dict(b)
    kind, p = compile_(srcs[i])
    tgt = s
    if kind == 'expr' and isinstance(s, ast.Expr):
      ok = _match(p, s.value, b2)
    elif kind == 'stmt':
      ok = _match(p, s, b2)
    else:
      ok = False
    if ok:
      b = b2
      i += 1
  return b if i == len(srcs) else None
