"""DUP-EVAL: a user expression is embedded in the generated code at most once.

Templates copy their replacements (templates.ReplaceTransformer copies each
replacement with copy_clean), so an expression of the user that reaches two
placeholder positions is *evaluated* twice by the converted function, and it is
not even valid code when one of the positions is an assignment target.  Two
structural forms exist, both decided from the converter source:

 (a) multiplicity   a placeholder that occurs more than once in one template
                    (reads and assignment targets both count) receives a user
                    expression only under a dominating test that it is a plain
                    (possibly dotted) name - re-reading a variable is harmless;
 (b) linear use     inside one handler, a value taken from the user's tree is
                    handed to template-building calls at most once on every
                    path (copies `x = y` share the value; loops are unrolled
                    twice, which is enough to see a loop-carried copy).
"""
import ast

from sa import core
from sa import pycfg
from sa import tpl


# ---------------------------------------------------------------- name guards
def _is_symbol_predicate(fi):
  """True if function `fi` returns True only for Name-rooted attribute chains:
       while isinstance(p, ast.Attribute): p = p.value
       return isinstance(p, ast.Name)
  (or directly `return isinstance(p, ast.Name)`)."""
  if fi is None:
    return False
  ps = [a.arg for a in fi.node.args.args]
  if fi.cls is not None and ps:
    ps = ps[1:]
  if len(ps) != 1:
    return False
  p = ps[0]
  body = [s for s in fi.node.body if not (
      isinstance(s, ast.Expr) and isinstance(s.value, ast.Constant))]
  if not body or not isinstance(body[-1], ast.Return):
    return False
  if core.norm(body[-1].value) != 'isinstance(%s, ast.Name)' % p:
    return False
  for s in body[:-1]:
    ok = isinstance(s, ast.While) and core.norm(s.test) == \
        'isinstance(%s, ast.Attribute)' % p and len(s.body) == 1 and \
        core.norm(s.body[0]) == '%s = %s.value' % (p, p) and not s.orelse
    if not ok:
      return False
  return True


def _guard_of(model, fi, test):
  """[(expr_text, label)] : on edge `label` of this test, expr is a symbol."""
  out = []

  def pos(t):
    r = []
    if isinstance(t, ast.Call) and len(t.args) >= 1:
      d = core.dotted(t.func) or ''
      if d == 'isinstance' and len(t.args) == 2 and core.norm(t.args[1]) == 'ast.Name':
        r.append(t.args[0])
      elif d:
        rr = None
        if d.startswith('self.') and fi.cls is not None:
          rr = fi.cls.methods.get(d[5:]) if d.count('.') == 1 else None
        else:
          q = model.resolve(fi.module, t.func)
          rr = q[1] if q and q[0] == 'func' else None
        if _is_symbol_predicate(rr) and len(t.args) == 1:
          r.append(t.args[0])
    return r

  def walk(t, label):
    # facts that hold on edge `label` of t
    if isinstance(t, ast.UnaryOp) and isinstance(t.op, ast.Not):
      walk(t.operand, 'F' if label == 'T' else 'T')
      return
    if isinstance(t, ast.BoolOp):
      if isinstance(t.op, ast.And) and label == 'T':
        for v in t.values:
          walk(v, 'T')
      elif isinstance(t.op, ast.Or) and label == 'F':
        for v in t.values:
          walk(v, 'F')
      return
    if label == 'T':
      for e in pos(t):
        out.append(e)

  res = []
  for label in ('T', 'F'):
    out = []
    walk(test, label)
    res.extend((e, label) for e in out)
  return res


def _guarded(model, fi, expr, at, depth=0):
  """Is `expr` (evaluated at statement `at` of fi) known to be a plain symbol on
  every path reaching `at`?"""
  if isinstance(expr, ast.Name) and False:
    return True
  g = pycfg.CFG(fi.node)
  target = None
  for i, (k, a) in enumerate(g.nodes):
    if a is None:
      continue
    if any(n is at for e in g.exprs_of(i) for n in ast.walk(e)):
      target = i
      break
  want = tpl.xnorm(fi, expr, at)
  if target is not None:
    for ti, label in g.mandatory_edges(target):
      test = g.nodes[ti][1]
      for e, lab in _guard_of(model, fi, test):
        if lab == label and tpl.xnorm(fi, e, test) == want:
          return True
    # flag variables: `is_symbol = P(x)` then `if ... and is_symbol`
    for ti, label in g.mandatory_edges(target):
      test = g.nodes[ti][1]
      flags = []
      if label == 'T':
        cands = test.values if isinstance(test, ast.BoolOp) and isinstance(
            test.op, ast.And) else [test]
        flags = [c for c in cands if isinstance(c, ast.Name)]
      for fl in flags:
        ds = tpl.rdefs(fi.node).reaching(test, fl.id)
        if len(ds) == 1 and isinstance(ds[0], ast.AST):
          for e, lab in _guard_of(model, fi, ds[0]):
            if lab == 'T' and tpl.xnorm(fi, e, ds[0]) == want:
              return True
  # the value is an element of a converter-state list: guarded where appended
  r = _through_state_list(model, fi, expr, at, depth)
  if r is not None:
    return r
  # guard at every caller (helper methods of one class)
  if depth < 4 and fi.cls is not None:
    params = [a.arg for a in fi.node.args.args][1:]
    callers = []
    for other in fi.cls.methods.values():
      if other is fi:
        continue
      for c in core.walk_no_nested(other.node):
        if isinstance(c, ast.Call) and core.dotted(c.func) == 'self.' + fi.name:
          callers.append((other, c))
    if callers:
      ok = True
      for other, c in callers:
        binds = {}
        for i, a in enumerate(c.args):
          if i < len(params):
            binds[params[i]] = a
        for k in c.keywords:
          if k.arg:
            binds[k.arg] = k.value
        sub = _subst(tpl.expand(fi, expr, at), binds)
        if sub is None or not _guarded(model, other, sub, c, depth + 1):
          ok = False
          break
      if ok:
        return True
  return False


def _root(e):
  while isinstance(e, (ast.Attribute, ast.Subscript)):
    e = e.value
  return e if isinstance(e, ast.Name) else None


def _through_state_list(model, fi, expr, at, depth):
  """`for a, b in <...>.L: ... expr(a)` : the elements of attribute list L are
  produced by `<...>.L.append((x, y))` elsewhere in the class; expr is guarded
  if it is guarded, with a := x, at every such append."""
  if depth >= 4 or fi.cls is None:
    return None
  r = _root(expr)
  if r is None:
    return None
  loop = None
  for n in ast.walk(fi.node):
    if isinstance(n, ast.For) and any(x is at for b in n.body for x in ast.walk(b)) \
        and any(isinstance(x, ast.Name) and x.id == r.id for x in ast.walk(n.target)):
      loop = n
  if loop is None:
    return None
  it = tpl.expand(fi, loop.iter, loop.iter)
  if not isinstance(it, ast.Attribute):
    return None
  attr = it.attr
  appends = []
  for other in fi.cls.methods.values():
    for c in core.walk_no_nested(other.node):
      if isinstance(c, ast.Call) and isinstance(c.func, ast.Attribute) and \
          c.func.attr == 'append' and isinstance(c.func.value, ast.Attribute) and \
          c.func.value.attr == attr and len(c.args) == 1:
        appends.append((other, c))
  if not appends:
    return None
  for other, c in appends:
    el = c.args[0]
    binds = {}
    if isinstance(loop.target, ast.Name):
      binds[loop.target.id] = el
    elif isinstance(loop.target, ast.Tuple) and isinstance(el, ast.Tuple) and \
        len(el.elts) == len(loop.target.elts):
      for t, v in zip(loop.target.elts, el.elts):
        if isinstance(t, ast.Name):
          binds[t.id] = v
    sub = _subst(expr, binds)
    if sub is None or not _guarded(model, other, sub, c, depth + 1):
      return False
  return True


class _S(ast.NodeTransformer):

  def __init__(self, binds):
    self.binds = binds
    self.free = False

  def visit_Name(self, n):
    if n.id in self.binds:
      return self.binds[n.id]
    if n.id not in ('ast', 'anno', 'self'):
      self.free = True
    return n


def _subst(expr, binds):
  import copy
  s = _S(binds)
  r = s.visit(copy.deepcopy(expr))
  return None if s.free else r


# ---------------------------------------------------------------- (a)
def multiplicity(model, rep, sites, rule='DUP-EVAL'):
  n = 0
  for s in sites:
    per_kw = {}
    for t in s.templates:
      for name, val in s.kwargs.items():
        k = len(t.loads.get(name, [])) + len(t.stores.get(name, []))
        per_kw[name] = max(per_kw.get(name, 0), k)
    for name, k in sorted(per_kw.items()):
      if k < 2:
        continue
      val = s.kwargs[name]
      o = tpl.origin(model, s.fi, val, s.call)
      if 'user' not in o and 'unknown' not in o:
        # a fresh symbol, a literal or a generated declaration list
        continue
      if isinstance(val, ast.Attribute) and core.norm(val).startswith('self.state['):
        continue    # converter state holding a generated symbol name
      n += 1
      ok = _guarded(model, s.fi, val, s.call)
      rep.check(ok, rule, '%s:placeholder(%s)-used-%dx' % (s.fi.site, name, k),
                'a placeholder that occurs more than once in a template may '
                'only receive a plain (dotted) name of the user: any other '
                'expression would be evaluated twice (or become an invalid '
                'assignment target)',
                {'replacement': core.norm(val), 'origin': sorted(o),
                 'occurrences': k}, line=s.call.lineno,
                witness='f().append(x) / a[g()][0] = v under Feature.LISTS')
  return n


# ---------------------------------------------------------------- (b)
def _embedded_params(model, fi, site_calls, memo):
  k = fi.site
  if k in memo:
    return memo[k]
  memo[k] = set()
  params = {a.arg for a in fi.node.args.posonlyargs + fi.node.args.args +
            fi.node.args.kwonlyargs}
  res = set()
  for c in core.walk_no_nested(fi.node):
    if isinstance(c, ast.Call):
      for _, val in _consumed(model, fi, c, site_calls, memo):
        if isinstance(val, ast.Name) and val.id in params:
          res.add(val.id)
  memo[k] = res
  return res


def _consumed(model, fi, c, site_calls, memo):
  out = []
  if id(c) in site_calls:
    return [(k.arg, k.value) for k in c.keywords if k.arg]
  d = core.dotted(c.func) or ''
  if d.startswith('self.') and d.count('.') == 1 and fi.cls is not None:
    callee = fi.cls.methods.get(d[5:])
    if callee is not None and callee is not fi:
      emb = _embedded_params(model, callee, site_calls, memo)
      ps = [a.arg for a in callee.node.args.args][1:]
      for i, a in enumerate(c.args):
        if i < len(ps) and ps[i] in emb:
          out.append((ps[i], a))
      for k in c.keywords:
        if k.arg in emb:
          out.append((k.arg, k.value))
  return out


def linear_use(model, rep, sites, funcs, rule='DUP-EVAL'):
  site_calls = {id(s.call): s for s in sites}
  memo = {}
  n = 0
  for fi in funcs:
    if not any(isinstance(c, ast.Call) and _consumed(model, fi, c, site_calls, memo)
               for c in core.walk_no_nested(fi.node)):
      continue
    n += 1
    g = pycfg.CFG(fi.node)
    found = {}
    for p in g.paths(limit=4000, max_visits=3):
      env, cnt, tok = {}, {}, 0
      for i, _ in p:
        k, a = g.nodes[i]
        if a is None:
          continue
        for c in pycfg.calls_at(g, i):
          for _, val in _consumed(model, fi, c, site_calls, memo):
            if isinstance(val, ast.Name) and val.id in env:
              cnt.setdefault(env[val.id], []).append(c)
        if k == 'stmt' and isinstance(a, ast.Assign):
          for tg in a.targets:
            if isinstance(tg, ast.Name) and isinstance(a.value, ast.Name):
              if a.value.id in env:
                env[tg.id] = env[a.value.id]
              else:
                env.pop(tg.id, None)
              continue
            names = [x for x in ast.walk(tg) if isinstance(x, ast.Name)]
            o = tpl.origin(model, fi, a.value, a)
            tracked = ('user' in o or 'unknown' in o) and not (
                isinstance(a.value, ast.Constant))
            for xi, x in enumerate(names):
              if tracked:
                tok += 1
                env[x.id] = ('%s#%d' % (tpl.xnorm(fi, a.value, a), xi), a, tok)
              else:
                env.pop(x.id, None)
      for t, uses in cnt.items():
        if len(uses) > 1:
          found.setdefault((t[0], t[0]), set()).update(
              core.dotted(u.func) or core.norm(u.func) for u in uses)
    if not found:
      rep.hold(rule, '%s:linear-use' % fi.site, {'paths': 'unrolled twice'})
    for (name, deftxt), uses in sorted(found.items()):
      rep.violation(rule, '%s:embedded-twice(%s)' % (fi.site, name),
                    'a value taken from the user tree reaches two positions of '
                    'the generated code on one path: it is evaluated twice',
                    {'defined_by': deftxt, 'embedded_by': sorted(uses)},
                    line=fi.node.lineno,
                    witness='a < g() < c calls g twice after conversion')
  return n


# ---------------------------------------------------------------- NEW-BINDING
def _params(fi):
  ps = [a.arg for a in fi.node.args.posonlyargs + fi.node.args.args +
        fi.node.args.kwonlyargs]
  return ps[1:] if fi.cls is not None and ps and ps[0] in ('self', 'cls') else ps


def _enclosing_for(fi, name, at):
  best = None
  for n in ast.walk(fi.node):
    if isinstance(n, ast.For) and any(x is at for b in n.body for x in ast.walk(b)) \
        and any(isinstance(x, ast.Name) and x.id == name for x in ast.walk(n.target)):
      best = n
  return best


def _bind_target(target, el):
  binds = {}
  if isinstance(target, ast.Name):
    binds[target.id] = el
  elif isinstance(target, ast.Tuple) and isinstance(el, ast.Tuple) and \
      len(el.elts) == len(target.elts):
    for t, v in zip(target.elts, el.elts):
      if isinstance(t, ast.Name):
        binds[t.id] = v
  return binds


def _same_state(other, tgt, at, e):
  """tgt (an assignment target in `other`) denotes the same converter-state
  attribute as e = self.state[K].attr; `with self.state[K] as x` aliases."""
  want = core.norm(e.value)
  base = tgt.value
  if tpl.xnorm(other, base, at) == want:
    return True
  if isinstance(base, ast.Name):
    for w in ast.walk(other.node):
      if isinstance(w, ast.With):
        for it in w.items:
          if isinstance(it.optional_vars, ast.Name) and it.optional_vars.id == \
              base.id and core.norm(it.context_expr) == want:
            return True
  return False


def sources(model, fi, expr, at, depth=0):
  """Where a replacement value comes from, followed through locals, helper
  parameters (to every caller in the class), converter-state attributes and
  lists filled by `.append`.  Returns a set of leaves:
    ('namer',) | ('user', <text rooted at the handler's node parameter>) |
    ('other', <text>)"""
  if depth > 6:
    return {('other', 'depth')}
  e = tpl.expand(fi, expr, at)
  if isinstance(e, ast.Call):
    d = core.dotted(e.func) or ''
    if d.endswith('.new_symbol'):
      return {('namer',)}
    return {('other', core.norm(e)[:80])}
  txt = core.norm(e)
  r = _root(e)
  if r is None:
    return {('other', txt[:80])}
  # converter state attribute: self.state[K].attr
  if r.id == 'self' and isinstance(e, ast.Attribute) and fi.cls is not None:
    out = set()
    for other in fi.cls.methods.values():
      for a in core.walk_no_nested(other.node):
        if isinstance(a, ast.Assign) and len(a.targets) == 1 and isinstance(
            a.targets[0], ast.Attribute) and a.targets[0].attr == e.attr and \
            _same_state(other, a.targets[0], a, e):
          if isinstance(a.value, ast.Constant) and a.value.value is None:
            continue
          out |= sources(model, other, a.value, a, depth + 1)
    return out or {('other', txt)}
  ps = _params(fi)
  loop = _enclosing_for(fi, r.id, at)
  if loop is not None:
    it = tpl.expand(fi, loop.iter, loop.iter)
    producers = []
    if isinstance(it, ast.Attribute) and _root(it) is not None and \
        _root(it).id == 'self' and fi.cls is not None:
      for other in fi.cls.methods.values():
        for c in core.walk_no_nested(other.node):
          if isinstance(c, ast.Call) and isinstance(c.func, ast.Attribute) and \
              c.func.attr == 'append' and isinstance(c.func.value, ast.Attribute) \
              and c.func.value.attr == it.attr and len(c.args) == 1:
            producers.append((other, c))
    elif isinstance(it, ast.Name) or (isinstance(it, ast.List) and not it.elts):
      lname = loop.iter.id if isinstance(loop.iter, ast.Name) else None
      for c in core.walk_no_nested(fi.node):
        if isinstance(c, ast.Call) and isinstance(c.func, ast.Attribute) and \
            c.func.attr == 'append' and isinstance(c.func.value, ast.Name) and \
            c.func.value.id == lname and len(c.args) == 1:
          producers.append((fi, c))
    elif isinstance(it, ast.Attribute) and _root(it) is not None and \
        _root(it).id in ps:
      # iterating a list field of the user's node: the element itself
      sub = _subst(e, _bind_target(loop.target, ast.Subscript(
          value=it, slice=ast.Name(id='ANY', ctx=ast.Load()), ctx=ast.Load())))
      if sub is not None:
        return sources(model, fi, sub, loop.iter, depth + 1) if False else {
            ('user', core.norm(sub))}
    if producers:
      out = set()
      for other, c in producers:
        sub = _subst(e, _bind_target(loop.target, c.args[0]))
        if sub is None:
          out.add(('other', txt))
        else:
          out |= sources(model, other, sub, c, depth + 1)
      return out
    return {('other', txt)}
  if r.id in ps:
    if fi.name.startswith('visit_') or fi.cls is None:
      return {('user', txt)}
    callers = []
    for other in fi.cls.methods.values():
      if other is fi:
        continue
      for c in core.walk_no_nested(other.node):
        if isinstance(c, ast.Call) and core.dotted(c.func) == 'self.' + fi.name:
          callers.append((other, c))
    if not callers:
      return {('user', txt)}
    out = set()
    allps = [a.arg for a in fi.node.args.args][1:]
    for other, c in callers:
      binds = {}
      for i, a in enumerate(c.args):
        if i < len(allps):
          binds[allps[i]] = a
      for k in c.keywords:
        if k.arg:
          binds[k.arg] = k.value
      sub = _subst(e, binds)
      if sub is None:
        out.add(('other', txt))
      else:
        out |= sources(model, other, sub, c, depth + 1)
    return out
  return {('other', txt)}


_USER_STORE = ('.target', '.targets[ANY]', '.targets[0]')


def _is_user_store(txt):
  """node.target / node.targets[i]: a position the user's statement binds."""
  import re
  return bool(re.match(r'^[A-Za-z_]\w*\.(target|targets\[[^\]]+\])$', txt))


def new_binding(model, rep, sites, exempt, rule='NEW-BINDING'):
  n = 0
  for s in sites:
    done = set()
    for t in s.templates:
      inner = set()
      for f in ast.walk(t.tree):
        if isinstance(f, (ast.FunctionDef, ast.Lambda)):
          for x in ast.walk(f):
            inner.add(id(x))
      for name, nodes in t.stores.items():
        if name not in s.kwargs or name in done:
          continue
        if all(id(x) in inner for x in nodes):
          continue      # bound inside a generated function (C02/C03 cover it)
        done.add(name)
        site = '%s:store(%s)' % (s.fi.site, name)
        if site in exempt:
          rep.hold(rule, site, {'exempt': exempt[site]}, nontrivial=False)
          continue
        src = sources(model, s.fi, s.kwargs[name], s.call)
        bad = sorted(x for x in src if not (
            x[0] == 'namer' or (x[0] == 'user' and _is_user_store(x[1]))))
        n += 1
        rep.check(not bad, rule, site,
                  'a template assigns to a placeholder filled from the user tree '
                  'at a position the user statement itself does not bind: the '
                  'converted function gains a local binding (a global or '
                  'closure variable becomes an unbound local)',
                  {'sources': sorted(map(str, src))}, line=s.call.lineno,
                  witness='G.append(v) / G[0] = v on a module-level list G '
                  'under Feature.LISTS: UnboundLocalError')
  return n


# ---------------------------------------------------------------- SCOPE-MOVE
def _unconditionally_includes(e, scope_anno):
  """e evaluates to a collection that contains <scope_anno scope>.bound whatever
  the other operands are: a union (| / .union) with that operand, possibly
  wrapped in sorted / tuple / list / set / frozenset"""
  while isinstance(e, ast.Call) and isinstance(e.func, ast.Name) and e.func.id in (
      'sorted', 'tuple', 'list', 'set', 'frozenset') and len(e.args) == 1:
    e = e.args[0]
  ops = []

  def flat(x):
    if isinstance(x, ast.BinOp) and isinstance(x.op, ast.BitOr):
      flat(x.left)
      flat(x.right)
    elif isinstance(x, ast.Call) and isinstance(x.func, ast.Attribute) and \
        x.func.attr == 'union' and not x.keywords:
      flat(x.func.value)
      for a in x.args:
        flat(a)
    else:
      ops.append(x)
  flat(e)
  if len(ops) < 2 and not (len(ops) == 1 and ops[0] is not e):
    return False
  for o in ops:
    t = core.norm(o)
    if t.endswith('.bound') and scope_anno in t and 'getanno(' in t:
      return True
  return False


def scope_move(model, rep, sites, rule='SCOPE-MOVE'):
  """A user *expression* embedded inside a function the template creates (a
  lambda or a def) is evaluated in a new scope: an assignment expression in it
  binds a local of that function instead of the user's variable.  Harmless only
  when the generated function *is* the user's function being rebuilt, when the
  expression is known to be a constant / plain name on that path, or when the
  def declares the names the expression binds (its nonlocal declarations are
  computed from a set that contains the expression's own scope)."""
  from sa import formula
  n = 0
  for s in sites:
    handler_kind = s.fi.name[len('visit_'):] if s.fi.name.startswith('visit_') else None
    node_p = (_params(s.fi) or [None])[0]
    for t in s.templates:
      for f in ast.walk(t.tree):
        if not isinstance(f, (ast.FunctionDef, ast.Lambda)):
          continue
        body = f.body if isinstance(f.body, list) else [f.body]
        decls = []          # statement placeholders of the def
        for b in body:
          if isinstance(b, ast.Expr) and isinstance(b.value, ast.Name) and \
              b.value.id in s.kwargs:
            decls.append(b.value.id)
        for b in body:
          if isinstance(b, ast.Expr) and isinstance(b.value, ast.Name) and \
              b.value.id in s.kwargs:
            continue        # a statement list: bound names go through the state wiring
          for x in ast.walk(b):
            if not (isinstance(x, ast.Name) and x.id in s.kwargs and
                    isinstance(x.ctx, ast.Load)):
              continue
            val = s.kwargs[x.id]
            org = tpl.origin(model, s.fi, val, s.call)
            if 'user' not in org:
              continue
            n += 1
            site = '%s:moved(%s)' % (s.fi.site, x.id)
            vtxt = tpl.xnorm(s.fi, val, s.call)
            # the user's own lambda / function rebuilt around its body
            if handler_kind in ('Lambda', 'FunctionDef', 'AsyncFunctionDef') and \
                node_p is not None and vtxt == node_p + '.body':
              rep.hold(rule, site, {'same_function': handler_kind}, nontrivial=False)
              continue
            # path by path: the value is generated, or a user expression that a
            # test on the way has shown to be a constant / a plain name
            from sa import pathsym

            def _atomic_on(conds, v):
              vt = core.norm(v)
              for pol, tst in conds:
                while isinstance(tst, ast.UnaryOp) and isinstance(tst.op, ast.Not):
                  tst, pol = tst.operand, ('F' if pol == 'T' else 'T')
                if pol == 'T' and isinstance(tst, ast.Call) and core.dotted(tst.func) == \
                    'isinstance' and len(tst.args) == 2 and core.norm(tst.args[0]) == vt:
                  kinds = tst.args[1].elts if isinstance(tst.args[1], ast.Tuple) \
                      else [tst.args[1]]
                  if all(core.dotted(k) in ('ast.Constant', 'ast.Name') for k in kinds):
                    return True
              return False
            class _Visited(ast.NodeTransformer):
              # the visited node is the node (same kind, same fields)
              def visit_Call(self, c):
                self.generic_visit(c)
                if core.norm(c.func) in ('self.generic_visit', 'self.visit') and \
                    len(c.args) == 1 and not c.keywords:
                  return c.args[0]
                return c
            paths = [([(pol, _Visited().visit(t_)) for pol, t_ in conds],
                      _Visited().visit(v))
                     for conds, v in pathsym.path_values(s.fi.node, s.call, val)]
            atomic = bool(paths) and all(
                tpl.origin(model, s.fi, v, s.call) <= {'const', 'generated', 'namer'} or
                _atomic_on(conds, v) for conds, v in paths)
            if atomic:
              rep.hold(rule, site, {'only': 'constants or names', 'paths': len(paths)})
              continue
            # a def whose nonlocal declarations cover the expression's own scope
            declared = False
            if isinstance(f, ast.FunctionDef):
              for d in decls:
                de = tpl.expand(s.fi, s.kwargs[d], s.call)
                if isinstance(de, ast.Call) and core.dotted(de.func) == \
                    'self._create_nonlocal_declarations' and len(de.args) == 1 and \
                    _unconditionally_includes(de.args[0], 'COND_SCOPE'):
                  declared = True
            rep.check(declared, rule, site,
                      'a user expression is evaluated inside a generated %s: an '
                      'assignment expression in it binds a local of that function, '
                      'so the name is unbound (or stale) where the user reads it '
                      'next' % ('lambda' if isinstance(f, ast.Lambda) else 'function'),
                      {'placeholder': x.id, 'value': vtxt,
                       'template': t.text.strip()[:80] if hasattr(t, 'text') else ''},
                      line=s.call.lineno,
                      witness='while (v := next(it, None)) is not None: total += v   /   '
                      'x = (t := 5) if c else 2; return t   /   p and (q := 7); return q')
  return n
