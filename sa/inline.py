"""Normalising pre-pass: helpers that did not exist on the reference tree are
inlined at their call sites before any rule looks at a module.

"Extract method" is the most common behaviour-preserving edit.  The rules are
anchored on the functions of the reference tree (fixtures/known_functions.json:
every def of the pinned tree); a *new private* helper (name starts with `_`,
same class or same module) that a refactoring introduced is substituted back
into its callers, so that a rule sees the statements where it expects them.  A
helper is inlined only when that is an exact transformation:
  - no decorators, generators, recursion, nested defs, global/nonlocal;
  - `return` only in tail position (last statement, or last statement of every
    branch of a trailing if/else chain);
  - the call is a statement of its own, the whole right-hand side of an
    assignment, or the whole operand of a return; or the helper is a single
    `return <expr>` and every argument is a plain name / attribute / constant;
  - positional and keyword arguments bind to parameters by the usual rules,
    defaults fill the rest; *args / **kwargs are not supported.
Locals of the helper are renamed (suffix `__<helper>`) so that they cannot
clash.  Anything else is left alone (the rules then treat the call as opaque).
"""
import ast
import copy
import json
import pathlib

_KNOWN = None


def known(rel):
  global _KNOWN
  if _KNOWN is None:
    p = pathlib.Path(__file__).resolve().parent.parent / 'fixtures' / 'known_functions.json'
    _KNOWN = json.loads(p.read_text()) if p.exists() else {}
  return set(_KNOWN.get(rel, ())) if rel in _KNOWN else None


def _has(node, kinds):
  return any(isinstance(n, kinds) for n in ast.walk(node))


def _tail_ok(stmts):
  """returns occur only in tail position"""
  if not stmts:
    return True
  for s in stmts[:-1]:
    if _has(s, ast.Return):
      return False
  last = stmts[-1]
  if isinstance(last, ast.Return):
    return True
  if isinstance(last, ast.If):
    return _tail_ok(last.body) and _tail_ok(last.orelse)
  if isinstance(last, (ast.With,)):
    return _tail_ok(last.body)
  return not _has(last, ast.Return)


def _always_returns(stmts):
  if not stmts:
    return False
  last = stmts[-1]
  if isinstance(last, ast.Return):
    return True
  if isinstance(last, ast.If):
    return _always_returns(last.body) and _always_returns(last.orelse)
  if isinstance(last, ast.With):
    return _always_returns(last.body)
  return False


def _nest_tail(stmts):
  """`if c: ...return` followed by more statements == the same if with those
  statements as its else branch (guard-clause style -> tail style)."""
  out = []
  for i, s in enumerate(stmts):
    if isinstance(s, ast.If) and not s.orelse and _always_returns(s.body) and \
        i + 1 < len(stmts):
      s2 = copy.copy(s)
      s2.body = _nest_tail(s.body)
      s2.orelse = _nest_tail(stmts[i + 1:])
      out.append(s2)
      return out
    if isinstance(s, ast.If):
      s2 = copy.copy(s)
      s2.body = _nest_tail(s.body)
      s2.orelse = _nest_tail(s.orelse)
      out.append(s2)
    else:
      out.append(s)
  return out


def _strip_doc(body):
  if body and isinstance(body[0], ast.Expr) and isinstance(body[0].value, ast.Constant) \
      and isinstance(body[0].value.value, str):
    return body[1:]
  return body


def eligible(fn, is_method):
  a = fn.args
  if fn.decorator_list or a.vararg or a.kwarg or a.posonlyargs:
    return False
  if _has(fn, (ast.Yield, ast.YieldFrom, ast.Await, ast.Global, ast.Nonlocal, ast.Lambda)):
    pass
  for n in ast.walk(fn):
    if n is not fn and isinstance(n, (ast.FunctionDef, ast.AsyncFunctionDef, ast.ClassDef)):
      return False
    if isinstance(n, (ast.Yield, ast.YieldFrom, ast.Await, ast.Global, ast.Nonlocal)):
      return False
    if isinstance(n, ast.Call):
      f = n.func
      if isinstance(f, ast.Name) and f.id == fn.name:
        return False
      if isinstance(f, ast.Attribute) and f.attr == fn.name and isinstance(
          f.value, ast.Name) and f.value.id == 'self':
        return False
  if is_method and (not a.args or a.args[0].arg != 'self'):
    return False
  return _tail_ok(_nest_tail(_strip_doc(fn.body)))


class _Rename(ast.NodeTransformer):

  def __init__(self, mapping, subst):
    self.mapping = mapping     # local -> renamed local
    self.subst = subst         # param -> argument expression

  def visit_Name(self, n):
    if n.id in self.subst and isinstance(n.ctx, ast.Load):
      return copy.deepcopy(self.subst[n.id])
    if n.id in self.mapping:
      return ast.copy_location(ast.Name(id=self.mapping[n.id], ctx=n.ctx), n)
    return n


def _simple(e):
  if isinstance(e, (ast.Name, ast.Constant)):
    return True
  if isinstance(e, ast.Attribute):
    return _simple(e.value)
  return False


def _bind(fn, call, is_method):
  params = [a.arg for a in fn.args.args]
  if is_method:
    params = params[1:]
  kwonly = [a.arg for a in fn.args.kwonlyargs]
  if any(isinstance(a, ast.Starred) for a in call.args) or any(k.arg is None for k in call.keywords):
    return None
  if len(call.args) > len(params):
    return None
  bound = {}
  for p, a in zip(params, call.args):
    bound[p] = a
  for k in call.keywords:
    if k.arg in bound or k.arg not in params + kwonly:
      return None
    bound[k.arg] = k.value
  defaults = fn.args.defaults
  for p, d in zip(params[len(params) - len(defaults):], defaults):
    bound.setdefault(p, d)
  for p, d in zip(kwonly, fn.args.kw_defaults):
    if d is not None:
      bound.setdefault(p, d)
  if set(bound) != set(params + kwonly):
    return None
  return bound


def _stores(fn):
  out = set()
  for n in ast.walk(fn):
    if isinstance(n, ast.Name) and isinstance(n.ctx, (ast.Store, ast.Del)):
      out.add(n.id)
  return out


def _expand(fn, call, is_method, how, target, line):
  """statements replacing a call statement; how in ('expr', 'assign', 'return')"""
  bound = _bind(fn, call, is_method)
  if bound is None:
    return None
  body = copy.deepcopy(_nest_tail(_strip_doc(fn.body)))
  stores = _stores(fn)
  tag = '__' + fn.name.strip('_')
  mapping = {}
  subst = {}
  pre = []
  for p, a in bound.items():
    if _simple(a) and p not in stores:
      subst[p] = a
    else:
      mapping[p] = p + tag
      pre.append(ast.Assign(targets=[ast.Name(id=p + tag, ctx=ast.Store())],
                            value=copy.deepcopy(a)))
  for s in stores:
    if s not in mapping:
      mapping[s] = s + tag
  ren = _Rename(mapping, subst)
  body = [ren.visit(s) for s in body]

  def tail(stmts):
    if not stmts:
      return stmts
    last = stmts[-1]
    if isinstance(last, ast.Return):
      v = last.value if last.value is not None else ast.Constant(None)
      if how == 'assign':
        rep = [ast.Assign(targets=copy.deepcopy(target), value=v)]
      elif how == 'return':
        rep = [ast.Return(value=v)]
      else:
        rep = [ast.Expr(value=v)] if last.value is not None else [ast.Pass()]
      return stmts[:-1] + rep
    if isinstance(last, ast.If):
      last.body = tail(last.body)
      last.orelse = tail(last.orelse) if last.orelse else (
          [] if how == 'expr' else tail([ast.Return(value=None)]))
      return stmts
    if isinstance(last, ast.With):
      last.body = tail(last.body)
      return stmts
    # falls off the end: the call evaluates to None
    if how == 'assign':
      return stmts + [ast.Assign(targets=copy.deepcopy(target), value=ast.Constant(None))]
    if how == 'return':
      return stmts + [ast.Return(value=ast.Constant(None))]
    return stmts
  body = tail(body)
  out = pre + body
  for s in out:
    for n in ast.walk(s):
      if not hasattr(n, 'lineno'):
        pass
    ast.copy_location(s, line)
    ast.fix_missing_locations(s)
  return out or [ast.copy_location(ast.Pass(), line)]


class _Inliner:

  def __init__(self, helpers_mod, helpers_cls):
    self.helpers_mod = helpers_mod      # name -> FunctionDef (module level)
    self.helpers_cls = helpers_cls      # class name -> {name: FunctionDef}
    self.count = 0

  def _callee(self, call, cls):
    f = call.func
    if isinstance(f, ast.Name) and f.id in self.helpers_mod:
      return self.helpers_mod[f.id], False
    if isinstance(f, ast.Attribute) and isinstance(f.value, ast.Name) and \
        f.value.id == 'self' and cls is not None and f.attr in self.helpers_cls.get(cls, {}):
      return self.helpers_cls[cls][f.attr], True
    return None, False

  def block(self, stmts, cls):
    out = []
    for s in stmts:
      rep = self.stmt(s, cls)
      out.extend(rep)
    return out

  def stmt(self, s, cls):
    # recurse into compound statements first
    for f in ('body', 'orelse', 'finalbody'):
      b = getattr(s, f, None)
      if isinstance(b, list) and b and isinstance(b[0], ast.stmt):
        setattr(s, f, self.block(b, cls))
    if isinstance(s, ast.Try):
      for h in s.handlers:
        h.body = self.block(h.body, cls)
    if isinstance(s, (ast.FunctionDef, ast.ClassDef)):
      return [s]
    call = how = target = None
    if isinstance(s, ast.Expr) and isinstance(s.value, ast.Call):
      call, how = s.value, 'expr'
    elif isinstance(s, ast.Assign) and isinstance(s.value, ast.Call):
      call, how, target = s.value, 'assign', s.targets
    elif isinstance(s, ast.Return) and isinstance(s.value, ast.Call):
      call, how = s.value, 'return'
    if call is not None:
      fn, is_m = self._callee(call, cls)
      if fn is not None:
        rep = _expand(fn, call, is_m, how, target, s)
        if rep is not None:
          self.count += 1
          return self.block(rep, cls)
    # expression-bodied helpers anywhere inside the statement
    self._expr_inline(s, cls)
    # one call of a statement-bodied helper nested in a simple statement whose
    # other sub-expressions are call-free: hoist it in front (same order of
    # evaluation), then expand
    if isinstance(s, (ast.Assign, ast.Expr, ast.Return, ast.AugAssign)):
      calls = [n for n in ast.walk(s) if isinstance(n, ast.Call)]
      mine = [c for c in calls if self._callee(c, cls)[0] is not None]
      if len(mine) == 1 and len(calls) == 1 and not _has(s, (ast.Lambda, ast.ListComp,
                                                             ast.GeneratorExp, ast.DictComp,
                                                             ast.SetComp, ast.IfExp, ast.BoolOp)):
        fn, is_m = self._callee(mine[0], cls)
        tmp = 'ret__' + fn.name.strip('_')
        rep = _expand(fn, mine[0], is_m, 'assign', [ast.Name(id=tmp, ctx=ast.Store())], s)
        if rep is not None:
          class R(ast.NodeTransformer):
            def visit_Call(self, n):
              if n is mine[0]:
                return ast.copy_location(ast.Name(id=tmp, ctx=ast.Load()), n)
              return self.generic_visit(n)
          s2 = R().visit(s)
          ast.fix_missing_locations(s2)
          self.count += 1
          return self.block(rep, cls) + [s2]
    return [s]

  def _expr_inline(self, s, cls):
    me = self

    class T(ast.NodeTransformer):
      def visit_FunctionDef(self, n):
        return n
      def visit_Lambda(self, n):
        return n
      def visit_Call(self, n):
        self.generic_visit(n)
        fn, is_m = me._callee(n, cls)
        if fn is None:
          return n
        body = _strip_doc(fn.body)
        if len(body) != 1 or not isinstance(body[0], ast.Return) or body[0].value is None:
          return n
        bound = _bind(fn, n, is_m)
        if bound is None or not all(_simple(a) for a in bound.values()):
          return n
        if _stores(fn):
          return n        # comprehension variables etc.: keep it simple
        me.count += 1
        e = _Rename({}, bound).visit(copy.deepcopy(body[0].value))
        return ast.copy_location(e, n)
    for f, v in ast.iter_fields(s):
      if isinstance(v, ast.expr):
        setattr(s, f, T().visit(v))
      elif isinstance(v, list):
        for i, x in enumerate(v):
          if isinstance(x, ast.expr):
            v[i] = T().visit(x)
          elif isinstance(x, (ast.keyword, ast.withitem, ast.comprehension)):
            T().visit(x)


def apply(tree, rel):
  """Inlines helpers that are new with respect to the reference tree, then
  removes pure aliases.  Returns the number of call sites rewritten (tree is
  modified in place)."""
  n = _apply_helpers(tree, rel)
  _Idioms().visit(tree)
  import os
  if os.environ.get('VERIF_NO_ALIAS_PROP') != '1':
    for f in ast.walk(tree):
      if isinstance(f, ast.FunctionDef):
        propagate_aliases(f)
    ast.fix_missing_locations(tree)
  return n


class _Idioms(ast.NodeTransformer):
  """Spelling variants with one meaning, brought to one form:
       x.get(k, None) -> x.get(k)          set((a,)) / set([a]) -> {a}
       getattr(x, 'name') -> x.name        setattr(x, 'name', v) -> x.name = v"""

  def visit_Expr(self, n):
    self.generic_visit(n)
    c = n.value
    # D.setdefault(K, set()).update(V)  ==  if K in D: D[K].update(V)
    #                                       else:      D[K] = set(V)
    if isinstance(c, ast.Call) and isinstance(c.func, ast.Attribute) and \
        c.func.attr == 'update' and len(c.args) == 1 and not c.keywords and \
        isinstance(c.func.value, ast.Call) and isinstance(c.func.value.func, ast.Attribute) \
        and c.func.value.func.attr == 'setdefault' and len(c.func.value.args) == 2 and \
        isinstance(c.func.value.args[1], ast.Call) and isinstance(
            c.func.value.args[1].func, ast.Name) and c.func.value.args[1].func.id == 'set' \
        and not c.func.value.args[1].args and _simple(c.func.value.args[0]) and \
        _simple(c.func.value.func.value):
      d, k, v = c.func.value.func.value, c.func.value.args[0], c.args[0]
      sub = lambda ctx: ast.Subscript(value=copy.deepcopy(d), slice=copy.deepcopy(k), ctx=ctx)
      new = ast.If(
          test=ast.Compare(left=copy.deepcopy(k), ops=[ast.In()], comparators=[copy.deepcopy(d)]),
          body=[ast.Expr(value=ast.Call(
              func=ast.Attribute(value=sub(ast.Load()), attr='update', ctx=ast.Load()),
              args=[copy.deepcopy(v)], keywords=[]))],
          orelse=[ast.Assign(targets=[sub(ast.Store())], value=ast.Call(
              func=ast.Name(id='set', ctx=ast.Load()), args=[copy.deepcopy(v)], keywords=[]))])
      return ast.fix_missing_locations(ast.copy_location(new, n))
    if isinstance(c, ast.Call) and isinstance(c.func, ast.Name) and c.func.id == 'setattr' \
        and len(c.args) == 3 and not c.keywords and isinstance(c.args[1], ast.Constant) \
        and isinstance(c.args[1].value, str) and c.args[1].value.isidentifier():
      return ast.copy_location(ast.Assign(
          targets=[ast.Attribute(value=c.args[0], attr=c.args[1].value, ctx=ast.Store())],
          value=c.args[2]), n)
    return n

  def visit_Call(self, n):
    self.generic_visit(n)
    if isinstance(n.func, ast.Attribute) and n.func.attr == 'get' and len(n.args) == 2 \
        and not n.keywords and isinstance(n.args[1], ast.Constant) and \
        n.args[1].value is None:
      n.args = n.args[:1]
      return n
    if isinstance(n.func, ast.Name) and n.func.id == 'getattr' and len(n.args) == 2 and \
        not n.keywords and isinstance(n.args[1], ast.Constant) and isinstance(
            n.args[1].value, str) and n.args[1].value.isidentifier():
      return ast.copy_location(ast.Attribute(value=n.args[0], attr=n.args[1].value,
                                             ctx=ast.Load()), n)
    if isinstance(n.func, ast.Name) and n.func.id == 'set' and len(n.args) == 1 and \
        not n.keywords and isinstance(n.args[0], (ast.Tuple, ast.List)) and \
        n.args[0].elts and not any(isinstance(e, ast.Starred) for e in n.args[0].elts):
      return ast.copy_location(ast.Set(elts=n.args[0].elts), n)
    return n


def _apply_helpers(tree, rel):
  kn = known(rel)
  if kn is None:
    return 0
  helpers_mod = {}
  helpers_cls = {}
  # a reference function that is gone means something was renamed or removed in
  # that scope: a "new" private helper there may just be the old one under a new
  # name, and must keep its identity
  present = set()
  for s in tree.body:
    if isinstance(s, ast.FunctionDef):
      present.add(s.name)
    elif isinstance(s, ast.ClassDef):
      for m in s.body:
        if isinstance(m, ast.FunctionDef):
          present.add(s.name + '.' + m.name)
  gone = kn - present
  gone_mod = any('.' not in g for g in gone)
  gone_cls = {g.split('.')[0] for g in gone if '.' in g}
  for s in tree.body:
    if isinstance(s, ast.FunctionDef) and gone_mod:
      continue
    if isinstance(s, ast.ClassDef) and s.name in gone_cls:
      continue
    if isinstance(s, ast.FunctionDef) and s.name.startswith('_') and \
        not s.name.startswith('__') and s.name not in kn and eligible(s, False):
      helpers_mod[s.name] = s
    elif isinstance(s, ast.ClassDef):
      for m in s.body:
        if isinstance(m, ast.FunctionDef) and m.name.startswith('_') and \
            not m.name.startswith('__') and (s.name + '.' + m.name) not in kn and \
            eligible(m, True):
          helpers_cls.setdefault(s.name, {})[m.name] = m
  if not helpers_mod and not helpers_cls:
    return 0
  inl = _Inliner(helpers_mod, helpers_cls)
  # helpers may call each other: expand inside helpers first (two rounds)
  for _ in range(2):
    for fn in list(helpers_mod.values()):
      fn.body = inl.block(fn.body, None)
    for cname, ms in helpers_cls.items():
      for fn in ms.values():
        fn.body = inl.block(fn.body, cname)
  for s in tree.body:
    if isinstance(s, ast.FunctionDef):
      if s.name not in helpers_mod:
        s.body = inl.block(s.body, None)
    elif isinstance(s, ast.ClassDef):
      for m in s.body:
        if isinstance(m, ast.FunctionDef) and m.name not in helpers_cls.get(s.name, {}):
          m.body = inl.block(m.body, s.name)
  ast.fix_missing_locations(tree)
  return inl.count


# ---------------------------------------------------------------- pure aliases
def _pure_chain(e, roots):
  """self.a.b[K].c / param.x.y : attribute / constant-or-name subscript chains
  rooted at a name in `roots`"""
  if isinstance(e, ast.Name):
    return e.id in roots
  if isinstance(e, ast.Attribute):
    return _pure_chain(e.value, roots)
  if isinstance(e, ast.Subscript) and isinstance(e.slice, (ast.Constant, ast.Name)):
    return _pure_chain(e.value, roots)
  return False


def propagate_aliases(fn):
  """Copy propagation of locals that merely name an attribute chain of self or
  of a parameter: assigned exactly once, at the top level of the function body,
  never rebound, chain root never rebound.  Returns the number of aliases
  removed."""
  params = {a.arg for a in fn.args.posonlyargs + fn.args.args + fn.args.kwonlyargs}
  stores = {}
  for n in ast.walk(fn):
    if isinstance(n, ast.Name) and isinstance(n.ctx, (ast.Store, ast.Del)):
      stores[n.id] = stores.get(n.id, 0) + 1
    elif isinstance(n, (ast.FunctionDef, ast.Lambda)) and n is not fn:
      return 0       # closures may capture: keep it simple
  roots = {p for p in params if stores.get(p, 0) == 0}
  done = 0
  for i, st in enumerate(list(fn.body)):
    if isinstance(st, ast.Assign) and len(st.targets) == 1 and isinstance(
        st.targets[0], ast.Name) and stores.get(st.targets[0].id) == 1 and \
        st.targets[0].id not in params and isinstance(
            st.value, (ast.Attribute, ast.Subscript)) and _pure_chain(st.value, roots):
      name = st.targets[0].id
      # the chain must not be written through between definition and uses:
      # accept only if no statement of the function assigns an attribute /
      # subscript whose text equals a prefix of the chain
      chain = ast.unparse(st.value)
      clobber = False
      for n in ast.walk(fn):
        if isinstance(n, (ast.Attribute, ast.Subscript)) and isinstance(
            n.ctx, (ast.Store, ast.Del)) and chain.startswith(ast.unparse(n)):
          clobber = True
      if clobber:
        continue

      class R(ast.NodeTransformer):
        def visit_Name(self, n):
          if n.id == name and isinstance(n.ctx, ast.Load):
            return ast.copy_location(copy.deepcopy(st.value), n)
          return n
      idx = fn.body.index(st)
      for j in range(idx + 1, len(fn.body)):
        fn.body[j] = R().visit(fn.body[j])
      fn.body.remove(st)
      done += 1
  if not fn.body:
    fn.body = [ast.Pass()]
  return done
